#!/bin/bash
# usage: tools/confirm_seeded.sh C04  — in the agent's worktree /tmp/seed/C04 (src change + demo applied):
# demo must fail with the change and pass without it; then the property's quick check is run against the change in /repo.
P=$1
W=/tmp/seed/$P
S=$W/SEEDED
cd $W || exit 2
demo=$(python3 -c "import json;print(json.load(open('$S/meta.json'))['demo_command'])")
echo "== demo command: $demo"
git status --short | grep -v SEEDED | head
echo "== with change"
( cd $W && timeout 1500 bash -c "$demo" > $S/demo_with.log 2>&1; echo "rc=$?" ) 
grep -E "^test result|panicked|FAILED|failed" $S/demo_with.log | head -5
git apply -R $S/patch.diff || { echo "cannot revert patch"; exit 2; }
echo "== without change"
( cd $W && timeout 1500 bash -c "$demo" > $S/demo_without.log 2>&1; echo "rc=$?" )
grep -E "^test result|panicked|FAILED" $S/demo_without.log | head -5
git apply $S/patch.diff
