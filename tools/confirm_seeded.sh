#!/bin/bash
# usage: tools/confirm_seeded.sh C04c [dir]  — confirms a seeded change in a FRESH scratch worktree of /repo:
# the demo must pass on the clean tree and fail with the change. dir (default /tmp/seed/<name>/SEEDED) holds
# patch.diff, demo.diff, meta.json. (The sub-agent's own worktree is not trusted: a `cd` into it is stripped from
# the demo command and its target directory is replaced.)
P=$1
S=${2:-/tmp/seed/$P/SEEDED}
W=/tmp/confirm/$P
rm -rf $W; mkdir -p /tmp/confirm
git -C /repo worktree prune
git -C /repo worktree add -q --detach $W HEAD || exit 2
cd $W
export CARGO_TARGET_DIR=/tmp/confirm_target CARGO_NET_OFFLINE=true
demo=$(python3 - "$S/meta.json" <<'PY'
import json,sys,re
d=json.load(open(sys.argv[1]))['demo_command']
d=re.sub(r'^\s*cd\s+\S+\s*&&\s*','',d)
d=re.sub(r'CARGO_TARGET_DIR=\S+\s*','',d)
print(d)
PY
)
echo "== demo command (in a fresh worktree): $demo"
git apply $S/demo.diff || { echo "demo.diff does not apply"; }
echo "== without change"
timeout 2400 bash -c "$demo" > /tmp/confirm/$P.without.log 2>&1; echo "rc=$?"
grep -E "^test result|panicked|FAILED" /tmp/confirm/$P.without.log | head -4
git apply $S/patch.diff || { echo "patch.diff does not apply on top of demo"; }
echo "== with change"
timeout 2400 bash -c "$demo" > /tmp/confirm/$P.with.log 2>&1; echo "rc=$?"
grep -E "^test result|panicked|FAILED" /tmp/confirm/$P.with.log | head -4
cd /; git -C /repo worktree remove --force $W
