#!/bin/bash
# usage: tools/confirm_seeded.sh C04  — confirms a seeded change in a FRESH scratch worktree of /repo:
# the demo must pass on the clean tree and fail with the change. (The sub-agent's own worktree is not trusted:
# `git stash` is shared between worktrees.)
P=$1
S=/tmp/seed/$P/SEEDED
W=/tmp/confirm/$P
rm -rf $W; mkdir -p /tmp/confirm
git -C /repo worktree add -q --detach $W HEAD || exit 2
cd $W
export CARGO_TARGET_DIR=/tmp/confirm_target
demo=$(python3 -c "import json;print(json.load(open('$S/meta.json'))['demo_command'])")
echo "== demo command: $demo"
git apply $S/demo.diff || { echo "demo.diff does not apply"; }
echo "== without change"
timeout 2400 bash -c "$demo" > $S/demo_without.log 2>&1; echo "rc=$?"
grep -E "^test result|panicked|FAILED" $S/demo_without.log | head -4
git apply $S/patch.diff || { echo "patch.diff does not apply on top of demo"; }
echo "== with change"
timeout 2400 bash -c "$demo" > $S/demo_with.log 2>&1; echo "rc=$?"
grep -E "^test result|panicked|FAILED" $S/demo_with.log | head -4
cd /; git -C /repo worktree remove --force $W
