#!/usr/bin/env python3
"""Translator for C13: the enums, match arms and configuration of the request-response protocol.

From src/protocol/request_response/handle.rs
  * the variants of InnerRequestResponseEvent, RequestResponseEvent, RequestResponseError, RejectReason,
    DialOptions and RequestResponseCommand,
  * the arms of `impl From<InnerRequestResponseEvent> for RequestResponseEvent` (variant -> variant, `_` -> panic)
    and of the match in `RequestResponseHandle::poll_next` (which variant is handled before `.into()`),
  * the arms of `impl From<SubstreamError> for RejectReason` (pattern, guard, resulting variant),
  * what every public method of RequestResponseHandle does with `pending_responses`, the command channel
    and the id allocator.
From src/protocol/request_response/mod.rs
  * the arms of the `select!` of `run()` in order, with their guards, and whether it is `biased`,
  * TransportEvent variant -> handler(s) in `handle_service_event`, RequestResponseCommand variant -> handler
    in `handle_user_command`,
  * the error mapping of `on_substream_open_failure`, the sequence of outcome tokens of the request future
    built in `on_outbound_substream`, the bound test of `on_inbound_substream`, the outcome tokens of the
    response future built in `on_inbound_request`.
From src/protocol/request_response/config.rs: the codec expression, the channel capacities, the
defaults of `ConfigBuilder::new` and the field every `with_*` setter writes.
From src/error.rs: the variants of ImmediateDialError and SubstreamError.

Written to coq/gen/C13Tables.v (and the variant names to harness/src/gen_c13_tables.rs) on every check.
coq/C13/Tables.v holds the tables the model was written for and proves `tables_in_sync` by
computation: a new / renamed / reordered variant, a changed mapping, a reordered select! arm or a
changed configuration default breaks a proof obligation of ./check C13.

Called from gen_consts.py; can be run by hand (prints the Coq file)."""
import os
import re
import sys

HERE = os.path.dirname(os.path.abspath(__file__))
OUT = os.path.join(HERE, "..", "coq", "gen", "C13Tables.v")
OUT_RS = os.path.join(HERE, "..", "harness", "src", "gen_c13_tables.rs")
RR = "src/protocol/request_response/"

sys.path.insert(0, HERE)
from gen_c18_sites import blank, match_brace, strip_tests  # noqa: E402
from gen_c15_dispatch import top_variants, fn_body  # noqa: E402


def norm(t):
    t = re.sub(r"\s+", " ", t).strip()
    t = re.sub(r"\s*([(){}\[\],:;&|])\s*", r"\1", t)
    return t


def strip_verif(s):
    """Blank `#[cfg(feature = "verif")]` statements / items (attribute up to the end of the item)."""
    out = list(s)
    for m in re.finditer(r'#\[cfg\(feature\s*=\s*"[^"]*"\)\]', s):
        j = m.end()
        while j < len(s) and s[j] not in "{;":
            j += 1
        end = match_brace(s, j) if j < len(s) and s[j] == "{" else j + 1
        for k in range(m.start(), min(end, len(s))):
            if out[k] != "\n":
                out[k] = " "
    return "".join(out)


def strip_tracing(s):
    """Blank `tracing::xxx!( .. );` invocations (they contain commas and `=>`-free text only, but long)."""
    out = list(s)
    for m in re.finditer(r"\btracing\s*::\s*\w+\s*!\s*\(", s):
        d, j = 0, m.end() - 1
        while j < len(s):
            if s[j] == "(":
                d += 1
            elif s[j] == ")":
                d -= 1
                if d == 0:
                    break
            j += 1
        for k in range(m.start(), min(j + 1, len(s))):
            if out[k] != "\n":
                out[k] = " "
    return "".join(out)


def enum_variants(clean, name):
    m = re.search(r"\benum\s+" + name + r"\s*\{", clean)
    if not m:
        return []
    start = m.end() - 1
    end = match_brace(clean, start)
    return [v for v, _ in top_variants(clean[start + 1:end - 1])]


def block_after(clean, rx, start=0):
    """Text inside the `{..}` that follows the first match of rx (searching from `start`)."""
    m = re.compile(rx).search(clean, start)
    if not m:
        return None
    i = clean.find("{", m.end() - 1)
    if i < 0:
        return None
    return clean[i + 1:match_brace(clean, i) - 1]


def split_arms(body):
    """Arms of a match body: [(pattern, guard, result text)]."""
    arms = []
    i, n = 0, len(body)
    while i < n:
        # pattern: up to `=>` at depth 0
        d, j = 0, i
        while j < n:
            ch = body[j]
            if ch in "([{":
                d += 1
            elif ch in ")]}":
                d -= 1
            elif ch == "=" and body[j:j + 2] == "=>" and d == 0:
                break
            j += 1
        if j >= n:
            break
        head = body[i:j]
        j += 2
        while j < n and body[j].isspace():
            j += 1
        if j < n and body[j] == "{":
            e = match_brace(body, j)
            res = body[j:e]
            j = e
            while j < n and body[j].isspace():
                j += 1
            if j < n and body[j] == ",":
                j += 1
        else:
            d, k = 0, j
            while k < n:
                ch = body[k]
                if ch in "([{":
                    d += 1
                elif ch in ")]}":
                    d -= 1
                elif ch == "," and d == 0:
                    break
                k += 1
            res = body[j:k]
            j = k + 1
        g = re.split(r"\bif\b", head, maxsplit=1)
        pat = norm(g[0])
        guard = norm(g[1]) if len(g) > 1 else ""
        if pat:
            arms.append((pat, guard, res))
        i = j
    return arms


TOKENS = re.compile(
    r"ErrorKind::\w+|RequestResponseError::\w+|RejectReason::\w+|error\.into\(\)|Ok\(response|"
    r"tokio::time::timeout|sleep\(request_timeout\)|substream\.next\(\)|substream\.send_framed|substream\.close\(\)|"
    r"_\s*=\s*rx|rx\.await|feedback\.send\(\(\)\)|tokio::select!|biased")


def tokens(text):
    return [norm(t) for t in TOKENS.findall(text)]


def generate(repo):
    missing = []

    def read(path):
        try:
            src = open(os.path.join(repo, path)).read()
        except OSError:
            missing.append(("C13_TABLES", path, "file not found"))
            return ""
        return strip_tracing(strip_verif(blank(strip_tests(src))))

    handle = read(RR + "handle.rs")
    mod = read(RR + "mod.rs")
    config = read(RR + "config.rs")
    error = read("src/error.rs")
    t = {}
    t["enums"] = [(n, enum_variants(handle, n)) for n in
                  ["InnerRequestResponseEvent", "RequestResponseEvent", "RequestResponseError", "RejectReason",
                   "DialOptions", "RequestResponseCommand"]]
    t["enums"] += [(n, enum_variants(error, n)) for n in ["ImmediateDialError", "SubstreamError"]]

    # impl From<InnerRequestResponseEvent> for RequestResponseEvent
    body = block_after(handle, r"impl\s+From\s*<\s*InnerRequestResponseEvent\s*>\s*for\s+RequestResponseEvent")
    mb = block_after(body or "", r"\bmatch\s+event\b")
    t["inner_to_outer"] = []
    for pat, guard, res in split_arms(mb or ""):
        pm = re.match(r"InnerRequestResponseEvent::(\w+)", pat)
        rm = re.match(r"\s*RequestResponseEvent::(\w+)", res)
        t["inner_to_outer"].append((pm.group(1) if pm else pat, rm.group(1) if rm else ("panic" if "panic!" in res else norm(res)[:40])))

    # poll_next
    body = block_after(handle, r"impl\s+futures::Stream\s+for\s+RequestResponseHandle")
    mb = block_after(body or "", r"Some\(event\)\s*=>\s*match\s+event\b")
    t["poll_next"] = []
    for pat, guard, res in split_arms(mb or ""):
        pm = re.match(r"InnerRequestResponseEvent::(\w+)", pat)
        what = []
        if re.search(r"self\.pending_responses\.insert\(\s*request_id\s*,\s*response_tx\s*\)", res):
            what.append("insert")
        rm = re.search(r"RequestResponseEvent::(\w+)", res)
        if rm:
            what.append(rm.group(1))
        if re.search(r"event\.into\(\)", res):
            what.append("into")
        t["poll_next"].append((pm.group(1) if pm else pat, "+".join(what)))

    # impl From<SubstreamError> for RejectReason
    body = block_after(handle, r"impl\s+From\s*<\s*SubstreamError\s*>\s*for\s+RejectReason")
    mb = block_after(body or "", r"\bmatch\s+error\b")
    t["reject_from"] = []
    for pat, guard, res in split_arms(mb or ""):
        rm = re.search(r"RejectReason::(\w+)", res)
        t["reject_from"].append((pat, guard, rm.group(1) if rm else norm(res)[:40]))

    # the public methods of the handle
    t["handle_fns"] = []
    ib = block_after(handle, r"impl\s+RequestResponseHandle\b")
    for m in re.finditer(r"\bpub\s+(?:async\s+)?fn\s+(\w+)", ib or ""):
        name = m.group(1)
        fb = fn_body(ib, name) or ""
        what = []
        for tag, rx in [("remove", r"self\.pending_responses\.remove\(\s*&request_id\s*\)"),
                        ("drop", r"\bdrop\(sender\)"),
                        ("send_some", r"response_tx\.send\(\(response,\s*Some\(feedback\)\)\)"),
                        ("send_none", r"response_tx\.send\(\(response,\s*None\)\)"),
                        ("next_id", r"self\.next_request_id\(\)"),
                        ("try_send", r"\.try_send\("),
                        ("send_await", r"\.send\([^;]*\)\s*\.await"),
                        ("ChannelClogged", r"Error::ChannelClogged")]:
            if re.search(rx, fb, re.S):
                what.append(tag)
        cm = re.search(r"RequestResponseCommand::(\w+)", fb)
        if cm:
            what.append(cm.group(1))
        t["handle_fns"].append((name, "+".join(what)))
    fb = fn_body(handle, "next_request_id") or ""
    t["allocator"] = norm(re.sub(r"let\s+request_id\s*=", "", fb))[:120]

    # run(): the select! arms
    rb = fn_body(mod, "run") or ""
    sb = block_after(rb, r"tokio::select!")
    t["select"] = []
    t["select_biased"] = bool(re.search(r"\bbiased\s*;", sb or ""))
    for m in re.finditer(r"(?:^|\n)\s*(\w+)\s*=\s*(self\.[\w.]+\(\)(?:\.\w+\(\))?)\s*(?:,\s*if\s+([^=]+?))?\s*=>", sb or ""):
        t["select"].append((norm(m.group(2)), norm(m.group(3) or "")))

    # handle_service_event / handle_user_command
    def dispatch(fn, enum):
        fb = fn_body(mod, fn) or ""
        heads = list(re.finditer(enum + r"::(\w+)", fb))
        res = []
        for i, h in enumerate(heads):
            end = heads[i + 1].start() if i + 1 < len(heads) else len(fb)
            calls = re.findall(r"self\s*\.\s*(on_\w+)\s*\(", fb[h.end():end])
            res.append((h.group(1), "+".join(calls)))
        return res
    t["service_arms"] = dispatch("handle_service_event", "TransportEvent")
    t["command_arms"] = dispatch("handle_user_command", "RequestResponseCommand")

    # on_substream_open_failure
    fb = fn_body(mod, "on_substream_open_failure") or ""
    mb = block_after(fb, r"error\s*:\s*match\s+error\b")
    t["open_failure"] = []
    for pat, guard, res in split_arms(mb or ""):
        t["open_failure"].append((pat, "".join(tokens(res)) or norm(res)[:40]))
    t["outbound_future"] = tokens(fn_body(mod, "on_outbound_substream") or "")
    t["inbound_future"] = tokens(fn_body(mod, "on_inbound_request") or "")
    fb = fn_body(mod, "on_inbound_substream") or ""
    bm = re.search(r"let\s+num_inbound_requests\s*=\s*([^;]+);", fb)
    cm = re.search(r"\bif\s+(max_requests[^{]+)\{", fb)
    t["inbound_bound"] = [norm(bm.group(1)) if bm else "", norm(cm.group(1)) if cm else ""]
    t["dial_arms"] = tokens(fn_body(mod, "on_send_request") or "")
    # on_send_request: what it does per DialOptions / dial result
    fb = fn_body(mod, "on_send_request") or ""
    t["send_request"] = [norm(x) for x in re.findall(
        r"DialOptions::\w+\s*=>|self\.service\.dial\(&peer\)|self\.service\.open_substream\(peer\)|"
        r"self\.pending_dials\s*\.entry\(peer\)\s*\.or_default\(\)\s*\.push|RejectReason::DialFailed\(\s*Some\(error\),?\s*\)|"
        r"RequestResponseError::NotConnected|context\.active\.insert\(request_id\)|self\.pending_outbound\.insert", fb)]

    # config.rs
    nb = fn_body(config, "new") or ""
    cm = re.search(r"codec\s*:\s*([^,]+(?:\([^)]*\))*[^,]*),", nb)
    t["codec"] = norm(cm.group(1)) if cm else ""
    t["channels"] = [norm(x) for x in re.findall(r"=\s*channel\(([^)]*)\)", nb)]
    bb = block_after(config, r"impl\s+ConfigBuilder\b") or ""
    nb2 = fn_body(bb, "new") or ""
    t["builder_defaults"] = [(a, norm(b)) for a, b in re.findall(r"(\w+)\s*:\s*([^,\n]+),", block_after(nb2, r"Self") or "")]
    t["setters"] = []
    for m in re.finditer(r"\bpub\s+fn\s+(with_\w+)", bb):
        fb = fn_body(bb, m.group(1)) or ""
        fm = re.search(r"self\.(\w+)\s*=\s*([^;]+);", fb)
        t["setters"].append((m.group(1), fm.group(1) if fm else "", norm(fm.group(2)) if fm else ""))
    bf = fn_body(bb, "build") or ""
    t["build"] = [norm(x) for x in re.findall(r"self\.[\w.]+(?:\(\))?(?:\.expect)?", bf)]
    for key in ["inner_to_outer", "poll_next", "reject_from", "handle_fns", "select", "service_arms", "command_arms",
                "open_failure", "outbound_future", "inbound_future", "setters", "builder_defaults"]:
        if not t[key]:
            missing.append(("C13_TABLES", RR, "could not read table " + key))
    for n, vs in t["enums"]:
        if not vs:
            missing.append(("C13_TABLES", RR, "could not read enum " + n))
    write(t)
    return {"C13_SELECT_ARMS": len(t["select"]), "C13_ERROR_VARIANTS": len(dict(t["enums"]).get("RequestResponseError", []))}, missing


def write(t):
    def s(x):
        return '"%s"' % x.replace('"', "'")

    def strs(l):
        return "[" + "; ".join(s(x) for x in l) + "]"

    def tup(l):
        return "[" + ";\n   ".join("(" + ", ".join(s(a) for a in x) + ")" for x in l) + "]"

    lines = [
        "(* GENERATED by tools/gen_c13_tables.py from src/protocol/request_response/{handle,mod,config}.rs and",
        "   src/error.rs on every check. Do not edit. *)",
        "From Coq Require Import List String.",
        "Import ListNotations.",
        "Open Scope string_scope.",
        "",
        "(* enums: (name, variants in source order) *)",
        "Definition enums : list (string * list string) :=",
        "  [" + ";\n   ".join("(%s, %s)" % (s(n), strs(v)) for n, v in t["enums"]) + "].",
        "(* impl From<InnerRequestResponseEvent> for RequestResponseEvent: (inner variant, outer variant | panic) *)",
        "Definition inner_to_outer : list (string * string) := " + tup(t["inner_to_outer"]) + ".",
        "(* RequestResponseHandle::poll_next: (pattern, what the arm does) *)",
        "Definition poll_next : list (string * string) := " + tup(t["poll_next"]) + ".",
        "(* impl From<SubstreamError> for RejectReason: (pattern, guard, RejectReason variant) *)",
        "Definition reject_from : list (string * string * string) := " + tup(t["reject_from"]) + ".",
        "(* public methods of RequestResponseHandle: (name, what it touches) *)",
        "Definition handle_fns : list (string * string) := " + tup(t["handle_fns"]) + ".",
        "Definition allocator : string := " + s(t["allocator"]) + ".",
        "(* run(): select! arms in order (polled expression, guard); biased? *)",
        "Definition select_arms : list (string * string) := " + tup(t["select"]) + ".",
        "Definition select_biased : bool := " + ("true" if t["select_biased"] else "false") + ".",
        "(* handle_service_event: (TransportEvent variant, handlers); handle_user_command: (command, handler) *)",
        "Definition service_arms : list (string * string) := " + tup(t["service_arms"]) + ".",
        "Definition command_arms : list (string * string) := " + tup(t["command_arms"]) + ".",
        "(* on_substream_open_failure: (pattern, result tokens) *)",
        "Definition open_failure : list (string * string) := " + tup(t["open_failure"]) + ".",
        "(* outcome tokens of the request future (on_outbound_substream) and the response future (on_inbound_request) *)",
        "Definition outbound_future : list string := " + strs(t["outbound_future"]) + ".",
        "Definition inbound_future : list string := " + strs(t["inbound_future"]) + ".",
        "(* on_inbound_substream: the load expression and the refusal test *)",
        "Definition inbound_bound : list string := " + strs(t["inbound_bound"]) + ".",
        "(* on_send_request: its decisions in source order *)",
        "Definition send_request : list string := " + strs(t["send_request"]) + ".",
        "(* config.rs *)",
        "Definition codec : string := " + s(t["codec"]) + ".",
        "Definition channels : list string := " + strs(t["channels"]) + ".",
        "Definition builder_defaults : list (string * string) := " + tup(t["builder_defaults"]) + ".",
        "Definition setters : list (string * string * string) := " + tup(t["setters"]) + ".",
        "Definition build : list string := " + strs(t["build"]) + ".",
    ]
    text = "\n".join(lines) + "\n"
    os.makedirs(os.path.dirname(OUT), exist_ok=True)
    old = open(OUT).read() if os.path.exists(OUT) else None
    if old != text:
        open(OUT, "w").write(text)

    def rstrs(l):
        return "&[" + ", ".join('"%s"' % x for x in l) + "]"

    rs = ["// GENERATED by tools/gen_c13_tables.py from the request-response sources on every check. Do not edit."]
    for n, v in t["enums"]:
        cname = re.sub(r"(?<!^)(?=[A-Z])", "_", n).upper()
        rs += ["#[rustfmt::skip]", "#[allow(dead_code)]", "pub const %s: &[&str] = %s;" % (cname, rstrs(v))]
    text = "\n".join(rs) + "\n"
    old = open(OUT_RS).read() if os.path.exists(OUT_RS) else None
    if old != text:
        open(OUT_RS, "w").write(text)
    return text


if __name__ == "__main__":
    repo = os.environ.get("VERIF_REPO", "/repo")
    counts, missing = generate(repo)
    print(open(OUT).read())
    print(counts, missing, file=sys.stderr)
