"""Per-property configuration of ./check."""

COMMON_TRUSTED = [
    "Coq 8.16.1 kernel (coqc; coqchk in the thorough tier); vm_compute used in Examples and in the in-Coq sample evaluation; native_compute not used",
    "extraction: ExtrOcamlBasic only (Extract Inductive bool/option/unit/list/prod/sumbool/sumor, Extract Inlined Constant andb/orb/negb/fst/snd as shipped); ocaml/driver.ml (int<->N, line IO)",
    "translator tools/gen_consts.py (regex-level, constants only)",
    "correspondence harness /verif/harness (Rust) and the cfg(feature=\"verif\") hooks in /repo (re-exports and read accessors, add-only)",
    "the model is hand-written: the theorems are about coq/<id>/Model.v; the tie to the Rust code is the differential run reported in this file",
]

PROPS = {
    "C17": {
        "coq_dir": "C17",
        "harness": "c17",
        "cases": {"quick": 400, "thorough": 20000},
        "consts": ["DEFAULT_MAX_RECORDS", "DEFAULT_MAX_RECORD_SIZE_BYTES", "DEFAULT_MAX_PROVIDER_KEYS",
                   "DEFAULT_MAX_PROVIDER_ADDRESSES", "DEFAULT_MAX_PROVIDERS_PER_KEY"],
        "rule": "seeded random operation histories (10-120 ops quick, 20-500 thorough) over <=8 keys and <=10 providers with "
                "configurations drawn from {0,1,2,3,default}; after every operation the returned value and the full sorted store "
                "dump of the real MemoryStore are compared with the extracted Coq model; a case is non-trivial when its trace has "
                ">= 8 numbers; distinct = distinct (case, trace) pairs",
        "trusted_base": [
            "SHA-256 distance between provider and key enters the model as a rank supplied by the harness (computed with the real code); equal distance <=> equal peer is assumed",
            "std::time::Instant: expiries are placed >= 1000 s in the future or < 1 ms after harness start, so that wall-clock drift cannot flip a comparison",
        ],
        "level_text": "Proof: the store invariant (all five size bounds, key uniqueness, strictly distance-sorted duplicate-free provider "
                      "lists) is proved inductive over every operation history and configuration with max_providers_per_key >= 1; "
                      "freshness of reads, TTL monotonicity and the put_provider refinement (delete old entry, insert sorted, keep the closest) "
                      "are theorems about the model; the model is tied to store.rs by a per-operation differential run with full state dumps.",
        "level_note": "Trusted: Coq kernel, ExtrOcamlBasic extraction, the harness and hooks; SHA-256 distances enter as ranks; Instant-based "
                      "expiry is exercised only far from the comparison boundary; the refresh timer of local providers is not modelled.",
        "assumptions": ["max_providers_per_key >= 1 (as in the property text)", "HashMap iteration order is not observable (dumps are sorted)"],
    },
    "C12": {
        "coq_dir": "C12",
        "harness": "c12",
        "cases": {"quick": 1500, "thorough": 60000},
        "consts": ["BACKPRESSURE_BOUNDARY"],
        "nontrivial_min_trace": 40,
        "rule": "seeded random action scripts (15-90 actions quick, 30-400 thorough; plus the stored witnesses) over one notification stream built from the "
                "real NotificationHandle / NotificationSink / Connection / Substream code between scripted in-memory carriers: capacities {1,2,16}x{1,2,16}x{1,4,64} "
                "(sync, async, user channel), maximum sizes {8,16,64,100,30000,50000} with a smaller receiver maximum in a third of the cases, notification sizes "
                "from 4 bytes to beyond the maximum, bursts up to 5x a capacity through one or both modes, carrier write/read stalls, user reads, handle polls, "
                "local close of either end, transport kill, reopen; after EVERY action both Connection tasks are run to quiescence and the send result, the "
                "events seen by the users and a 12-number dump (tasks alive, free slots of the three channels, blocked/completed async sends, frames in the carrier, "
                "ForceClose and close notifications) are compared with the extracted Coq model; the merge order chosen by tokio::select! is read back from the "
                "carrier and given to the model as hints; a case is non-trivial when its trace has >= 40 numbers; distinct = distinct (case, trace) pairs",
        "trusted_base": [
            "tokio mpsc FIFO order, semaphore fairness for blocked send() callers and PollSender reservation semantics are exercised through the real crate but not modelled below the channel level",
            "the harness plays the part of NotificationProtocol when it wires a stream (the cfg(verif) constructor transcribes the Validating->Open arm of on_handshake_event); ForceClose is answered by killing both carriers",
            "the byte carrier is the harness's own AsyncRead/AsyncWrite pipe (accepts whole writes while its gate is open); yamux windowing and partial writes belong to C04",
            "payloads are >= 4 bytes (mode, period and tag are encoded in the first four bytes)",
            "notifications larger than the SENDER's maximum are generated only in single-mode cases (a pop that is refused before the next flush is invisible on the carrier, so the merge hint could not be reconstructed); the theorems cover the mixed case",
        ],
        "level_text": "Proof: for every configuration, action script and merge order, the notifications delivered to the receiving user per period and per sending mode form a prefix "
                      "of those accepted (C12_per_mode_fifo, also with the still-queued ones), and while both Connection tasks run nothing accepted is lost "
                      "(C12_no_loss_while_open: accepted = delivered ++ user channel ++ carrier ++ sink ++ next_notification ++ queue, per mode); oversize notifications are never "
                      "delivered; the user channel never exceeds its capacity counting the reserved slot and the receiver does not read without one; delivered periods never decrease; "
                      "send_sync is a single step with four outcomes raising ForceClose only when the clogged flag is clear, and over any script at most one ForceClose is raised per period (C12_clog_once); send_async only queues and a blocked sender remains only "
                      "while the queue is full. The model is tied to connection.rs/handle.rs/substream by a per-action differential run with state dumps.",
        "level_note": "Trusted: Coq kernel, ExtrOcamlBasic extraction, harness and hooks, tokio channel semantics. Atomic-handler abstraction: one scripted action then quiescence on a "
                      "current-thread runtime; races between the user task and the protocol task (an Opened event arriving while the handle drains stale notifications) and tokio's coop "
                      "budget are not exhibited. The reverse direction of the stream is idle.",
        "assumptions": ["channel capacities >= 1 (tokio panics on 0)",
                        "a stream is reopened only after both Connection tasks of the previous period have finished (guaranteed by NotificationProtocol's peer state, C11)",
                        "relative order between the two sending modes is not claimed (matches the property text)"],
    },
}
