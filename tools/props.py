"""Per-property configuration of ./check."""

COMMON_TRUSTED = [
    "Coq 8.16.1 kernel (coqc; coqchk in the thorough tier); vm_compute used in Examples and in the in-Coq sample evaluation; native_compute not used",
    "extraction: ExtrOcamlBasic only (Extract Inductive bool/option/unit/list/prod/sumbool/sumor, Extract Inlined Constant andb/orb/negb/fst/snd as shipped); ocaml/driver.ml (int<->N, line IO)",
    "translator tools/gen_consts.py (regex-level, constants only)",
    "correspondence harness /verif/harness (Rust) and the cfg(feature=\"verif\") hooks in /repo (re-exports and read accessors, add-only)",
    "the model is hand-written: the theorems are about coq/<id>/Model.v; the tie to the Rust code is the differential run reported in this file",
]

PROPS = {
    "C05": {
        "coq_dir": "C05",
        "coq_deps": ["Mgr"],
        "model_files": ["Glue"],
        "harness": "c05",
        "cases": {"quick": 1500, "thorough": 40000},
        "consts": [],
        "rule": "adaptive seeded event histories (5-60 events quick, 10-120 thorough) against the real TransportManager with a scripted "
                "transport: dial requests by peer and by address, address additions, open/negotiate outcomes, inbound connections "
                "(ids drawn from the shared counter), accept futures, closures, limit configurations from {none,0,1,2,3}; 85% follow "
                "the transport contract and end with a settle phase (all owed answers delivered, every peer re-dialled), 15% add "
                "infeasible noise (unknown ids, failing transport calls, failing accepts). After every event the transport calls, "
                "protocol notifications, manager events, return code and a dump of peer states / pending / counted sets are compared "
                "with the extracted Coq model. Non-trivial: trace >= 8 numbers; distinct (case, trace) pairs are counted.",
        "level_text": "Proof + translation validation: per-handler theorems about the manager's dial bookkeeping (re-dial is attempted, "
                      "failure reports consume the pending attempt, a failed dial or a limit-rejected outbound connection leaves no dial "
                      "record, panics need contradictory ids) hold for every state and configuration; the history-level ledger "
                      "(exactly one outcome per attempt, no wedged peer at quiescence) is decided by the extracted oracle on the "
                      "implementation's own traces over generated feasible histories; the model is tied to manager/mod.rs step by step.",
        "level_note": "Trusted: Coq kernel, extraction, harness + ScriptedTransport hook. One transport (TCP) only; the address book is "
                      "abstracted to 'has an address'; `.await` on full protocol channels inside the DialFailure fan-out is not modelled; "
                      "the inductive ledger proof over all histories is not finished (stated in coq/C05/Properties.v).",
        "trusted_base": [
            "transport contract assumed for the feasible stream: open/dial/negotiate calls succeed, each is answered once unless cancelled, accept futures succeed (validated for TCP by reading tcp/mod.rs)",
            "connection ids: inbound ids are drawn from the counter shared with the manager (AllocConn event / verif_alloc_connection_id hook)",
        ],
        "assumptions": ["single installed transport (default cargo features of the harness build)",
                        "debug build: a reachable debug_assert!(false) shows up as a panic"],
    },
    "C06": {
        "coq_dir": "C06",
        "coq_deps": ["Mgr"],
        "model_files": ["Glue"],
        "harness": "c05",
        "harness_extra": "--focus limits",
        "cases": {"quick": 1500, "thorough": 40000},
        "consts": [],
        "rule": "same harness as C05 with the generator biased to small limits (1..3) so that the counted sets saturate; the oracle "
                "recomputes the ledger of established connections from the events and the accept() calls the implementation made and "
                "checks the per-peer bound, both maxima, 'accepted when below the limit' and 'rejection leaves established records "
                "untouched' at every step. Non-trivial: trace >= 8 numbers; distinct (case, trace) pairs are counted.",
        "level_text": "Proof: the cap invariant (every established connection is recorded in its peer's state, ids unique, counted sets "
                      "= established connections of that direction, sizes within the configured maxima, accept futures consistent) is "
                      "inductive over every event the manager handles, for every configuration incl. Some 0, under the stated uniqueness "
                      "of connection ids; corollaries: at most two per peer, maxima never exceeded, no leaked slot, exact release, accept "
                      "below the limit, rejection preserves established records, dial gate. Model tied to the code step by step.",
        "level_note": "Trusted: Coq kernel, extraction, harness + ScriptedTransport hook. Environment assumption env_ok: an established "
                      "connection never reuses a live id, a close notice names the owning peer and follows the accept future.",
        "trusted_base": ["uniqueness of connection ids (one shared atomic counter in the code) is an assumption of the theorems (env_ok)"],
        "assumptions": ["single installed transport", "usize counters do not wrap"],
    "C15": {
        "coq_dir": "C15",
        "harness": "c15",
        "cases": {"quick": 1500, "thorough": 30000},
        "consts": ["REPLICATION_FACTOR", "PARALLELISM_FACTOR", "DEFAULT_PEER_TIMEOUT_SECS"],
        "nontrivial_min_trace": 30,
        "rule": "three streams against the real QueryEngine holding one query (find_node / put_record lookup / add_provider lookup / "
                "get_record / get_providers): (1) N seeded random networks on <= 8 peers (who knows whom incl. self/local/duplicates, "
                "failing peers, peers answering with the wrong message type, unsolicited and duplicate responses, send notifications, "
                "events after the terminal action) with random reply schedules; (2) 6N (quick) / 10N (thorough) runs of an EXHAUSTIVE "
                "enumeration: for random networks on 3-5 peers with <= 2 contacts each, alpha in {1,2,3}, "
                "k in {1,2,20}, every order in which outstanding requests are resolved x every answered/failed choice (odometer over the "
                "environment's choice points; the harness log says how many networks were enumerated completely); (3) 16 / 96 wall-clock "
                "FIND_NODE cases with the peer timeout shortened to 110 ms through the hook (logical half-ticks of 20 ms, a case is "
                "discarded and retried when a call starts more than 7 ms late). The environment is adaptive, the executed event list is "
                "written into the case and replayed by the extracted model; after every event the returned action and the full state "
                "dump (candidates in order, sorted pending/queried, responses in order, pending_responses, found_records, queued "
                "records, found providers, query present?) are compared; prop_ok re-judges the property text on the implementation's "
                "actions alone; a case is non-trivial when its trace has >= 30 numbers; distinct = distinct (case, trace) pairs",
        "trusted_base": [
            "SHA-256 XOR distances enter the model as ranks: the harness sorts a pool of 16 random peers by their real distance to the real target key and maps case peer i to the pool peer of rank dist[i]; distinct peers are assumed to have distinct distances (dist_inj)",
            "std::time::Instant in FindNodeContext: exercised only by the small timed stream (20 ms half-ticks, 7 ms tolerance, late runs discarded); all other cases finish far inside the default 10 s timeout",
            "one query per QueryEngine (HashMap iteration order over several queries is not modelled); next_peer_action is not modelled",
        ],
        "level_text": "Proof: for every seed set, configuration and event history (any interleaving of next_action calls, responses with arbitrary "
                      "peer lists, failures) the model keeps candidates/pending/queried pairwise disjoint and free of the local peer, sends to no "
                      "peer twice, keeps at most alpha counting requests in flight (time-monotone histories), emits at most one terminal action "
                      "after which nothing happens, cannot deadlock with nothing in flight (alpha >= 1), and strictly decreases the measure "
                      "2*|unvisited|+|pending| on every send / accepted reply (at most 2n productive steps over n peers); FIND_NODE success "
                      "reports answered peers, strictly distance-sorted, <= k, with every known closer peer contacted; GET_VALUE emits each "
                      "accepted record exactly once and sends nothing once the quorum is met; GET_PROVIDERS reports the merge of all accepted "
                      "provider entries. The model follows the code after the F-C15a fix and is tied to it by the per-event differential run.",
        "level_note": "Trusted: Coq kernel, ExtrOcamlBasic extraction, harness and hooks; distances enter as ranks (injective); wall-clock timeout "
                      "behaviour only sampled. Not proved: that the reported peers are the k closest of ALL answered peers (top-k window), the "
                      "NoDup/address-union characterisation of merge_providers (checked by prop_ok at run time only), several concurrent queries "
                      "in one engine, next_peer_action. GetRecord double-counts a local record (can stop before the quorum; not a violation of the text).",
        "assumptions": ["the local peer is not among the seed candidates (routing table never stores the local key)",
                        "distinct peers have distinct distances to the target (dist_inj)",
                        "alpha >= 1 for progress; times of next_action calls are non-decreasing for the parallelism bound",
                        "HashMap/HashSet iteration order is not observable (dumps are sorted)"],
    },
    "C17": {
        "coq_dir": "C17",
        "harness": "c17",
        "cases": {"quick": 400, "thorough": 20000},
        "consts": ["DEFAULT_MAX_RECORDS", "DEFAULT_MAX_RECORD_SIZE_BYTES", "DEFAULT_MAX_PROVIDER_KEYS",
                   "DEFAULT_MAX_PROVIDER_ADDRESSES", "DEFAULT_MAX_PROVIDERS_PER_KEY"],
        "rule": "seeded random operation histories (10-120 ops quick, 20-500 thorough) over <=8 keys and <=10 providers with "
                "configurations drawn from {0,1,2,3,default}; after every operation the returned value and the full sorted store "
                "dump of the real MemoryStore are compared with the extracted Coq model; a case is non-trivial when its trace has "
                ">= 8 numbers; distinct = distinct (case, trace) pairs",
        "trusted_base": [
            "SHA-256 distance between provider and key enters the model as a rank supplied by the harness (computed with the real code); equal distance <=> equal peer is assumed",
            "std::time::Instant: expiries are placed >= 1000 s in the future or < 1 ms after harness start, so that wall-clock drift cannot flip a comparison",
        ],
        "level_text": "Proof: the store invariant (all five size bounds, key uniqueness, strictly distance-sorted duplicate-free provider "
                      "lists) is proved inductive over every operation history and configuration with max_providers_per_key >= 1; "
                      "freshness of reads, TTL monotonicity and the put_provider refinement (delete old entry, insert sorted, keep the closest) "
                      "are theorems about the model; the model is tied to store.rs by a per-operation differential run with full state dumps.",
        "level_note": "Trusted: Coq kernel, ExtrOcamlBasic extraction, the harness and hooks; SHA-256 distances enter as ranks; Instant-based "
                      "expiry is exercised only far from the comparison boundary; the refresh timer of local providers is not modelled.",
        "assumptions": ["max_providers_per_key >= 1 (as in the property text)", "HashMap iteration order is not observable (dumps are sorted)"],
    },
}
