"""Per-property configuration of ./check."""

COMMON_TRUSTED = [
    "Coq 8.16.1 kernel (coqc; coqchk in the thorough tier); vm_compute used in Examples and in the in-Coq sample evaluation; native_compute not used",
    "extraction: ExtrOcamlBasic only (Extract Inductive bool/option/unit/list/prod/sumbool/sumor, Extract Inlined Constant andb/orb/negb/fst/snd as shipped); ocaml/driver.ml (int<->N, line IO)",
    "translator tools/gen_consts.py (regex-level, constants only)",
    "correspondence harness /verif/harness (Rust) and the cfg(feature=\"verif\") hooks in /repo (re-exports and read accessors, add-only)",
    "the model is hand-written: the theorems are about coq/<id>/Model.v; the tie to the Rust code is the differential run reported in this file",
]

PROPS = {
    "C17": {
        "coq_dir": "C17",
        "harness": "c17",
        "cases": {"quick": 400, "thorough": 20000},
        "consts": ["DEFAULT_MAX_RECORDS", "DEFAULT_MAX_RECORD_SIZE_BYTES", "DEFAULT_MAX_PROVIDER_KEYS",
                   "DEFAULT_MAX_PROVIDER_ADDRESSES", "DEFAULT_MAX_PROVIDERS_PER_KEY"],
        "rule": "seeded random operation histories (10-120 ops quick, 20-500 thorough) over <=8 keys and <=10 providers with "
                "configurations drawn from {0,1,2,3,default}; after every operation the returned value and the full sorted store "
                "dump of the real MemoryStore are compared with the extracted Coq model; a case is non-trivial when its trace has "
                ">= 8 numbers; distinct = distinct (case, trace) pairs",
        "trusted_base": [
            "SHA-256 distance between provider and key enters the model as a rank supplied by the harness (computed with the real code); equal distance <=> equal peer is assumed",
            "std::time::Instant: expiries are placed >= 1000 s in the future or < 1 ms after harness start, so that wall-clock drift cannot flip a comparison",
        ],
        "level_text": "Proof: the store invariant (all five size bounds, key uniqueness, strictly distance-sorted duplicate-free provider "
                      "lists) is proved inductive over every operation history and configuration with max_providers_per_key >= 1; "
                      "freshness of reads, TTL monotonicity and the put_provider refinement (delete old entry, insert sorted, keep the closest) "
                      "are theorems about the model; the model is tied to store.rs by a per-operation differential run with full state dumps.",
        "level_note": "Trusted: Coq kernel, ExtrOcamlBasic extraction, the harness and hooks; SHA-256 distances enter as ranks; Instant-based "
                      "expiry is exercised only far from the comparison boundary; the refresh timer of local providers is not modelled.",
        "assumptions": ["max_providers_per_key >= 1 (as in the property text)", "HashMap iteration order is not observable (dumps are sorted)"],
    },
    "C08": {
        "coq_dir": "C08",
        "coq_deps": ["Ts"],
        "model_files": ["Glue"],
        "harness": "c08",
        "cases": {"quick": 1500, "thorough": 10000},
        "consts": [],
        "nontrivial_min_trace": 40,
        "rule": "online-generated histories against a real TransportService (cfg(verif) wrapper) with real ConnectionHandles whose command "
                "receivers the harness owns: 1-3 peers, <= 2 overlapping connections per peer (10 % of the cases allow a third, 8 % inject "
                "answers for unknown ids / closes of unknown connections: outside the environment assumption, diffed but not judged), "
                "open_substream calls, opened/failure answers on either connection, inbound substreams, other protocols' senders, substream "
                "drops, draws from the shared id counter; 8-60 ops (10-120 thorough); plus cases/25 real-time cases (T = 100/300/500 ms on a "
                "200 ms grid) with keep-alive downgrades. After every op: emitted TransportEvents, open_substream result, commands seen on "
                "each connection's channel, Active->Inactive flips, and a dump (per peer primary/secondary id and active flag, next substream "
                "id, tracked keys, number of armed sleeps, per channel whether a strong sender exists) are compared with the extracted model; "
                "non-trivial = trace of >= 40 numbers; distinct = distinct (case, trace) pairs",
        "trusted_base": [
            "environment assumption of the theorems: connection ids are fresh and at most two connections per peer are open at a time (C06's guarantee), closed/substream notifications refer to an open connection (per-connection FIFO of the connection task), answers refer to an open request",
            "atomic-handler abstraction: one input per poll_next; several queued events drained in one poll before the timers are looked at are modelled as consecutive polls at the same instant",
            "the harness plays the connection task and the protocol (holds permits of opens in flight, answers them, keeps/drops substreams); SubstreamOpened carries a real tcp::Substream over a dead yamux stream",
        ],
        "level_text": "Proof: for every feasible history (any peers, any interleaving of <= 2 overlapping connections per peer, opens, answers, polls) the "
                      "per-peer event stream of the model is (Established (SubstreamOpened|OpenFailure)* Closed)* — alternation and substream scope —, the "
                      "(primary, secondary) view equals the open connections in establishment order at every step, returned substream ids are strictly "
                      "increasing for every history, and an OpenSubstream command is produced only by an accepted open, carries its id and targets the oldest "
                      "open connection; a counterexample shows the two-per-peer assumption is needed. The model is tied to transport_service.rs / connection.rs "
                      "by a per-operation differential run with state dumps; the trace oracle additionally checks answered-at-most-once-with-the-same-id.",
        "level_note": "Trusted: Coq kernel, extraction, harness and hooks, the environment assumption (discharged by C06 for the connection count), the "
                      "atomic-handler abstraction. 'Each request answered at most once with the same id' and 'exactly once unless the connection terminates' "
                      "are obligations of the connection task: the service forwards every answer unchanged (checked by the oracle on every trace), they are "
                      "not theorems here. ChannelClogged (full command channel) and usize wrap of the id counter are not modelled.",
        "assumptions": ["at most two open connections per peer, fresh connection ids (C06)", "per-connection FIFO: no substream/closed notification for a connection before its established or after its closed notification",
                        "HashMap / FuturesUnordered iteration order is not observable (dumps and downgrade lists are sorted)"],
    },
    "C09": {
        "coq_dir": "C09",
        "coq_deps": ["Ts"],
        "model_files": ["Glue"],
        "harness": "c09",
        "cases": {"quick": 160, "thorough": 2400},
        "harness_timeout": 3000,
        "consts": [],
        "nontrivial_min_trace": 40,
        "rule": "`cases` real-time schedules (T = 100/300/500 ms, ops on a 200 ms grid so that every keep-alive deadline is 100 ms away from every "
                "poll; 6-14 ops: establish, open, answer, inbound substream, drop substream, other protocols' senders, close, idle polls; keep-alive "
                "and non-keep-alive protocol; a run whose steps drifted > 45 ms from the grid is repeated) plus 2*cases untimed reference-counting "
                "histories, all against a real TransportService; compared per op with the extracted model: events, Active->Inactive flips, handle "
                "active flags, tracked keys, number of armed sleeps, per channel whether a strong sender exists (= the connection task keeps running)",
        "trusted_base": [
            "tokio: sleep does not fire early, mpsc WeakSender::upgrade succeeds iff a strong sender exists, the connection task exits when the last strong sender is gone (tcp/connection.rs, not exercised here)",
            "real time: the tracker reads std::time::Instant; the behavioural tie holds on a 200 ms grid with 100 ms margins (runs with > 45 ms drift are repeated), not at the deadline itself",
            "atomic-handler abstraction: the service is polled to quiescence after every input; a sleep is armed when first polled",
        ],
        "level_text": "Proof (logical time, every timeout T, every history): the recorded last-activity time of a tracked connection equals the time of its "
                      "last keep-alive activity per an independent specification, an armed sleep due <= last + T always exists; a handle is downgraded only "
                      "when that activity is >= T old (not before); a poll at or after last + T untracks the key and leaves the handle Inactive (closes); "
                      "substreams of a non-keep-alive protocol move no time and re-activate nothing; a permit in flight or a live keep-alive substream keeps "
                      "the channel's strong count positive, and with none of them and no other protocol it is zero. Tied to the code by a real-time "
                      "differential run.",
        "level_note": "Partial for real time: timer accuracy, executor latency and tokio channel semantics are assumptions; the end-to-end close of the TCP "
                      "connection task (handle_protocol_command(None)) is not exercised; 'at most one armed sleep per tracked connection' is checked on "
                      "traces only as tracked <= armed (not a theorem).",
        "assumptions": ["armed sleeps are polled (the protocol's event loop polls the service when woken)", "time is monotone"],
    },
}
