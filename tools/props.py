"""Per-property configuration of ./check."""

COMMON_TRUSTED = [
    "Coq 8.16.1 kernel (coqc; coqchk in the thorough tier); vm_compute used in Examples and in the in-Coq sample evaluation; native_compute not used",
    "extraction: ExtrOcamlBasic only (Extract Inductive bool/option/unit/list/prod/sumbool/sumor, Extract Inlined Constant andb/orb/negb/fst/snd as shipped); ocaml/driver.ml (int<->N, line IO)",
    "translator tools/gen_consts.py (regex-level, constants only)",
    "correspondence harness /verif/harness (Rust) and the cfg(feature=\"verif\") hooks in /repo (re-exports and read accessors, add-only)",
    "the model is hand-written: the theorems are about coq/<id>/Model.v; the tie to the Rust code is the differential run reported in this file",
]

import glob
import importlib.util
import os

# One file per property under tools/props.d/ (Cxx.py defining ENTRY) so that properties can be
# added independently. Entries may also be written inline below.
PROPS = {
}


def _load():
    d = os.path.join(os.path.dirname(os.path.abspath(__file__)), "props.d")
    for f in sorted(glob.glob(os.path.join(d, "C*.py"))):
        spec = importlib.util.spec_from_file_location("props_" + os.path.basename(f)[:-3], f)
        mod = importlib.util.module_from_spec(spec)
        spec.loader.exec_module(mod)
        PROPS.setdefault(os.path.basename(f)[:-3], mod.ENTRY)


_load()
