"""Per-property configuration of ./check."""

COMMON_TRUSTED = [
    "Coq 8.16.1 kernel (coqc; coqchk in the thorough tier); vm_compute used in Examples and in the in-Coq sample evaluation; native_compute not used",
    "extraction: ExtrOcamlBasic only (Extract Inductive bool/option/unit/list/prod/sumbool/sumor, Extract Inlined Constant andb/orb/negb/fst/snd as shipped); ocaml/driver.ml (int<->N, line IO)",
    "translator tools/gen_consts.py (regex-level, constants only)",
    "correspondence harness /verif/harness (Rust) and the cfg(feature=\"verif\") hooks in /repo (re-exports and read accessors, add-only)",
    "the model is hand-written: the theorems are about coq/<id>/Model.v; the tie to the Rust code is the differential run reported in this file",
]

PROPS = {
    "C17": {
        "coq_dir": "C17",
        "harness": "c17",
        "cases": {"quick": 400, "thorough": 20000},
        "consts": ["DEFAULT_MAX_RECORDS", "DEFAULT_MAX_RECORD_SIZE_BYTES", "DEFAULT_MAX_PROVIDER_KEYS",
                   "DEFAULT_MAX_PROVIDER_ADDRESSES", "DEFAULT_MAX_PROVIDERS_PER_KEY"],
        "rule": "seeded random operation histories (10-120 ops quick, 20-500 thorough) over <=8 keys and <=10 providers with "
                "configurations drawn from {0,1,2,3,default}; after every operation the returned value and the full sorted store "
                "dump of the real MemoryStore are compared with the extracted Coq model; a case is non-trivial when its trace has "
                ">= 8 numbers; distinct = distinct (case, trace) pairs",
        "trusted_base": [
            "SHA-256 distance between provider and key enters the model as a rank supplied by the harness (computed with the real code); equal distance <=> equal peer is assumed",
            "std::time::Instant: expiries are placed >= 1000 s in the future or < 1 ms after harness start, so that wall-clock drift cannot flip a comparison",
        ],
        "level_text": "Proof: the store invariant (all five size bounds, key uniqueness, strictly distance-sorted duplicate-free provider "
                      "lists) is proved inductive over every operation history and configuration with max_providers_per_key >= 1; "
                      "freshness of reads, TTL monotonicity and the put_provider refinement (delete old entry, insert sorted, keep the closest) "
                      "are theorems about the model; the model is tied to store.rs by a per-operation differential run with full state dumps.",
        "level_note": "Trusted: Coq kernel, ExtrOcamlBasic extraction, the harness and hooks; SHA-256 distances enter as ranks; Instant-based "
                      "expiry is exercised only far from the comparison boundary; the refresh timer of local providers is not modelled.",
        "assumptions": ["max_providers_per_key >= 1 (as in the property text)", "HashMap iteration order is not observable (dumps are sorted)"],
    },
}


import glob as _glob
import importlib.util as _ilu
import os as _os


def _load():
    d = _os.path.join(_os.path.dirname(_os.path.abspath(__file__)), "props.d")
    for f in sorted(_glob.glob(_os.path.join(d, "C*.py"))):
        spec = _ilu.spec_from_file_location("props_" + _os.path.basename(f)[:-3], f)
        mod = _ilu.module_from_spec(spec)
        spec.loader.exec_module(mod)
        PROPS.setdefault(_os.path.basename(f)[:-3], mod.ENTRY)


_load()
