#!/usr/bin/env python3
"""usage: mgr_prefix.py driver cases traces index — finds the first step at which the oracle turns false"""
import sys, subprocess, tempfile, os
drv, cf, tf, k = sys.argv[1], sys.argv[2], sys.argv[3], int(sys.argv[4])
c=list(map(int,open(cf).read().splitlines()[k].split())); t=list(map(int,open(tf).read().splitlines()[k].split()))
sizes={1:4,2:3,3:4,4:4,5:4,6:6,7:3,8:3,9:3,10:1}
evb=[4]; i=4
for _ in range(c[3]):
    if c[i] in (0,12):
        j=i+2; j+=1+c[j]; j+=1+c[j]; i=j
    elif c[i] in (11,13): i+=2+2*c[i+1]
    else: i+=sizes[c[i]]
    evb.append(i)
tb=[1]; i=1
def lst(w):
    global i
    n=t[i]; i+=1+n*w
while i<len(t):
    lst(3); lst(1); lst(3); i+=2; lst(4); lst(3); lst(2); lst(1); lst(1); lst(2); tb.append(i)
for n in range(1,len(tb)):
    cc=c[:3]+[n]+c[4:evb[n]]; tt=t[:tb[n]]
    with tempfile.TemporaryDirectory() as d:
        open(d+'/c','w').write(' '.join(map(str,cc))+'\n'); open(d+'/t','w').write(' '.join(map(str,tt))+'\n')
        r=subprocess.run([drv,'ok',d+'/c',d+'/t'],capture_output=True,text=True).stdout.strip()
    if r!='1':
        print('first failing step:',n-1,'verdict',r); break
else: print('all prefixes ok')
