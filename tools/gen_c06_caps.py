#!/usr/bin/env python3
"""Source tables for C06 -> coq/gen/CapsTables.v (called from gen_consts.py on every check).

Everything here is READ from the Rust source, so that a new method, a new call site, a changed
order or a changed `reject` body breaks an in-sync lemma of coq/C06/Tables.v instead of going
unnoticed:

* limits_api / limits_cfg_api: the public methods of `impl ConnectionLimits` (without `new`) and of
  `impl ConnectionLimitsConfig` (src/transport/manager/limits.rs), as codes.
* limits_call_sites: every `connection_limits.<method>(` in the non-test part of
  src/transport/manager/mod.rs as (enclosing function, method).
* est_order_ok: in `on_connection_established` the limit check comes before the per-peer decision
  (`state.on_connection_established`), and the only `accept_established_connection` sits inside
  `if connection_accepted { .. }` after it.
* next_arms: the transport call of each arm of `match self.on_connection_established(..)` in
  `next()`; rollback_sites: the number of `self.on_connection_closed(peer, endpoint.connection_id())`
  rollbacks in `next()`; pending_arms_ok: PendingInboundConnection is answered by accept_pending when
  `on_pending_incoming_connection()` is Ok and by reject_pending otherwise.
* peer_api / peer_variants / sec_variants: methods of `impl PeerState`, variants of `PeerState` and of
  `SecondaryOrDialing` (src/transport/manager/peer_state.rs).
* transport_shapes: for tcp / websocket / quic the shape of `reject`, `reject_pending`,
  `accept_pending`, `accept` (1 = the shape the model assumes: the entry is removed from
  pending_open / pending_inbound_connections — dropping the socket it owns —, Ok iff it existed,
  nothing else; `accept` reports to the protocols before the connection task is spawned).
"""
import os
import re

HERE = os.path.dirname(os.path.abspath(__file__))
OUT = os.path.join(HERE, "..", "coq", "gen", "CapsTables.v")

LIMITS = "src/transport/manager/limits.rs"
MGR = "src/transport/manager/mod.rs"
PEER = "src/transport/manager/peer_state.rs"
TRANSPORTS = [(0, "src/transport/tcp/mod.rs"), (1, "src/transport/websocket/mod.rs"), (2, "src/transport/quic/mod.rs")]

LIMIT_METHODS = {"on_dial_address": 0, "on_incoming": 1, "can_accept_connection": 2,
                 "accept_established_connection": 3, "on_connection_closed": 4}
CFG_METHODS = {"max_incoming_connections": 0, "max_outgoing_connections": 1}
MGR_FNS = {"dial": 0, "dial_address": 1, "on_pending_incoming_connection": 2, "on_connection_closed": 3,
           "on_connection_established": 4}
PEER_METHODS = {"can_dial": 0, "dial_single_address": 1, "dial_addresses": 2, "on_dial_failure": 3,
                "on_connection_established": 4, "on_connection_closed": 5, "on_open_failure": 6,
                "on_connection_opened": 7}
PEER_VARIANTS = {"Connected": 0, "Opening": 1, "Dialing": 2, "Disconnected": 3}
SEC_VARIANTS = {"Secondary": 0, "Dialing": 1}
UNKNOWN = 99


def strip_comments(src):
    src = re.sub(r"//[^\n]*", "", src)
    return re.sub(r"/\*.*?\*/", "", src, flags=re.S)


def block_at(src, i):
    """src[i] == '{' -> the text up to the matching '}' (inclusive)."""
    depth, j = 0, i
    while j < len(src):
        if src[j] == "{":
            depth += 1
        elif src[j] == "}":
            depth -= 1
            if depth == 0:
                return src[i:j + 1]
        j += 1
    return None


def body_of(src, header_rx, start=0):
    m = re.compile(header_rx).search(src, start)
    if not m:
        return None
    i = src.find("{", m.end() - 1)
    return block_at(src, i) if i >= 0 else None


def non_test(src):
    """the file without `#[cfg(test)] mod tests {..}` and without cfg(feature = "verif") items"""
    src = strip_comments(src)
    out, i = [], 0
    rx = re.compile(r'#\[cfg\((test|feature\s*=\s*"verif")\)\]\s*')
    while True:
        m = rx.search(src, i)
        if not m:
            out.append(src[i:])
            break
        out.append(src[i:m.start()])
        # the item that follows: up to its block's end, or to the next ';' when it has no block first
        j = m.end()
        eol = src.find("\n", j)
        if eol >= 0 and src[j:eol].rstrip().endswith(","):
            # a cfg'd struct field / field initialiser: one line
            i = eol + 1
            continue
        semi = src.find(";", j)
        brace = src.find("{", j)
        if brace >= 0 and (semi < 0 or brace < semi):
            b = block_at(src, brace)
            i = brace + len(b)
        else:
            i = semi + 1
    return "".join(out)


def strip_macros(body, names=("tracing::trace", "tracing::debug", "tracing::error", "tracing::warn", "tracing::info")):
    for name in names:
        while True:
            k = body.find(name + "!(")
            if k < 0:
                break
            depth, j = 0, k + len(name) + 1
            while j < len(body):
                if body[j] == "(":
                    depth += 1
                elif body[j] == ")":
                    depth -= 1
                    if depth == 0:
                        break
                j += 1
            j += 1
            while j < len(body) and body[j] in " \n\t":
                j += 1
            if j < len(body) and body[j] == ";":
                j += 1
            body = body[:k] + body[j:]
    return body


def squash(s):
    return re.sub(r"\s+", "", s)


def pub_fns(impl_body):
    return re.findall(r"\bpub\s+(?:async\s+)?fn\s+(\w+)", impl_body)


def fn_spans(src):
    """(name, start, end) of every `fn name(..) {..}` at any depth"""
    spans = []
    for m in re.finditer(r"\bfn\s+(\w+)\s*(?:<[^>]*>)?\s*\(", src):
        i = src.find("{", m.end())
        semi = src.find(";", m.end())
        if i < 0 or (0 <= semi < i):
            continue
        b = block_at(src, i)
        if b:
            spans.append((m.group(1), m.start(), i + len(b)))
    return spans


def transport_shape(method, body):
    b = squash(strip_macros(body))
    ERR = "Error::ConnectionDoesntExist(connection_id)"
    if method == "reject":
        return 1 if b == "{self.pending_open.remove(&connection_id).map_or(Err(%s),|_|Ok(()))}" % ERR else 0
    if method == "reject_pending":
        ok = (b == "{self.pending_inbound_connections.remove(&connection_id).map_or(Err(%s),|_|Ok(()))}" % ERR or
              b == "{self.pending_inbound_connections.remove(&connection_id).map_or_else(||{Err(%s)},|_|Ok(()),)}" % ERR or
              b == "{self.pending_inbound_connections.remove(&connection_id).map_or_else(||{Err(%s)},|_|Ok(()))}" % ERR)
        return 1 if ok else 0
    if method == "accept_pending":
        ok = re.fullmatch(
            r"\{let\w+=self\.pending_inbound_connections\.remove\(&connection_id\)"
            r"\.(?:ok_or\(%s\)|ok_or_else\(\|\|\{%s\}\))\?;"
            r"self\.on_inbound_connection\(connection_id,[\w.,]+\);Ok\(\(\)\)\}" % (re.escape(ERR), re.escape(ERR)), b)
        return 1 if ok else 0
    if method == "accept":
        head = re.match(r"\{let(?:\w+|\(\w+,\w+\))=self\.pending_open\.remove\(&connection_id\)\.ok_or\(%s\)\?;" % re.escape(ERR), b)
        k = b.find("Ok(Box::pin(asyncmove{")
        if not head or k < 0:
            return 0
        fut = b[k:]
        r = fut.find("protocol_set.report_connection_established(")
        rq = fut.find(".await?;", r)
        e = fut.find("executor.run(")
        # nothing that could report or spawn before the future is created; inside it the protocols
        # are told first, and a failure of that (`?`) leaves the future before the task is spawned
        ok = 0 <= r < rq < e and "executor.run(" not in b[:k] and "report_connection_established" not in b[:k] \
            and fut.count("executor.run(") == 1 and re.search(r"\}\)\);Ok\(\(\)\)\}\)\)\}$", fut) is not None
        return 1 if ok else 0
    return 0


def generate(repo):
    miss = []

    def read(path):
        try:
            return open(os.path.join(repo, path)).read()
        except OSError:
            miss.append(("C06_LIMITS_CALL_SITES", path, "file not found"))
            return None

    vals = {}
    # ---- limits.rs
    src = read(LIMITS)
    limits_api, cfg_api = [], []
    if src is not None:
        s = non_test(src)
        b = body_of(s, r"impl\s+ConnectionLimits\s*\{")
        c = body_of(s, r"impl\s+ConnectionLimitsConfig\s*\{")
        if b is None or c is None:
            miss.append(("C06_LIMITS_CALL_SITES", LIMITS, "impl block not found"))
        else:
            limits_api = [LIMIT_METHODS.get(n, UNKNOWN) for n in pub_fns(b) if n != "new"]
            cfg_api = [CFG_METHODS.get(n, UNKNOWN) for n in pub_fns(c)]
    # ---- manager/mod.rs
    src = read(MGR)
    sites, arms = [], []
    est_order_ok = pending_ok = False
    rollbacks = 0
    if src is not None:
        s = non_test(src)
        spans = fn_spans(s)

        def enclosing(pos):
            best = None
            for name, a, b_ in spans:
                if a <= pos < b_ and (best is None or a > best[1]):
                    best = (name, a)
            return best[0] if best else "?"
        for m in re.finditer(r"connection_limits\s*\.\s*(\w+)\s*\(", s):
            sites.append((MGR_FNS.get(enclosing(m.start()), UNKNOWN), LIMIT_METHODS.get(m.group(1), UNKNOWN)))
        est = body_of(s, r"fn\s+on_connection_established\s*\(")
        if est is None:
            miss.append(("C06_LIMITS_CALL_SITES", MGR, "on_connection_established not found"))
        else:
            e = squash(est)
            a = e.find("connection_limits.can_accept_connection(")
            b_ = e.find(".state.on_connection_established(")
            c = e.find("ifconnection_accepted{")
            blk = block_at(e, e.find("{", c)) if c >= 0 else None
            est_order_ok = bool(0 <= a < b_ < c and blk is not None
                                and e.count("accept_established_connection(") == 1
                                and "connection_limits.accept_established_connection(" in blk
                                and e.count("can_accept_connection(") == 1)
        nxt = body_of(s, r"pub\s+async\s+fn\s+next\s*\(")
        if nxt is None:
            miss.append(("C06_LIMITS_CALL_SITES", MGR, "next() not found"))
        else:
            m = re.search(r"match\s+self\s*\.\s*on_connection_established\s*\(\s*peer\s*,\s*&endpoint\s*\)\s*\{", nxt)
            if not m:
                miss.append(("C06_LIMITS_CALL_SITES", MGR, "match on on_connection_established not found"))
            else:
                mb = block_at(nxt, m.end() - 1)
                for code, rx in ((0, r"Err\s*\(\s*\w+\s*\)\s*=>\s*\{"),
                                 (1, r"Ok\s*\(\s*ConnectionEstablishedResult::Accept\s*\)\s*=>\s*\{"),
                                 (2, r"Ok\s*\(\s*ConnectionEstablishedResult::Reject\s*\)\s*=>\s*\{")):
                    am = re.search(rx, mb)
                    if not am:
                        arms.append((code, UNKNOWN))
                        continue
                    ab = squash(strip_macros(block_at(mb, am.end() - 1)))
                    calls = re.findall(r"\.expect\(\"transporttoexist\"\)\.(\w+)\(endpoint\.connection_id\(\)\)", ab)
                    arms.append((code, {"reject": 0, "accept": 1}.get(calls[0], UNKNOWN) if len(calls) == 1 else UNKNOWN))
            rollbacks = len(re.findall(r"self\s*\.\s*on_connection_closed\s*\(\s*peer\s*,\s*endpoint\s*\.\s*connection_id\s*\(\s*\)\s*\)", nxt))
            pm = re.search(r"TransportEvent::PendingInboundConnection\s*\{\s*connection_id\s*\}\s*=>\s*\{", nxt)
            if pm:
                pb = squash(strip_macros(block_at(nxt, pm.end() - 1)))
                pending_ok = bool(re.fullmatch(
                    r"\{ifself\.on_pending_incoming_connection\(\)\.is_ok\(\)\{let_=self\.transports\.get_mut\(&transport\)"
                    r"\.expect\(\"transporttoexist\"\)\.accept_pending\(connection_id\);\}else\{let_=self\.transports"
                    r"\.get_mut\(&transport\)\.expect\(\"transporttoexist\"\)\.reject_pending\(connection_id\);\}\}", pb))
    # ---- peer_state.rs
    src = read(PEER)
    peer_api, peer_variants, sec_variants = [], [], []
    if src is not None:
        s = non_test(src)
        b = body_of(s, r"impl\s+PeerState\s*\{")
        e = body_of(s, r"pub\s+enum\s+PeerState\s*\{")
        e2 = body_of(s, r"pub\s+enum\s+SecondaryOrDialing\s*\{")
        if b is None or e is None or e2 is None:
            miss.append(("C06_LIMITS_CALL_SITES", PEER, "PeerState items not found"))
        else:
            peer_api = [PEER_METHODS.get(n, UNKNOWN) for n in pub_fns(b)]

            def variants(body):
                inner = body[1:-1]
                out, depth, cur = [], 0, ""
                for ch in inner:
                    if ch in "{(":
                        depth += 1
                    elif ch in "})":
                        depth -= 1
                    elif depth == 0:
                        cur += ch
                for part in cur.split(","):
                    w = re.findall(r"[A-Z]\w*", re.sub(r"#\[[^\]]*\]", "", part))
                    if w:
                        out.append(w[-1])
                return out
            peer_variants = [PEER_VARIANTS.get(n, UNKNOWN) for n in variants(e)]
            sec_variants = [SEC_VARIANTS.get(n, UNKNOWN) for n in variants(e2)]
    # ---- transports
    shapes = []
    for code, path in TRANSPORTS:
        src = read(path)
        if src is None:
            continue
        s = non_test(src)
        for k, method in enumerate(("reject", "reject_pending", "accept_pending", "accept")):
            b = body_of(s, r"fn\s+%s\s*\(\s*&mut\s+self\s*,\s*connection_id\s*:\s*ConnectionId\s*,?\s*\)" % method)
            shapes.append((code, k, transport_shape(method, b) if b else 0))

    def lst(l):
        return "[" + "; ".join(str(x) for x in l) + "]"

    def plst(l):
        return "[" + "; ".join("(" + ", ".join(str(y) for y in x) + ")" for x in l) + "]"
    if not miss:
        text = "\n".join([
            "(* GENERATED by tools/gen_c06_caps.py from the Rust source on every check. Do not edit. *)",
            "From Coq Require Import List NArith Bool.",
            "Import ListNotations.",
            "Open Scope N_scope.",
            "",
            "(* public methods of impl ConnectionLimits (without new): 0 on_dial_address, 1 on_incoming,",
            "   2 can_accept_connection, 3 accept_established_connection, 4 on_connection_closed; 99 = other *)",
            "Definition limits_api : list N := %s." % lst(limits_api),
            "(* builder methods of ConnectionLimitsConfig: 0 max_incoming_connections, 1 max_outgoing_connections *)",
            "Definition limits_cfg_api : list N := %s." % lst(cfg_api),
            "(* every `connection_limits.<method>(` of manager/mod.rs: (enclosing fn: 0 dial, 1 dial_address,",
            "   2 on_pending_incoming_connection, 3 on_connection_closed, 4 on_connection_established; method) *)",
            "Definition limits_call_sites : list (N * N) := %s." % plst(sites),
            "(* on_connection_established: limit check < per-peer decision < `if connection_accepted {` containing",
            "   the only accept_established_connection *)",
            "Definition est_order_ok : bool := %s." % ("true" if est_order_ok else "false"),
            "(* next(): (arm of match on_connection_established: 0 Err, 1 Accept, 2 Reject; transport call: 0 reject, 1 accept) *)",
            "Definition next_arms : list (N * N) := %s." % plst(arms),
            "(* rollbacks `self.on_connection_closed(peer, endpoint.connection_id())` in next() *)",
            "Definition rollback_sites : N := %d." % rollbacks,
            "Definition pending_arms_ok : bool := %s." % ("true" if pending_ok else "false"),
            "(* methods of impl PeerState: 0 can_dial, 1 dial_single_address, 2 dial_addresses, 3 on_dial_failure,",
            "   4 on_connection_established, 5 on_connection_closed, 6 on_open_failure, 7 on_connection_opened *)",
            "Definition peer_api : list N := %s." % lst(peer_api),
            "(* variants of PeerState: 0 Connected, 1 Opening, 2 Dialing, 3 Disconnected; of SecondaryOrDialing: 0 Secondary, 1 Dialing *)",
            "Definition peer_variants : list N := %s." % lst(peer_variants),
            "Definition sec_variants : list N := %s." % lst(sec_variants),
            "(* (transport: 0 tcp, 1 websocket, 2 quic; method: 0 reject, 1 reject_pending, 2 accept_pending, 3 accept; 1 = the modelled shape) *)",
            "Definition transport_shapes : list (N * N * N) := %s." % plst(shapes),
            ""])
        old = open(OUT).read() if os.path.exists(OUT) else None
        if old != text:
            open(OUT, "w").write(text)
    vals["C06_LIMITS_CALL_SITES"] = len(sites)
    vals["C06_TRANSPORT_SHAPES_OK"] = sum(1 for x in shapes if x[2] == 1)
    return vals, miss


if __name__ == "__main__":
    print(generate(os.environ.get("VERIF_REPO", "/repo")))
    print(open(OUT).read())
