#!/usr/bin/env python3
"""usage: firstdiff.py cases impl model [max] — show the first differing position of differing lines"""
import sys
cases=open(sys.argv[1]).read().splitlines(); a=open(sys.argv[2]).read().splitlines(); b=open(sys.argv[3]).read().splitlines()
mx=int(sys.argv[4]) if len(sys.argv)>4 else 3
n=0
for i,(x,y) in enumerate(zip(a,b)):
    if x!=y:
        n+=1
        if n<=mx:
            xs=x.split(); ys=y.split()
            j=next((j for j in range(min(len(xs),len(ys))) if xs[j]!=ys[j]), min(len(xs),len(ys)))
            print('line',i,'first diff at',j,'\n impl :',' '.join(xs[max(0,j-30):j+12]),'\n model:',' '.join(ys[max(0,j-30):j+12])); print(' case :',cases[i][:400])
print('differing lines:',n,'of',len(a))
