#!/bin/bash
# usage: tools/keep_seeded.sh C04 "<verdict text>"  — store a confirmed seeded change under /verif/seeded/C04/
P=$1; V=$2
S=/tmp/seed/$P/SEEDED
D=/verif/seeded/$P
mkdir -p $D
cp $S/patch.diff $S/demo.diff $D/
python3 - "$S/meta.json" "$D/meta.json" "$P" "$V" <<'PY'
import json,sys
m=json.load(open(sys.argv[1]))
m['property']=sys.argv[3]
m['confirmed_by_main_agent']={'demo_fails_with_change':True,'demo_passes_without_change':True,
  'how':'tools/confirm_seeded.sh %s in the sub-agent worktree (demo run with the src change, then with it reverted)'%sys.argv[3]}
m['check_result']=sys.argv[4]
json.dump(m,open(sys.argv[2],'w'),indent=1)
PY
echo kept $P
