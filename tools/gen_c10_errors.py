#!/usr/bin/env python3
"""Translator for C10: the `DialError` type and `AddressStore::error_score`.

From src/error.rs: the variants of `DialError` and, where a variant's payload is an enum that is
itself defined in src/error.rs, the variants of that enum (two levels below `DialError`), with the
`#[cfg(feature = ..)]` gate of each variant. From src/transport/manager/address.rs: the constants of
`mod scores` and the arms of the `match` in `AddressStore::error_score`, each arm as a *path prefix*
of variant indices (`DialError::AddressError(_)` -> [1]; `DialError::DnsError(DnsError::ResolveError(_))`
-> [2; 0]; `_` -> []) with the value of the score expression. From src/transport/manager/*.rs: every place
that writes into a peer's address store (`store_sites`).

Written to coq/gen/DialErrors.v (and the names also to harness/src/gen_c10_errors.rs) on every check. The model's `error_score` *interprets* the arm table
(first matching prefix, as Rust's `match`), and coq/C10 proves `variants_in_sync` (the model's
constructor names, in order, are exactly the extracted variant names) — so a new/renamed/reordered
variant or a changed mapping changes the model or breaks a proof obligation of ./check C10.

An arm this translator cannot read (guards, bindings, nested alternatives, block bodies) is reported
as missing; the table then contains the readable arms only (an uncovered error scores 0 in the model,
which the theorems reject). Called from gen_consts.py; can be run by hand (prints the file)."""
import os
import re
import sys

HERE = os.path.dirname(os.path.abspath(__file__))
OUT = os.path.join(HERE, "..", "coq", "gen", "DialErrors.v")
OUT_RS = os.path.join(HERE, "..", "harness", "src", "gen_c10_errors.rs")
ERR = "src/error.rs"
ADDR = "src/transport/manager/address.rs"

sys.path.insert(0, HERE)
from gen_c18_sites import blank, match_brace, strip_tests, enclosing_fn  # noqa: E402

I32_MIN, I32_MAX = -(1 << 31), (1 << 31) - 1


def split_top(s, sep):
    """Split s at separators `sep` (one char) that are outside (), [], {} and <>-free contexts."""
    out, d, cur = [], 0, []
    i = 0
    while i < len(s):
        ch = s[i]
        if ch in "([{":
            d += 1
        elif ch in ")]}":
            d -= 1
        if ch == sep and d == 0 and not (sep == "|" and s[i:i + 2] == "||"):
            out.append("".join(cur))
            cur = []
        else:
            cur.append(ch)
        i += 1
    out.append("".join(cur))
    return out


def enum_variants(src, clean, name):
    """[(variant name, payload type's last path segment or None, gate)] of `pub enum name`."""
    m = re.search(r"\bpub\s+enum\s+" + name + r"\s*\{", clean)
    if not m:
        return None
    start = m.end() - 1
    end = match_brace(clean, start)
    body_clean = clean[start + 1:end - 1]
    body_src = src[start + 1:end - 1]
    res = []
    pos = 0
    for piece in split_top(body_clean, ","):
        raw = body_src[pos:pos + len(piece)]
        pos += len(piece) + 1
        text = piece
        gate = 0
        # attributes: `#[...]` (the strings inside were blanked in `piece`; read the gate from `raw`)
        while True:
            t = text.lstrip()
            if not t.startswith("#"):
                break
            off = len(text) - len(t)
            j = text.index("[", off)
            d, k = 0, j
            while k < len(text):
                if text[k] == "[":
                    d += 1
                elif text[k] == "]":
                    d -= 1
                    if d == 0:
                        break
                k += 1
            attr = raw[off:k + 1]
            g = re.search(r'cfg\s*\(\s*feature\s*=\s*"([^"]+)"\s*\)', attr)
            if g:
                gate = {"quic": 1, "websocket": 2}.get(g.group(1), 9)
            elif re.search(r"\bcfg\b", attr):
                gate = 9
            text = text[:off] + " " * (k + 1 - off) + text[k + 1:]
        t = text.strip()
        if not t:
            continue
        vm = re.match(r"(\w+)\s*(\(|\{)?", t)
        if not vm:
            return None
        payload = None
        if vm.group(2) == "(":
            inner = t[vm.end():t.rindex(")")]
            first = split_top(inner, ",")[0]
            first = re.sub(r"#\[[^\]]*\]", "", first).strip()
            # only a bare name or a path into this module refers to an enum of src/error.rs
            pm = re.fullmatch(r"(?:(?:crate\s*::\s*error|self|error)\s*::\s*)?(\w+)", first)
            payload = pm.group(1) if pm else None
        res.append((vm.group(1), payload, gate))
    return res


def eval_score(expr, consts):
    e = expr.strip()
    e = re.sub(r"(?<=\d)_(?=\d)", "", e)
    e = re.sub(r"^(?:\w+\s*::\s*)*scores\s*::\s*", "", e)
    if e in consts:
        return consts[e]
    m = re.fullmatch(r"(-?)\s*(\d+)(?:i32)?", e)
    if m:
        v = int(m.group(2))
        return -v if m.group(1) else v
    if re.fullmatch(r"i32\s*::\s*MIN", e):
        return I32_MIN
    if re.fullmatch(r"i32\s*::\s*MAX", e):
        return I32_MAX
    return None


def pattern_path(pat, tables):
    """`DialError::V(Inner::W(_))` -> [i, j]; `_` -> []; None if not understood."""
    enum = "DialError"
    path = []
    p = pat.strip()
    while True:
        if p in ("_", "..", ""):
            return path
        m = re.fullmatch(r"&?\s*(?:\w+\s*::\s*)*(\w+)\s*(?:\((.*)\)|\{\s*\.\.\s*\})?", p, re.S)
        if not m or enum is None or enum not in tables:
            return None
        names = [v[0] for v in tables[enum]]
        if m.group(1) not in names:
            return None
        i = names.index(m.group(1))
        path.append(i)
        payload = tables[enum][i][1]
        enum = payload if payload in tables else None
        if m.group(2) is None:
            return path
        p = m.group(2).strip()
        if "," in p or "|" in p or "@" in p:
            return None


MGR = "src/transport/manager"


def strip_verif(src, clean):
    """Blank the items / statements under `#[cfg(feature = "verif")]` (hooks are not part of the crate)."""
    out = list(clean)
    for m in re.finditer(r'#\[cfg\(\s*feature\s*=\s*"verif"\s*\)\]', src):
        # the gated thing is an item, a statement, a struct field, a field of a struct literal or a match arm:
        # it ends at the first `;` or `,` outside parentheses, at the end of its `{...}` block, or where the
        # enclosing bracket closes
        j = m.end()
        depth = 0
        end = None
        while j < len(clean):
            c = clean[j]
            if c in "([":
                depth += 1
            elif c in ")]":
                depth -= 1
                if depth < 0:
                    end = j
                    break
            elif c == "}" and depth == 0:
                end = j
                break
            elif c == "{" and depth == 0:
                end = match_brace(clean, j)
                break
            elif c in ";," and depth == 0:
                end = j + 1
                break
            j += 1
        if end is None:
            end = len(clean)
        for k in range(m.start(), min(end, len(clean))):
            if out[k] != "\n":
                out[k] = " "
    return "".join(out)


def store_sites(repo):
    """Every non-test, non-hook place of src/transport/manager/*.rs (address.rs itself excluded) that
    writes into a peer's address store or replaces/removes a peer's context:
    (file, enclosing function, what)."""
    sites = []
    d = os.path.join(repo, MGR)
    for f in sorted(os.listdir(d)):
        if not f.endswith(".rs") or f.startswith("verif") or f == "address.rs":
            continue
        src = open(os.path.join(d, f)).read()
        clean = strip_tests(strip_verif(src, blank(src)))
        for what, rx in (("insert", r"\.\s*addresses\s*\.\s*insert\s*\("),
                         ("extend", r"\.\s*addresses\s*\.\s*extend\s*\("),
                         ("assign", r"\.\s*addresses\s*=[^=]"),
                         ("peers.insert", r"\bpeers\s*\.\s*insert\s*\("),
                         ("peers.remove", r"\bpeers\s*\.\s*remove\s*\(")):
            for m in re.finditer(rx, clean):
                sites.append((m.start(), f, enclosing_fn(clean, m.start()) or "?", what))
    sites.sort(key=lambda t: (t[1], t[0]))
    return [(f, fn, what) for _, f, fn, what in sites]


def entry_sites(repo):
    """Every non-test, non-hook call of `add_known_address` / `dial_address` in src/**/*.rs (method or
    path calls; definitions are not sites): (file relative to src/, enclosing function, callee) in the
    order of the source. These are all the ways an address can be offered to the address book."""
    sites = []
    root = os.path.join(repo, "src")
    paths = []
    for d, _, fs in os.walk(root):
        for f in fs:
            if f.endswith(".rs"):
                paths.append(os.path.relpath(os.path.join(d, f), root))
    for rel in sorted(paths):
        parts = rel.split(os.sep)
        base = parts[-1]
        if "tests" in parts or base in ("tests.rs", "mock.rs") or "s2n-quic" in parts:
            continue
        if base == "verif.rs" or base.startswith("verif_"):
            continue
        src = open(os.path.join(root, rel)).read()
        clean = strip_tests(strip_verif(src, blank(src)))
        for m in re.finditer(r"(?:\.|::)\s*(add_known_address|dial_address)\s*\(", clean):
            sites.append((rel.replace(os.sep, "/"), enclosing_fn(clean, m.start()) or "?", m.group(1)))
    return sites


def new_call_order(repo):
    """The calls of `register_listen_address` and `add_known_address` inside `Litep2p::new`
    (src/lib.rs), in source order: the configured known addresses must be filtered against the listen
    addresses the transports have registered."""
    src = open(os.path.join(repo, "src", "lib.rs")).read()
    clean = strip_tests(strip_verif(src, blank(src)))
    m = re.search(r"\bpub\s+fn\s+new\s*\(", clean)
    if not m:
        return []
    j = clean.index("{", m.end())
    body = clean[j:match_brace(clean, j)]
    return [x.group(1) for x in re.finditer(r"\.\s*(register_listen_address|add_known_address)\s*\(", body)]


def generate(repo):
    missing = []
    try:
        src = open(os.path.join(repo, ERR)).read()
        asrc = open(os.path.join(repo, ADDR)).read()
    except OSError as e:
        write([], [], [], [], [])
        return {}, [("C10_DIAL_ERROR_LEAVES", ERR, str(e))]
    clean = blank(src)
    tables = {}
    for name in ("DialError", "AddressError", "DnsError", "NegotiationError", "ParseError", "QuicError"):
        v = enum_variants(src, clean, name)
        if v is not None:
            tables[name] = v
    if "DialError" not in tables:
        missing.append(("C10_DIAL_ERROR_LEAVES", ERR, "enum DialError not found"))
    # variants, three levels
    variants, gates = [], []
    for i, (n1, p1, g1) in enumerate(tables.get("DialError", [])):
        lvl2 = []
        if g1:
            gates.append(([i], g1))
        for j, (n2, p2, g2) in enumerate(tables.get(p1, []) if p1 in tables else []):
            if g2:
                gates.append(([i, j], g2))
            lvl3 = []
            for k, (n3, _, g3) in enumerate(tables.get(p2, []) if p2 in tables else []):
                if g3:
                    gates.append(([i, j, k], g3))
                lvl3.append(n3)
            lvl2.append((n2, lvl3))
        variants.append((n1, lvl2))
    # scores
    aclean = blank(asrc)
    consts = {}
    m = re.search(r"\bpub\s+mod\s+scores\s*\{", aclean)
    if m:
        body = aclean[m.end() - 1:match_brace(aclean, m.end() - 1)]
        for cm in re.finditer(r"\bconst\s+(\w+)\s*:\s*i32\s*=\s*([^;]+);", body):
            v = eval_score(cm.group(2), consts)
            if v is None:
                missing.append(("C10_ERROR_SCORE_ARMS", ADDR, "unsupported score expression: " + cm.group(1)))
            else:
                consts[cm.group(1)] = v
    else:
        missing.append(("C10_ERROR_SCORE_ARMS", ADDR, "mod scores not found"))
    # error_score arms
    arms = []
    m = re.search(r"\bfn\s+error_score\s*\([^)]*\)\s*->\s*i32\s*\{", aclean)
    mm = re.search(r"\bmatch\s+\*?\s*\w+\s*\{", aclean[m.end():]) if m else None
    if m and mm:
        fn_end = match_brace(aclean, m.end() - 1)
        ms = m.end() + mm.end() - 1
        body = aclean[ms + 1:match_brace(aclean, ms) - 1]
        rest = aclean[match_brace(aclean, ms):fn_end - 1].strip()
        if rest or aclean[m.end():m.end() + mm.start()].strip():
            missing.append(("C10_ERROR_SCORE_ARMS", ADDR, "error_score is more than one match expression"))
        for arm in split_top(body, ","):
            if not arm.strip():
                continue
            if "=>" not in arm:
                missing.append(("C10_ERROR_SCORE_ARMS", ADDR, "unreadable arm: " + arm.strip()[:60]))
                continue
            lhs, rhs = arm.split("=>", 1)
            val = eval_score(rhs, consts)
            # a `#[cfg(feature = ..)]` attribute on an arm is accepted when every pattern of the arm lies
            # under a variant that is itself feature-gated (the arm then exists exactly when its
            # variants do, so it reads like an ungated arm); any other attribute is unreadable
            gated_arm = False
            am = re.match(r"\s*#\[cfg\(\s*feature\s*=[^\]]*\)\]", lhs)
            if am:
                gated_arm = True
                lhs = lhs[am.end():]
            if val is None or re.search(r"\bif\b", lhs) or "#[" in lhs:
                missing.append(("C10_ERROR_SCORE_ARMS", ADDR, "unreadable arm: " + arm.strip()[:60]))
                continue
            for pat in split_top(lhs, "|"):
                path = pattern_path(pat, tables)
                if path is None or (gated_arm and not any(path[:len(g)] == g for g, _ in gates)):
                    missing.append(("C10_ERROR_SCORE_ARMS", ADDR, "unreadable pattern: " + pat.strip()[:60]))
                else:
                    arms.append((path, val))
    else:
        missing.append(("C10_ERROR_SCORE_ARMS", ADDR, "fn error_score / its match not found"))
    try:
        sites = store_sites(repo)
    except OSError as e:
        sites = []
        missing.append(("C10_STORE_SITES", MGR, str(e)))
    if not sites:
        missing.append(("C10_STORE_SITES", MGR, "no address-store write site found"))
    try:
        entries = entry_sites(repo)
        order = new_call_order(repo)
    except (OSError, ValueError) as e:
        entries, order = [], []
        missing.append(("C10_ENTRY_SITES", "src", str(e)))
    if not entries:
        missing.append(("C10_ENTRY_SITES", "src", "no add_known_address / dial_address call found"))
    # the version of the ip_network crate the classification of coq/C10/IpClass.v was transcribed from
    ipn = ""
    try:
        lock = open(os.path.join(repo, "Cargo.lock")).read()
        vs = re.findall(r'name\s*=\s*"ip_network"\s*\nversion\s*=\s*"([^"]+)"', lock)
        ipn = ",".join(sorted(set(vs)))
    except OSError as e:
        missing.append(("C10_ENTRY_SITES", "Cargo.lock", str(e)))
    if not ipn:
        missing.append(("C10_ENTRY_SITES", "Cargo.lock", "package ip_network not found"))
    write(variants, gates, arms, sorted(consts.items()), sites, entries, order, ipn)
    leaves = 0
    for _, l2 in variants:
        if not l2:
            leaves += 1
        for _, l3 in l2:
            leaves += max(1, len(l3))
    return {"C10_DIAL_ERROR_LEAVES": leaves, "C10_ERROR_SCORE_ARMS": len(arms), "C10_STORE_SITES": len(sites),
            "C10_ENTRY_SITES": len(entries)}, missing


def coq_z(v):
    return "(%d)%%Z" % v


def write(variants, gates, arms, consts, sites, entries=(), order=(), ipn=""):
    def strs(l):
        return "[" + "; ".join('"%s"' % x for x in l) + "]"

    def nlist(l):
        return "[" + "; ".join("%d%%N" % x for x in l) + "]"

    lines = [
        "(* GENERATED by tools/gen_c10_errors.py from src/error.rs and src/transport/manager/address.rs on",
        "   every check. Do not edit. *)",
        "From Coq Require Import List NArith ZArith String.",
        "Import ListNotations.",
        "Open Scope string_scope.",
        "",
        "(* DialError: variant, the variants of its payload enum, and of theirs (enums of src/error.rs) *)",
        "Definition variants : list (string * list (string * list string)) :=",
        "  [" + ";\n   ".join(
            '("%s", [%s])' % (n1, "; ".join('("%s", %s)' % (n2, strs(l3)) for n2, l3 in l2))
            for n1, l2 in variants) + "].",
        "",
        "(* cfg(feature = ..) gates on variants (by index path): 1 quic, 2 websocket, 9 other *)",
        "Definition gates : list (list N * N) :=",
        "  [" + "; ".join("(%s, %d%%N)" % (nlist(p), g) for p, g in gates) + "].",
        "",
        "(* AddressStore::error_score: the arms of its match in order, (index-path prefix, score) *)",
        "Definition error_score_arms : list (list N * Z) :=",
        "  [" + "; ".join("(%s, %s)" % (nlist(p), coq_z(v)) for p, v in arms) + "].",
        "",
        "(* the constants of address.rs `mod scores` *)",
        "Definition score_consts : list (string * Z) :=",
        "  [" + "; ".join('("%s", %s)' % (n, coq_z(v)) for n, v in consts) + "].",
        "",
        "(* every non-test, non-hook place of src/transport/manager/*.rs (address.rs excluded) that writes",
        "   into a peer's address store or replaces/removes a peer context: (file, function, what) *)",
        "Definition store_sites : list (string * string * string) :=",
        "  [" + ";\n   ".join('("%s", "%s", "%s")' % t for t in sites) + "].",
        "",
        "(* every non-test, non-hook call of add_known_address / dial_address in src/**/*.rs:",
        "   (file, enclosing function, callee) *)",
        "Definition entry_sites : list (string * string * string) :=",
        "  [" + ";\n   ".join('("%s", "%s", "%s")' % t for t in entries) + "].",
        "",
        "(* the register_listen_address / add_known_address calls of Litep2p::new (src/lib.rs), in source order *)",
        "Definition new_call_order : list string :=",
        "  [" + "; ".join('"%s"' % x for x in order) + "].",
        "",
        "(* version(s) of the ip_network crate in Cargo.lock *)",
        'Definition ip_network_version : string := "%s".' % ipn,
    ]
    text = "\n".join(lines) + "\n"
    os.makedirs(os.path.dirname(OUT), exist_ok=True)
    old = open(OUT).read() if os.path.exists(OUT) else None
    if old != text:
        open(OUT, "w").write(text)
    # the same names for the harness, which checks its own (hand-written) table of variant
    # indices against them through the Debug names of the values it builds
    def rstrs(l):
        return "&[" + ", ".join('"%s"' % x for x in l) + "]"

    rs = [
        "// GENERATED by tools/gen_c10_errors.py from src/error.rs on every check. Do not edit.",
        "// DialError: variant, the variants of its payload enum, and of theirs (in the order of the source).",
        "#[rustfmt::skip]",
        "pub const VARIANTS: &[(&str, &[(&str, &[&str])])] = &[",
    ]
    for n1, l2 in variants:
        rs.append('    ("%s", &[%s]),' % (n1, ", ".join('("%s", %s)' % (n2, rstrs(l3)) for n2, l3 in l2)))
    rs.append("];")
    rs.append("// cfg(feature = ..) gates on variants (by index path): 1 quic, 2 websocket, 9 other")
    rs.append("#[rustfmt::skip]")
    rs.append("pub const GATES: &[(&[u64], u64)] = &[%s];"
              % ", ".join("(&[%s], %d)" % (", ".join(str(x) for x in p), g) for p, g in gates))
    rtext = "\n".join(rs) + "\n"
    old = open(OUT_RS).read() if os.path.exists(OUT_RS) else None
    if old != rtext:
        open(OUT_RS, "w").write(rtext)


if __name__ == "__main__":
    repo = os.environ.get("VERIF_REPO", "/repo")
    counts, miss = generate(repo)
    print(open(OUT).read())
    print(counts, miss)
