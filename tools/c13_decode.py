#!/usr/bin/env python3
"""usage: c13_decode.py cases impl model [line] — show, per stimulus, the implementation's and the model's step of the first (or given) differing case"""
import sys
W={0:8,1:2,2:4,3:2,4:2,5:4,6:3,7:2,8:2,9:4,10:2,11:2,12:2,13:4,14:4,15:5,16:2,17:2,18:6,19:6,20:6,21:4,22:1,23:8,24:7,25:5,26:2,27:2,28:3,29:2,30:1,31:1}
NAME={0:'Send p dial len tag fbname fblen fbtag',1:'Cancel rid',2:'Established p broken cap',3:'Closed p',4:'DialFail p',5:'Opened k gate neg',6:'OpenFail k unsup',7:'Unblock k',8:'BreakW k',9:'Respond k len tag',10:'Eof k',11:'Err k',12:'Advance dt',13:'InOpen p gate neg',14:'InReq k len tag',15:'URespond k len tag fb',16:'UReject k',17:'BreakConn p',18:'Burst p dial n len tag',19:'RaceRespAdv k len tag dt first',20:'RaceRespCancel k len tag rid first',21:'RaceCancelAdv rid dt first',22:'DropManager',23:'SendAsync p dial len tag fbname fblen fbtag',24:'BurstAsync p dial n len tag drop',25:'RespRaw irid len tag fb',26:'RejRaw irid',27:'Exit kind',28:'MgrPeer p view',29:'Clog b',30:'Flush',31:'FlushSoft'}
EW={1:2,2:4,3:3,4:5,5:4,7:3,8:3,9:3,10:3,11:3,12:2,13:2,99:2}
def ops(c):
    i=6; out=[]
    for _ in range(c[5]):
        w=W[c[i]]; out.append(c[i:i+w]); i+=w
    return out
def steps(t):
    i=1; out=[]
    try:
        while i<len(t):
            j=i; tg=t[j]; n=t[j+1]; j+=2; evs=[]
            for _ in range(n):
                w=EW[t[j]]; evs.append(tuple(t[j:j+w])); j+=w
            def lst(j):
                n=t[j]; return t[j+1:j+1+n], j+1+n
            np_=t[j]; j+=1; peers=[]
            for _ in range(np_):
                p=t[j]; a,j=lst(j+1); b,j=lst(j); peers.append((p,a,b))
            nd=t[j]; j+=1; dials=[]
            for _ in range(nd):
                p=t[j]; a,j=lst(j+1); dials.append((p,a))
            npo=t[j]; j+=1; po=[tuple(t[j+3*k:j+3*k+3]) for k in range(npo)]; j+=3*npo
            cs,j=lst(j)
            cnt=t[j:j+3]; j+=3
            out.append("tgt=%s ev=%s peers=%s dials=%s pout=%s canc=%s fut/rd/rs=%s"%(tg-1 if tg else None,evs,peers,dials,po,cs,cnt)); i=j
    except Exception as e:
        out.append("<<parse stopped: %r>>"%e)
    return out
cases=open(sys.argv[1]).read().splitlines(); a=open(sys.argv[2]).read().splitlines(); b=open(sys.argv[3]).read().splitlines()
idx=int(sys.argv[4]) if len(sys.argv)>4 else next(i for i,(x,y) in enumerate(zip(a,b)) if x!=y)
c=list(map(int,cases[idx].split())); print("case #%d header max_inb=%d ndial=%d max_size=%d selfp=%d ccap=%d"%(idx,c[0],c[1],c[2],c[3],c[4]))
sa=steps(list(map(int,a[idx].split()))); sb=steps(list(map(int,b[idx].split())))
for k,o in enumerate(ops(c)):
    x=sa[k] if k<len(sa) else '-'; y=sb[k] if k<len(sb) else '-'
    print("%2d %-22s %s"%(k,NAME[o[0]].split()[0]+str(o[1:]), x))
    if x!=y:
        print("   MODEL:%s %s"%(' '*17,y)); break
