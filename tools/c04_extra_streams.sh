#!/bin/bash
# C04: the streams over the callers that need extra cargo features of litep2p (quic, webrtc):
#   kind 50  the real webrtc::Substream (its own framing: one message of at most MAX_FRAME_SIZE bytes per poll_write through a
#            bounded channel, reassembly in poll_read) under substream::Substream, driven through its SubstreamHandle
#   kind 60  the QUIC substream type over a real quinn connection on the loopback interface (send_framed's
#            write_all_chunks path), end to end
# Run by ./check C04 in BOTH tiers (props keys quick_streams / thorough_streams) and by hand:
#     source /work/<ID>/env.sh; tools/c04_extra_streams.sh [seed] [random cases]
# The crate harness_c04x (src/main.rs includes harness/src/c04.rs with the `extra` feature) is built against the
# litep2p tree harness/Cargo.toml points at, into the target directory of C19's on-demand feature crate
# (harness/target-c19x/target: same litep2p features, the dependency artefacts are shared). The cases go through
# the extracted C04 model and oracle (ocaml/build/C04/driver). Exit 0 iff implementation and model agree on every
# case and prop_ok holds on every implementation trace; `STREAM-VIOLATION <replay>` is printed for a trace that
# fails prop_ok, `replay: <file>` for a disagreement.
set -e
V="$(cd "$(dirname "$0")/.." && pwd)"
SEED=${1:-${VERIF_SEED:-1}}; N=${2:-400}
W="$V/work/C04x"; mkdir -p "$W"
REPO=$(sed -n 's/^litep2p *= *{ *path *= *"\([^"]*\)".*/\1/p' "$V/harness/Cargo.toml" | head -1)
[ -n "$REPO" ] || { echo "C04 extra streams: no litep2p path in harness/Cargo.toml"; exit 2; }
ROOT="$V/harness/target-c19x"; K="$ROOT/c04x-crate"; mkdir -p "$K"
cat > "$W/Cargo.toml.new" <<EOF
[package]
name = "verif-harness-c04x"
version = "0.1.0"
edition = "2021"

[workspace]

[[bin]]
name = "verif-harness-c04x"
path = "$V/harness_c04x/src/main.rs"

[features]
default = ["extra"]
extra = []

[dependencies]
litep2p = { path = "$REPO", features = ["verif", "websocket", "quic", "webrtc"] }
tokio = { version = "1", features = ["rt", "rt-multi-thread", "net", "io-util", "time", "macros", "sync", "test-util"] }
futures = "0.3"
multiaddr = "0.18"
bytes = "1"
tokio-util = { version = "0.7", features = ["codec", "compat"] }
async-trait = "0.1"

[profile.dev]
opt-level = 1
debug = 0
debug-assertions = true
overflow-checks = true
EOF
cmp -s "$W/Cargo.toml.new" "$K/Cargo.toml" || cp "$W/Cargo.toml.new" "$K/Cargo.toml"
[ -f "$K/Cargo.lock" ] || cp "$V/harness/Cargo.lock" "$K/Cargo.lock"
if ! (cd "$K" && CARGO_NET_OFFLINE=true CARGO_TARGET_DIR="$ROOT/target" timeout 3000 cargo build --offline > "$W/cargo.log" 2>&1); then
  grep -E "^error" -A8 "$W/cargo.log" | head -40
  echo "C04 extra streams: harness_c04x does not build against $REPO (litep2p features quic, webrtc)"
  exit 3
fi
D="$V/ocaml/build/C04/driver"
if [ ! -x "$D" ]; then
  (cd "$V" && VERIF_REPO="$REPO" python3 tools/gen_consts.py > /dev/null && cd coq && { [ -f Makefile ] || coq_makefile -f _CoqProject -o Makefile > /dev/null; } && timeout 1500 make -j8 C04/Glue.vo > "$W/coq.log" 2>&1) || { tail "$W/coq.log"; exit 2; }
fi
# (re)extract when a .vo is newer than the driver; a no-op inside ./check, which has just built it
"$V/ocaml/build_model.sh" C04 > "$W/ocaml.log" 2>&1 || { tail "$W/ocaml.log"; echo "C04 extra streams: extraction failed"; exit 2; }
B="$ROOT/target/debug/verif-harness-c04x"
timeout 1800 "$B" --seed "$SEED" --cases "$N" --extra 1 --corpus "$V/corpus/C04-x" --out-cases "$W/x.cases" --out-trace "$W/x.impl" 2> "$W/harness.err" || { tail -5 "$W/harness.err"; echo "C04 extra streams: the harness failed"; exit 1; }
timeout 1800 "$D" run < "$W/x.cases" > "$W/x.model"
timeout 1800 "$D" ok "$W/x.cases" "$W/x.impl" > "$W/x.ok"
timeout 1800 "$D" ok "$W/x.cases" "$W/x.model" > "$W/x.mok"
python3 - "$W" "$V" "$SEED" "$B" <<'PY'
import os, sys
w, v, seed, hbin = sys.argv[1:5]
c = open(w + "/x.cases").read().splitlines(); t = open(w + "/x.impl").read().splitlines()
m = open(w + "/x.model").read().splitlines(); ok = open(w + "/x.ok").read().split(); mok = open(w + "/x.mok").read().split()
n = len(c)
if not (len(t) == len(m) == len(ok) == len(mok) == n) or n == 0:
    print("C04 extra streams: %d cases but %d traces, %d model traces, %d verdicts" % (n, len(t), len(m), len(ok))); sys.exit(1)
bad = [i for i in range(n) if t[i] != m[i]]
fail = [i for i, x in enumerate(ok) if x != "1"]
mfail = [i for i, x in enumerate(mok) if x != "1"]
kinds = {}
for x in c:
    k = x.split()[0]; kinds[k] = kinds.get(k, 0) + 1
names = {"50": "WebRTC writer", "51": "WebRTC reader", "60": "QUIC Identity", "61": "QUIC varint", "62": "QUIC varint(max)"}
accepted = sum(1 for x in t if len(x.split()) > 8)  # non-trivial traces
os.makedirs(os.path.join(v, "replays"), exist_ok=True)
how = "# replay: %s --replay <this file> --out-cases /dev/stdout --out-trace /dev/stderr\n" % hbin
rp = ""
if fail:
    i = fail[0]
    rp = os.path.join(v, "replays", "C04-x-%s-%d.case" % (seed, i))
    open(rp, "w").write("# property C04 fails on this case of the extra streams (oracle prop_ok = false on the implementation's trace)\n"
                        + how + "case: %s\n# impl:  %s\n# model: %s\n" % (c[i], t[i][:4000], m[i][:4000]))
elif bad:
    i = bad[0]
    rp = os.path.join(v, "replays", "C04-x-%s-%d-disagreement.case" % (seed, i))
    open(rp, "w").write("# C04 extra streams: implementation and model disagree on this case (the property is no longer shown to hold here)\n"
                        + how + "case: %s\n# impl:  %s\n# model: %s\n" % (c[i], t[i][:4000], m[i][:4000]))
for i in (fail + bad)[:3]:
    print("case: " + c[i][:600]); print("# impl:  " + t[i][:300]); print("# model: " + m[i][:300])
if mfail:
    print("C04 extra streams: prop_ok rejects the model's own trace on case #%d" % mfail[0])
if fail:
    print("STREAM-VIOLATION " + rp)
print("C04 extra streams: %d cases (%s; %d non-trivial), %d disagreements, %d oracle failures%s" % (
    n, ", ".join("%d %s" % (kinds[k], names.get(k, "kind " + k)) for k in sorted(kinds)), accepted, len(bad), len(fail),
    (", replay: " + rp) if rp else ""))
sys.exit(1 if bad or fail or mfail else 0)
PY
