#!/bin/bash
# usage: tools/seed2.sh C15b C15 [more ids] — second-round seeded change living in /tmp/seed/C15b: confirm the demo in a
# fresh worktree, run ./check C15 (and further ids) with the change applied to /repo, undo, and store everything under
# /verif/seeded/C15/b/ with the verdict in meta.json
D=$1; P=$2; shift 2
S=/tmp/seed/$D/SEEDED
[ -f $S/patch.diff ] || { echo "no $S/patch.diff"; exit 2; }
conf=$(tools/confirm_seeded.sh $D 2>&1); echo "$conf"
res=$(tools/try_seeded.sh $P $S/patch.diff "$@" 2>&1); echo "$res"
K=/verif/seeded/$P/b; mkdir -p $K
cp $S/patch.diff $S/demo.diff $K/
python3 - "$S/meta.json" "$K/meta.json" "$P" "$conf" "$res" <<'PY'
import json,sys
m=json.load(open(sys.argv[1])); m['property']=sys.argv[3]; m['round']=2
m['confirmation_log']=sys.argv[4][-1500:]
m['check_result']=sys.argv[5][-1500:]
json.dump(m,open(sys.argv[2],'w'),indent=1)
PY
