#!/bin/bash
# usage: tools/seedN.sh C15c C15 [more ids] — later-round seeded change living in /tmp/seed/C15c: confirm the demo in a
# fresh worktree, run ./check C15 (and further ids) with the change applied to /repo, undo, and store everything under
# /verif/seeded/C15/c/ with the verdict in meta.json; removes the sub-agent's worktree and build output afterwards
D=$1; P=$2; shift 2
R=${D#$P}
S=/tmp/seed/$D/SEEDED
[ -f $S/patch.diff ] || { echo "no $S/patch.diff"; exit 2; }
conf=$(tools/confirm_seeded.sh $D 2>&1); echo "$conf"
res=$(tools/try_seeded.sh $P $S/patch.diff "$@" 2>&1); echo "$res"
K=/verif/seeded/$P/$R; mkdir -p $K
cp $S/patch.diff $S/demo.diff $K/
python3 - "$S/meta.json" "$K/meta.json" "$P" "$conf" "$res" "$R" <<'PY'
import json,sys
m=json.load(open(sys.argv[1])); m['property']=sys.argv[3]; m['round']={'c':3,'d':4,'e':5,'f':6}.get(sys.argv[6],sys.argv[6])
m['confirmation_log']=sys.argv[4][-1500:]
m['check_result']=sys.argv[5][-1500:]
json.dump(m,open(sys.argv[2],'w'),indent=1)
PY
git -C /repo worktree remove --force /tmp/seed/$D 2>/dev/null; rm -rf /tmp/seed/$D
