From Coq Require Import List NArith Bool.
From V.gen Require Consts.
From V.C16 Require Import Model Proofs Obl Bound Chan.
Import ListNotations.
Open Scope N_scope.
From V.C16 Require Import Properties.
Check (C16_no_wait_for_nothing :
  forall g m es q x p,
  1 <= g_alpha g ->
  let s := fst (run g (st0 m) es) in
  aget q (eng s) = Some x -> In p (waiting x) -> owes s (negb (is_track x)) q p).
Check (C16_dischargeable :
  forall g m es p acts sid a,
  1 <= g_alpha g -> feasible_run g (st0 m) es ->
  let s := fst (run g (st0 m) es) in
  aget p (peers s) = Some acts -> aget sid acts = Some a -> aget sid (psub s) = Some p).
Check (C16_idle_all_done :
  forall g m es,
  1 <= g_alpha g ->
  let s := fst (run g (st0 m) es) in
  idle s -> quiescent s = true -> eng s = []).
Check (C16_one_terminal :
  forall g m es q,
  fresh_ids [] es ->
  let s := fst (run g (st0 m) es) in
  let outs := snd (run g (st0 m) es) in
  (terminals q outs + (if live q s then 1 else 0) = started q es)%nat /\ (started q es <= 1)%nat).
Check (C16_terminates :
  forall g m es q,
  1 <= g_alpha g -> fresh_ids [] es ->
  let s := fst (run g (st0 m) es) in
  let outs := snd (run g (st0 m) es) in
  idle s -> quiescent s = true ->
  terminals q outs = started q es /\ (started q es <= 1)%nat).
Check (C16_drain_progress :
  forall s q0 q,
  snd (serve s q0) = true ->
  (q <> q0 -> aget q (eng (fst (fst (serve s q0)))) = aget q (eng s)) /\
  (qw (aget q0 (eng (fst (fst (serve s q0))))) < qw (aget q0 (eng s)))%nat).
Check (C16_at_most_one :
  forall g m es k q p,
  fresh_ids [] es -> cmds_ok g es -> (cnt (fst (run g (st0 m) es)) k q p <= 1)%nat).
Check (C16_exactly_one :
  forall g m es q x p,
  1 <= g_alpha g -> fresh_ids [] es -> cmds_ok g es ->
  let s := fst (run g (st0 m) es) in
  aget q (eng s) = Some x -> In p (waiting x) -> cnt s (negb (is_track x)) q p = 1%nat).
Check (C16_quorum_honest :
  forall g m es q,
  fresh_ids [] es -> cmds_ok g es ->
  let outs := snd (run g (st0 m) es) in
  In (OPutSuccess q) outs \/ In (OProvSuccess q) outs ->
  exists targets qr S,
    find_quorum q es = Some qr /\ In (OTrack q targets) outs /\ NoDup S /\
    clamp qr (N.of_nat (length targets)) <= N.of_nat (length S) /\
    (forall p, In p S -> In (q, p) (put_sends g (st0 m) es) /\ In p targets)).
Check (C16_step_measure :
  forall U g s e,
  BE U g s -> ev_in_U U e -> is_input e = false ->
  BE U g (fst (fst (step g s e))) /\ (M U g (fst (fst (step g s e))) <= M U g s)%nat /\
  (productive s e -> (M U g (fst (fst (step g s e))) < M U g s)%nat)).
Check (C16_stuck_idle :
  forall s, NoDup (map fst (eng s)) -> stuck s -> idle s /\ quiescent s = true).
Check (C16_fair_terminates :
  forall U g m es0 es1 q,
  1 <= g_alpha g -> fresh_ids [] (es0 ++ es1) -> cmds_ok g es0 -> evs_in_U U es0 -> evs_in_U U es1 ->
  let s0 := fst (run g (st0 m) es0) in
  fair_run g s0 es1 ->
  (length es1 <= budget (length U) g es0)%nat /\
  (stuck (fst (run g s0 es1)) ->
   terminals q (snd (run g (st0 m) (es0 ++ es1))) = started q (es0 ++ es1) /\
   (started q (es0 ++ es1) <= 1)%nat)).
Check (C16_bounded_channel :
  forall g m cap es,
  let b' := fst (brun g cap (b0 m) es) in
  let rcv := snd (brun g cap (b0 m) es) in
  let tk := taken g cap (b0 m) es in
  b_st b' = fst (run g (st0 m) tk) /\
  rcv ++ b_chan b' ++ b_back b' = filter is_event (snd (run g (st0 m) tk)) /\
  (length (b_chan b') <= cap)%nat /\ (b_back b' <> [] -> length (b_chan b') = cap)).
Check (C16_channel_drains :
  forall g cap n b,
  (1 <= cap)%nat -> bwf cap b -> (length (flight b) <= n)%nat ->
  flight (fst (brun g cap b (repeat BRecv n))) = [] /\
  snd (brun g cap b (repeat BRecv n)) = flight b).
Check (C16_default_config :
  1 <= V.gen.Consts.PARALLELISM_FACTOR /\ 0 < V.gen.Consts.KAD_READ_TIMEOUT_SECS /\
  0 < V.gen.Consts.KAD_WRITE_TIMEOUT_SECS).
