From Coq Require Import List NArith Bool.
From V.gen Require Consts.
From V.C14 Require Model Proofs.
From V.C15 Require Model Engine.
From V.C17 Require Model Proofs Timed Ingress.
From V.gen Require C16Tables.
From V.Ts Require Model Proofs Answers.
From V.Link Require C16_Time.
From V.C16 Require Import Model Proofs Obl Bound Chan Exec Time Compose Comp CompTime EngineRef HandleModel Handle Quorum Link.
Import ListNotations.
Open Scope N_scope.
From V.C16 Require Import Properties.
Check (C16_no_wait_for_nothing :
  forall g m es q x p,
  1 <= g_alpha g ->
  let s := fst (run g (st0 m) es) in
  aget q (eng s) = Some x -> In p (waiting x) -> owes s (negb (is_track x)) q p).
Check (C16_dischargeable :
  forall g m es p acts sid a,
  1 <= g_alpha g -> feasible_run g (st0 m) es ->
  let s := fst (run g (st0 m) es) in
  aget p (peers s) = Some acts -> aget sid acts = Some a -> aget sid (psub s) = Some p).
Check (C16_idle_all_done :
  forall g m es,
  1 <= g_alpha g ->
  let s := fst (run g (st0 m) es) in
  idle s -> quiescent s = true -> eng s = []).
Check (C16_one_terminal :
  forall g m es q,
  fresh_ids [] es ->
  let s := fst (run g (st0 m) es) in
  let outs := snd (run g (st0 m) es) in
  (terminals q outs + (if live q s then 1 else 0) = started q es)%nat /\ (started q es <= 1)%nat).
Check (C16_terminates :
  forall g m es q,
  1 <= g_alpha g -> fresh_ids [] es ->
  let s := fst (run g (st0 m) es) in
  let outs := snd (run g (st0 m) es) in
  idle s -> quiescent s = true ->
  terminals q outs = started q es /\ (started q es <= 1)%nat).
Check (C16_drain_progress :
  forall s q0 q,
  snd (serve s q0) = true ->
  (q <> q0 -> aget q (eng (fst (fst (serve s q0)))) = aget q (eng s)) /\
  (qw (aget q0 (eng (fst (fst (serve s q0))))) < qw (aget q0 (eng s)))%nat).
Check (C16_at_most_one :
  forall g m es k q p,
  fresh_ids [] es -> cmds_ok g es -> (cnt (fst (run g (st0 m) es)) k q p <= 1)%nat).
Check (C16_exactly_one :
  forall g m es q x p,
  1 <= g_alpha g -> fresh_ids [] es -> cmds_ok g es ->
  let s := fst (run g (st0 m) es) in
  aget q (eng s) = Some x -> In p (waiting x) -> cnt s (negb (is_track x)) q p = 1%nat).
Check (C16_quorum_honest :
  forall g m es q,
  fresh_ids [] es -> cmds_ok g es ->
  let outs := snd (run g (st0 m) es) in
  In (OPutSuccess q) outs \/ In (OProvSuccess q) outs ->
  exists targets qr S,
    find_quorum q es = Some qr /\ In (OTrack q targets) outs /\ NoDup S /\
    clamp qr (N.of_nat (length targets)) <= N.of_nat (length S) /\
    (forall p, In p S -> In (q, p) (put_sends g (st0 m) es) /\ In p targets)).
Check (C16_step_measure :
  forall U g s e,
  BE U g s -> ev_in_U U e -> is_input e = false ->
  BE U g (fst (fst (step g s e))) /\ (M U g (fst (fst (step g s e))) <= M U g s)%nat /\
  (productive s e -> (M U g (fst (fst (step g s e))) < M U g s)%nat)).
Check (C16_stuck_idle :
  forall s, NoDup (map fst (eng s)) -> stuck s -> idle s /\ quiescent s = true).
Check (C16_fair_terminates :
  forall U g m es0 es1 q,
  1 <= g_alpha g -> fresh_ids [] (es0 ++ es1) -> cmds_ok g es0 -> evs_in_U U es0 -> evs_in_U U es1 ->
  let s0 := fst (run g (st0 m) es0) in
  fair_run g s0 es1 ->
  (length (work es1) <= budget (length U) g es0)%nat /\
  (stuck (fst (run g s0 es1)) ->
   terminals q (snd (run g (st0 m) (es0 ++ es1))) = started q (es0 ++ es1) /\
   (started q (es0 ++ es1) <= 1)%nat)).
Check (C16_bounded_channel :
  forall g m cap es,
  let b' := fst (brun g cap (b0 m) es) in
  let rcv := snd (brun g cap (b0 m) es) in
  let tk := taken g cap (b0 m) es in
  b_st b' = fst (run g (st0 m) tk) /\
  rcv ++ b_chan b' ++ b_back b' = filter is_event (snd (run g (st0 m) tk)) /\
  (length (b_chan b') <= cap)%nat /\ (b_back b' <> [] -> length (b_chan b') = cap)).
Check (C16_channel_drains :
  forall g cap n b,
  (1 <= cap)%nat -> bwf cap b -> (length (flight b) <= n)%nat ->
  flight (fst (brun g cap b (repeat BRecv n))) = [] /\
  snd (brun g cap b (repeat BRecv n)) = flight b).
Check (C16_compose_refines :
  forall wc us w,
  w_st (fst (crun wc w us)) = fst (run (wc_g wc) (w_st w) (elabs wc w us)) /\
  snd (crun wc w us) = snd (run (wc_g wc) (w_st w) (elabs wc w us))).
Check (C16_table_invariant :
  forall wc m us, keys_ok wc ->
  V.C14.Proofs.Inv (lkey wc) (wc_K wc) (w_rt (fst (crun wc (w0 wc m (length (lkey wc))) us)))).
Check (C16_seeds_from_table :
  forall wc m us q c target,
  keys_ok wc ->
  let w := fst (crun wc (w0 wc m (length (lkey wc))) us) in
  let t := w_rt w in
  let k := N.to_nat (g_k (wc_g wc)) in
  let nodes := V.C14.Model.closest (lkey wc) t target k in
  let cands := filter V.C14.Model.n_addr (concat t) in
  let seeds := map (fun n => peer_of (wc_keys wc) (V.C14.Model.n_key n)) nodes in
  (exists cmd, fst (fst (elab wc w (UCmd q c target))) = ECmd q cmd (dists_of wc target) seeds) /\
  ~ In (g_local (wc_g wc)) seeds /\
  (length target = length (lkey wc) -> V.C14.Proofs.outside_class (lkey wc) t target ->
   Sorted.StronglySorted (V.C14.Proofs.dlt target) nodes /\ NoDup (map V.C14.Model.n_key nodes) /\
   (forall n, In n nodes -> In n cands) /\
   length nodes = Nat.min k (length cands) /\
   (forall a b, In a nodes -> In b cands -> ~ In b nodes -> V.C14.Proofs.dlt target a b))).
Check (C16_put_to_peers_named :
  forall wc w q qr rk len pub exp upd given,
  keys_ok wc ->
  exists ps, fst (fst (elab wc w (UPutToPeers q qr rk len pub exp upd given))) = EPutToPeers q qr ps /\
             (forall x, In x ps -> In x given /\ x <> g_local (wc_g wc)) /\
             (NoDup given -> NoDup ps)).
Check (C16_compose_cmds_ok :
  forall wc m us,
  keys_ok wc -> ufresh [] us -> Forall (ucmd_ok (wc_g wc)) us ->
  let es := elabs wc (w0 wc m (length (lkey wc))) us in
  fresh_ids [] es /\ cmds_ok (wc_g wc) es).
Check (C16_store_invariant :
  forall wc m L us,
  1 <= V.C17.Model.max_per_key (wc_scfg wc) ->
  V.C17.Proofs.Inv (wc_scfg wc) (w_store (fst (crun wc (w0 wc m L) us)))).
Check (C16_get_record_local :
  forall wc w q qr rk target,
  let g := wc_g wc in
  let ans := V.C17.Ingress.kstep (kc_of wc) (w_ks w) (V.C17.Ingress.KCmdGetRecord rk) in
  let hit := is_hit (snd ans) in
  let lookup := start_lookup g (w_st w) q LRec qr
                  (lcfg g V.C15.Model.KRecord (needed_of g qr) (if hit then 1 else 0) [] (dists_of wc target))
                  (seeds_of wc (w_rt w) target) in
  fst (cstep wc w (UCmd q (UCGet qr rk) target)) =
  match qr, hit with
  | QOne, true => (mkW (w_st w) (w_rt w) (fst ans), [OPartial q (g_local g) LOCAL_REC; OGetRecSuccess q])
  | _, _ => (mkW lookup (w_rt w) (fst ans), if hit then [OPartial q (g_local g) LOCAL_REC] else [])
  end).
Check (C16_store_records_live :
  forall c st key, V.C17.Ingress.ks_dead st = false ->
  (is_hit (snd (V.C17.Ingress.kstep c st (V.C17.Ingress.KCmdGetRecord key))) = true <->
   live_rec (V.C17.IngressProofs.kstore st) (V.C17.Ingress.ks_now st) key) /\
  (forall from, is_hit (snd (V.C17.Ingress.kstep c st (V.C17.Ingress.KGetValue from key))) = true <->
   live_rec (V.C17.IngressProofs.kstore st) (V.C17.Ingress.ks_now st) key)).
Check (C16_put_then_get :
  forall wc w us q rk r target,
  V.C17.Model.find_rec rk (V.C17.Model.recs (w_store w)) = Some r -> no_write rk us ->
  let w' := fst (crun wc w us) in
  V.C17.Model.rec_expired r (w_clock w') = false -> V.C17.Ingress.ks_dead (w_ks w') = false ->
  snd (fst (cstep wc w' (UCmd q (UCGet QOne rk) target))) =
    [OPartial q (g_local (wc_g wc)) LOCAL_REC; OGetRecSuccess q] /\
  w_st (fst (fst (cstep wc w' (UCmd q (UCGet QOne rk) target)))) = w_st w').
Check (C16_compose_no_wait :
  forall wc m us q x p,
  1 <= g_alpha (wc_g wc) ->
  let s := w_st (fst (crun wc (w0 wc m (length (lkey wc))) us)) in
  aget q (eng s) = Some x -> In p (waiting x) -> owes s (negb (is_track x)) q p).
Check (C16_compose_one_terminal :
  forall wc m us q,
  ufresh [] us ->
  let W0 := w0 wc m (length (lkey wc)) in
  (terminals q (snd (crun wc W0 us)) + (if live q (w_st (fst (crun wc W0 us))) then 1 else 0) =
   cstarted wc W0 q us)%nat /\
  (cstarted wc W0 q us <= ustarted q us)%nat /\ (cstarted wc W0 q us <= 1)%nat).
Check (C16_compose_terminates :
  forall wc m us q,
  1 <= g_alpha (wc_g wc) -> ufresh [] us ->
  let W0 := w0 wc m (length (lkey wc)) in
  let w := fst (crun wc W0 us) in
  idle (w_st w) -> quiescent (w_st w) = true ->
  terminals q (snd (crun wc W0 us)) = cstarted wc W0 q us /\ (cstarted wc W0 q us <= 1)%nat).
Check (C16_compose_fair_terminates :
  forall wc m U us0 us1 q,
  keys_ok wc -> 1 <= g_alpha (wc_g wc) ->
  (forall p, In p (UNKNOWN :: map fst (wc_keys wc)) -> In p U) ->
  ufresh [] (us0 ++ us1) -> Forall (ucmd_ok (wc_g wc)) us0 -> Forall (uev_in_U U) (us0 ++ us1) ->
  let W0 := w0 wc m (length (lkey wc)) in
  let w1 := fst (crun wc W0 us0) in
  let es1 := elabs wc w1 us1 in
  fair_run (wc_g wc) (w_st w1) es1 ->
  (length (work es1) <= budget (length U) (wc_g wc) (elabs wc W0 us0))%nat /\
  (stuck (w_st (fst (crun wc w1 us1))) ->
   terminals q (snd (crun wc W0 (us0 ++ us1))) = cstarted wc W0 q (us0 ++ us1) /\
   (cstarted wc W0 q (us0 ++ us1) <= 1)%nat)).
Check (C16_compose_at_most_one :
  forall wc m us k q p,
  keys_ok wc -> ufresh [] us -> Forall (ucmd_ok (wc_g wc)) us ->
  (cnt (w_st (fst (crun wc (w0 wc m (length (lkey wc))) us))) k q p <= 1)%nat).
Check (C16_compose_quorum_honest :
  forall wc m us q,
  keys_ok wc -> ufresh [] us -> Forall (ucmd_ok (wc_g wc)) us ->
  let outs := snd (crun wc (w0 wc m (length (lkey wc))) us) in
  let es := elabs wc (w0 wc m (length (lkey wc))) us in
  In (OPutSuccess q) outs \/ In (OProvSuccess q) outs ->
  exists targets qr S,
    find_quorum q es = Some qr /\ In (OTrack q targets) outs /\ NoDup S /\
    clamp qr (N.of_nat (length targets)) <= N.of_nat (length S) /\
    (forall p, In p S -> In (q, p) (put_sends (wc_g wc) (st0 m) es) /\ In p targets)).
Check (C16_closed_while_outstanding :
  forall g m es p,
  1 <= g_alpha g ->
  let s := fst (run g (st0 m) es) in
  aget p (conn s) <> None ->
  let s' := fst (fst (step g s (EClosed p))) in
  aget p (peers s') = None /\ futs s' = futs s /\ pdial s' = pdial s /\
  forall q x, aget q (eng s') = Some x -> In p (waiting x) ->
    owes_dial s' (negb (is_track x)) q p \/ owes_fut s' (negb (is_track x)) q p).
Check (C16_bounded_time :
  forall D g m es0 a e b,
  1 <= g_alpha g -> is_tick e = false ->
  let s0 := fst (run g (st0 m) es0) in
  fair_run g s0 (a ++ e :: b) ->
  timed D g s0 (restamp (now s0) [] (okeys s0)) (a ++ e :: b) ->
  now (fst (run g s0 a)) <= now s0 + D * N.of_nat (S (length (work a)))).
Check (C16_bounded_time_budget :
  forall D U g m es0 a e b,
  1 <= g_alpha g -> fresh_ids [] (es0 ++ a ++ e :: b) -> cmds_ok g es0 ->
  evs_in_U U es0 -> evs_in_U U (a ++ e :: b) -> is_tick e = false ->
  let s0 := fst (run g (st0 m) es0) in
  fair_run g s0 (a ++ e :: b) ->
  timed D g s0 (restamp (now s0) [] (okeys s0)) (a ++ e :: b) ->
  now (fst (run g s0 a)) <= now s0 + D * N.of_nat (budget (length U) g es0)).
Check (C16_inbound_isolated :
  forall g s e,
  inbound_ev s e ->
  let s' := fst (fst (step g s e)) in
  let o := snd (fst (step g s e)) in
  eng s' = eng s /\ pdial s' = pdial s /\ psub s' = psub s /\
  (forall p acts, aget p (peers s) = Some acts -> aget p (peers s') = Some acts) /\
  (forall x, In x o -> x = OIncomingRecord \/ x = OIncomingProvider) /\
  (forall f, In f (futs s) -> f_q f <> None -> In f (futs s'))).
Check (C16_inbound_reply :
  forall wc w id rq b ps pv,
  keys_ok wc -> V.C14.Proofs.Inv (lkey wc) (wc_K wc) (w_rt w) -> V.C17.Ingress.ks_dead (w_ks w) = false ->
  reply_of wc w (UInReq id rq) = Some (b, ps, pv) ->
  exists target,
    (rq = IFindNode target \/ (exists rk, rq = IGetValue rk target) \/ (exists rk, rq = IGetProviders rk target)) /\
    ps = seeds_of wc (w_rt w) target /\ ~ In (g_local (wc_g wc)) ps /\
    (length ps <= N.to_nat (g_k (wc_g wc)))%nat /\
    (b = true <-> exists rk, rq = IGetValue rk target /\ live_rec (w_store w) (w_clock w) rk) /\
    (forall rk, rq = IGetProviders rk target ->
       pv = map (fun p => (peer_of_pid wc (V.C17.Model.p_id p), V.C17.Ingress.serve_addrs (kc_of wc) p))
                (known_provs (w_ks w) rk) /\
       Forall (fun p => V.C17.Model.prov_expired p (w_clock w) = false) (known_provs (w_ks w) rk)) /\
    ((forall rk, rq <> IGetProviders rk target) -> pv = [])).
Check (C16_serve_after_put :
  forall wc w us rk r id target,
  V.C17.Model.find_rec rk (V.C17.Model.recs (w_store w)) = Some r -> no_write rk us ->
  let w' := fst (crun wc w us) in
  V.C17.Model.rec_expired r (w_clock w') = false -> V.C17.Ingress.ks_dead (w_ks w') = false ->
  inbound_read (w_st w') id = true ->
  reply_of wc w' (UInReq id (IGetValue rk target)) = Some (true, seeds_of wc (w_rt w') target, [])).
Check (C16_manual_validation :
  forall wc w u k r,
  wc_vauto wc = false ->
  (exists e, u = UEv e) \/ (exists id rq, u = UInReq id rq) ->
  V.C17.Model.find_rec k (V.C17.Model.recs (w_store (fst (fst (cstep wc w u))))) = Some r ->
  V.C17.Model.find_rec k (V.C17.Model.recs (w_store w)) = Some r).
Check (C16_auto_validation :
  forall wc w id rk len pub ttl,
  wc_vauto wc = true -> inbound_read (w_st w) id = true -> V.C17.Ingress.ks_dead (w_ks w) = false ->
  pub <> V.C17.Ingress.PUB_INVALID ->
  w_store (fst (fst (cstep wc w (UInReq id (IPutValue rk len pub ttl))))) =
  V.C17.Model.put (wc_scfg wc) (w_store w)
    (V.C17.Ingress.rec_of rk LOCAL_REC len pub (if ttl =? 0 then None else Some (w_clock w + ttl)))).
Check (C16_manual_routing_table :
  forall wc m L us n,
  wc_auto wc = false ->
  In n (concat (w_rt (fst (crun wc (w0 wc m L) us)))) -> V.C14.Model.n_key n <> [] ->
  exists p, In (UAddKnownPeer p true) us /\ V.C14.Model.n_key n = pkey wc p).
Check (C16_refresh_due :
  forall wc w q rk wait target rest,
  V.C17.Ingress.ks_dead (w_ks w) = false ->
  take_due (w_clock w + wait) rk (w_timers w) = Some rest ->
  fst (fst (elab wc w (UFire q rk wait target))) =
  match V.C17.Timed.find_q rk (w_quorum w) with
  | Some qc => ECmd q (CRefresh (qdecode qc)) (dists_of wc target) (seeds_of wc (w_rt w) target)
  | None => ENop
  end).
Check (C16_refresh_not_before_deadline :
  forall wc w q rk wait target,
  take_due (w_clock w + wait) rk (w_timers w) = None -> uvalid wc w (UFire q rk wait target) = false).
Check (C16_refresh_rearms :
  forall wc w q rk wait target rest qc,
  1 <= wc_interval wc -> V.C17.Ingress.ks_dead (w_ks w) = false ->
  take_due (w_clock w + wait) rk (w_timers w) = Some rest ->
  V.C17.Timed.find_q rk (w_quorum w) = Some qc ->
  snd (V.C17.Model.put_local_provider (wc_scfg wc) (w_store w) rk (lrank wc target) (w_clock w + wait)) = true ->
  exists t, In t (w_timers (fst (fst (cstep wc w (UFire q rk wait target))))) /\ V.C17.Timed.tm_key t = rk).
Check (C16_provided_has_timer :
  forall wc m L us rk qc,
  1 <= wc_interval wc -> valid_run wc (w0 wc m L) us ->
  let w := fst (crun wc (w0 wc m L) us) in
  V.C17.Timed.find_q rk (w_quorum w) = Some qc -> exists t, In t (w_timers w) /\ V.C17.Timed.tm_key t = rk).
Check (C16_executor_sound :
  forall T k w r, res_ok k (fst (exec T k w r)) = true).
Check (C16_executor_complete :
  forall T k res,
  0 < t_w T -> 0 < t_r T -> res_ok k res = true -> exists w r, fst (exec T k w r) = res).
Check (C16_executor_bounded :
  forall T k w r, snd (exec T k w r) <= t_w T + t_r T).
Check (C16_executor_silent_peer :
  forall T k t,
  t < t_w T ->
  exec T k (WAccept t) RNever =
  match k with
  | FReqResp => (RReadFail, t + t_r T)
  | FReqEat => (RAssume, t + t_r T)
  | FInRead => (RReadFail, t_r T)
  | _ => (RSendOk, t)
  end).
Check (C16_executor_sent :
  forall T k w r,
  k = FReqEat \/ k = FSend -> sent_res (fst (exec T k w r)) = written T w).
Check (C16_engine_is_C15 :
  forall g m es, exists h, erel (eng (fst (run g (st0 m) es))) (xrunG [] h)).
Check (C16_engine_calls_refine :
  forall gc s xe q p, erel (eng s) xe ->
  erel (eng (eng_resp_fail s q p)) (fst (V.C15.Engine.xstep gc xe (V.C15.Engine.XFail q p))) /\
  erel (eng (eng_send_fail s q p)) (fst (V.C15.Engine.xstep gc xe (V.C15.Engine.XSendFail q p))) /\
  erel (eng (eng_send_ok s q p)) (fst (V.C15.Engine.xstep gc xe (V.C15.Engine.XSendOk q p))) /\
  erel (eng (eng_fail s q p)) (fst (V.C15.Engine.xstep gc xe (V.C15.Engine.XPeerFail q p))) /\
  (forall m, match m with MAddProvider _ | MInvalid => False | _ => True end ->
             erel (eng (eng_response s q p m))
                  (fst (V.C15.Engine.xstep gc xe (V.C15.Engine.XResp q p (mk_of m) (reply_of_msg m))))) /\
  (lookups_live s ->
   peer_wanted s q p = match snd (V.C15.Engine.xstep gc xe (V.C15.Engine.XPeerAct q p)) with
                       | V.C15.Engine.XNone => false | _ => true end)).
Check (C16_engine_starts_refine :
  forall g gc s xe q, erel (eng s) xe ->
  (forall c dists seeds,
     match xstart_of c with
     | Some (t, qtag, qn, known, kp) =>
         erel (eng (fst (on_cmd g s q c dists seeds)))
              (fst (V.C15.Engine.xstep (gc_of g dists) xe (V.C15.Engine.XStart q t qtag qn known seeds kp)))
     | None => eng (fst (on_cmd g s q c dists seeds)) = eng s
     end) /\
  (forall qr ps, erel (aset q (QToPeers qr ps) (eng s))
                      (fst (V.C15.Engine.xstep gc xe (V.C15.Engine.XStart q V.C15.Engine.TPutRecordToPeers
                                                        (qtag_of qr) (qn_of qr) 0 ps [])))) /\
  (forall pv l qr, erel (aset q (QTrack pv (ndedup l) 0 (clamp qr (N.of_nat (length l)))) (eng s))
                        (fst (V.C15.Engine.xstep gc xe (V.C15.Engine.XStart q (tt_of pv) (qtag_of qr) (qn_of qr) 0 l []))))).
Check (C16_engine_serve_refines :
  forall gc s xe q, erel (eng s) xe -> NoDup (map fst (eng s)) ->
  exists e', erel e' (fst (V.C15.Engine.xstep gc xe (V.C15.Engine.XNext (now s) (q + 1)))) /\
             serve s q = on_action (w_eng s e') (snd (V.C15.Engine.xstep gc xe (V.C15.Engine.XNext (now s) (q + 1))))).
Check (C16_handle_ids_fresh :
  forall cap ops, ufresh [] (snd (fst (hrun (h0 cap) ops)))).
Check (C16_handle_one_terminal :
  forall wc m cap ops q,
  let us := snd (fst (hrun (h0 cap) ops)) in
  let W0 := w0 wc m (length (lkey wc)) in
  (terminals q (snd (crun wc W0 us)) + (if live q (w_st (fst (crun wc W0 us))) then 1 else 0) =
   cstarted wc W0 q us)%nat /\
  (cstarted wc W0 q us <= ustarted q us)%nat /\ (cstarted wc W0 q us <= 1)%nat).
Check (C16_handle_try_full :
  forall cap ops0 b ops1,
  let h := fst (fst (hrun (h0 cap) ops0)) in
  h_closed h || full h = true -> draws b = true ->
  snd (hcall h true b) = RErr /\
  h_chan (fst (hcall h true b)) = h_chan h /\ h_park (fst (hcall h true b)) = h_park h /\
  let us := snd (fst (hrun (h0 cap) (ops0 ++ OCall true b :: ops1))) in
  ustarted (h_next h) us = 0%nat /\
  forall wc m, terminals (h_next h) (snd (crun wc (w0 wc m (length (lkey wc))) us)) = 0%nat).
Check (C16_handle_fifo :
  (forall h b, h_closed h || full h = false ->
     snd (hcall h true b) = ROk (if draws b then Some (h_next h) else None) /\
     h_chan (fst (hcall h true b)) = h_chan h ++ [with_id b (h_next h)]) /\
  (forall h tr b h' r, hcall h tr b = (h', r) ->
     h_chan h' = h_chan h \/ h_chan h' = h_chan h ++ [with_id b (h_next h)]) /\
  (forall h c t, h_chan h = c :: t ->
     snd (hrecv h) = Some c /\ h_chan (fst (hrecv h)) = t /\ h_park (fst (hrecv h)) = h_park h)).
Check (C16_command_starts_in_sync :
  forall wc w,
  Forall (fun c => option_map fst (loop_row (cmd_name c)) = Some (start_name (fst (fst (elab wc w (h2u c))))))
         cmd_samples).
Check (C16_events_classified :
  map (fun r => (fst r, has_field F_QUERY_ID r)) V.gen.C16Tables.events =
    map (fun x => (fst (fst x), snd (fst x))) tbl_events /\
  map (fun x => fst (fst x)) (filter (fun x => snd (fst x) && negb (snd x)) tbl_events) = EV_PARTIAL /\
  map (fun x => fst (fst x)) (filter (fun x => negb (snd (fst x))) tbl_events) =
    EV_NOID /\
  forall x, In x tbl_events -> snd x = true -> snd (fst x) = true).
Check (C16_tables_in_sync :
  V.gen.C16Tables.quorum = tbl_quorum /\
  map fst V.gen.C16Tables.commands = tbl_commands /\
  V.gen.C16Tables.methods = tbl_methods /\
  map (fun r => (fst (fst r), snd (fst r))) V.gen.C16Tables.actions = tbl_action_events /\
  V.gen.C16Tables.need = tbl_need /\
  V.gen.C16Tables.results = tbl_results /\
  V.gen.C16Tables.transports = tbl_transports /\
  V.gen.C16Tables.refresh = tbl_refresh /\
  V.gen.C16Tables.dial_arms = tbl_dial_arms /\
  map (fun r : String.string * list String.string * list String.string * list String.string => (fst (fst (fst r)), snd (fst r)))
      V.gen.C16Tables.loop_cmds = tbl_cmd_store /\
  map (fun r : String.string * list String.string * list String.string * list String.string => (fst (fst (fst r)), snd r))
      (filter (fun r : String.string * list String.string * list String.string * list String.string =>
                 match snd r with [] => false | _ => true end) V.gen.C16Tables.loop_cmds) =
    GETRECORD_ROW).
Check (C16_quorum_variants :
  forall wc w q,
  (forall qr rk len e t,
     quorum_of_ev q (fst (fst (elab wc w (UCmd q (UCPut qr rk len e) t)))) = Some qr) /\
  (forall qr rk t,
     quorum_of_ev q (fst (fst (elab wc w (UCmd q (UCProv qr rk) t)))) = Some qr) /\
  (forall qr rk len pb e upd given,
     quorum_of_ev q (fst (fst (elab wc w (UPutToPeers q qr rk len pb e upd given)))) = Some qr) /\
  (forall rk wait t ks' qc,
     fire1 wc (age (w_ks w) wait) rk (lrank wc t) = Some (ks', Some qc) ->
     quorum_of_ev q (fst (fst (elab wc w (UFire q rk wait t)))) = Some (qdecode qc))).
Check (C16_quorum_clamp :
  (forall h len,
     1 <= clamp (q_of h) len /\
     match h with
     | HOne => clamp (q_of h) len = 1
     | HAll => clamp (q_of h) len = N.max len 1
     | HN n => (Npos n <= len -> clamp (q_of h) len = Npos n) /\
               (1 <= len -> len <= Npos n -> clamp (q_of h) len = len) /\
               (len = 0 -> clamp (q_of h) len = 1)
     end) /\
  (forall h, q_of h <> QN 0) /\ (forall c, qdecode c <> QN 0)).
Check (C16_success_needs_a_send :
  forall g m es q,
  fresh_ids [] es -> cmds_ok g es ->
  (forall qr, find_quorum q es = Some qr -> qr <> QN 0) ->
  let outs := snd (run g (st0 m) es) in
  In (OPutSuccess q) outs \/ In (OProvSuccess q) outs ->
  exists targets p, In (OTrack q targets) outs /\ In p targets /\ In (q, p) (put_sends g (st0 m) es)).
Check (C16_handle_quorum_honest :
  forall wc m cap ops q,
  keys_ok wc -> ops_ok (wc_g wc) ops ->
  let us := snd (fst (hrun (h0 cap) ops)) in
  let W0 := w0 wc m (length (lkey wc)) in
  let outs := snd (crun wc W0 us) in
  let es := elabs wc W0 us in
  In (OPutSuccess q) outs \/ In (OProvSuccess q) outs ->
  exists targets qr S,
    find_quorum q es = Some qr /\ qr <> QN 0 /\ In (OTrack q targets) outs /\ NoDup S /\
    clamp qr (N.of_nat (length targets)) <= N.of_nat (length S) /\ (1 <= length S)%nat /\
    (forall p, In p S -> In (q, p) (put_sends (wc_g wc) (st0 m) es) /\ In p targets)).
Check (C16_compose_bounded_time :
  forall wc m D us0 ua u ub,
  1 <= g_alpha (wc_g wc) ->
  let W0 := w0 wc m (length (lkey wc)) in
  let w1 := fst (crun wc W0 us0) in
  let es1 := elabs wc w1 (ua ++ u :: ub) in
  is_tick (fst (fst (elab wc (fst (crun wc w1 ua)) u))) = false ->
  fair_run (wc_g wc) (w_st w1) es1 ->
  timed D (wc_g wc) (w_st w1) (restamp (now (w_st w1)) [] (okeys (w_st w1))) es1 ->
  now (w_st (fst (crun wc w1 ua))) <= now (w_st w1) + D * N.of_nat (S (length (work (elabs wc w1 ua))))).
Check (C16_compose_bounded_time_budget :
  forall wc m D U us0 ua u ub,
  keys_ok wc -> 1 <= g_alpha (wc_g wc) ->
  (forall p, In p (UNKNOWN :: map fst (wc_keys wc)) -> In p U) ->
  ufresh [] (us0 ++ ua ++ u :: ub) -> Forall (ucmd_ok (wc_g wc)) us0 -> Forall (uev_in_U U) (us0 ++ ua ++ u :: ub) ->
  let W0 := w0 wc m (length (lkey wc)) in
  let w1 := fst (crun wc W0 us0) in
  let es1 := elabs wc w1 (ua ++ u :: ub) in
  is_tick (fst (fst (elab wc (fst (crun wc w1 ua)) u))) = false ->
  fair_run (wc_g wc) (w_st w1) es1 ->
  timed D (wc_g wc) (w_st w1) (restamp (now (w_st w1)) [] (okeys (w_st w1))) es1 ->
  now (w_st (fst (crun wc w1 ua))) <= now (w_st w1) + D * N.of_nat (budget (length U) (wc_g wc) (elabs wc W0 us0))).
Check (C16_link_service_feasible :
  (forall ka T n0 tr,
     V.Ts.Proofs.nowrap (V.Ts.Model.init ka T n0) tr -> feasible_along (V.Ts.Model.init ka T n0) [] tr) /\
  (forall m os s16 p id,
     step_feasible m os -> psub s16 = m -> In (V.Ts.Model.OSub p (Some id)) os -> feasible s16 (EOpened p id))).
Check (C16_link_dial_answers :
  forall s p a acts,
  aget p (pdial s) = Some (a :: acts) ->
  productive s (EDialFail p) /\
  (aget p (conn s) = None -> aget p (peers s) = None -> forall alive, productive s (EEstablished p alive))).
Check (C16_default_config :
  1 <= V.gen.Consts.PARALLELISM_FACTOR /\ 0 < V.gen.Consts.KAD_READ_TIMEOUT_SECS /\
  0 < V.gen.Consts.KAD_WRITE_TIMEOUT_SECS).
Check (C16_service_open_wait_unbounded :
  forall D,
  V.Ts.Model.feasible 2 V.Ts.Model.env0 (V.Ts.Model.init true 1000 0) (V.Link.C16_Time.wait_tr D) = true /\
  In (V.Ts.Model.OCmd 1 0) (concat (V.Ts.Model.run (V.Ts.Model.init true 1000 0) (V.Link.C16_Time.wait_tr D))) /\
  V.Ts.Model.pfind 0 (V.Ts.Model.s_pend (V.Ts.Model.final (V.Ts.Model.init true 1000 0) (V.Link.C16_Time.wait_tr D))) = Some (0, 1) /\
  V.Ts.Model.s_now (V.Ts.Model.final (V.Ts.Model.init true 1000 0) (V.Link.C16_Time.wait_tr D)) = D /\
  V.Ts.Answers.ans_ids (concat (V.Ts.Model.run (V.Ts.Model.init true 1000 0) (V.Link.C16_Time.wait_tr D))) = [] /\
  0 < V.Ts.Model.strong (V.Ts.Model.final (V.Ts.Model.init true 1000 0) (V.Link.C16_Time.wait_tr D)) 1).
