From Coq Require Import List NArith Bool.
From V.gen Require Consts.
From V.C12 Require Import Model Proofs Inv2 Async Sched Progress Live.
From V.C11 Require Model PAlt.
From V.Link Require C11_C12.
Import ListNotations.
Open Scope N_scope.
From V.C12 Require Import Properties.
Check (C12_per_mode_fifo :
  forall (c : cfg) (hs : list (list bool)) (ts : list step) (x : bool) (k : N) (m : bool),
    let s := final c hs ts in
    prefix (proj k m (e_del (gl s (negb x)))) (proj k m (e_acc (gl s x)))).
Check (C12_pending_prefix :
  forall (c : cfg) (hs : list (list bool)) (ts : list step) (x : bool) (k : N) (m : bool),
    let s := final c hs ts in
    prefix (proj k m (e_del (gl s (negb x))) ++
            (if dead_for s (negb x) k then [] else proj k m (e_nq (hn s (negb x)))) ++
            (if (k =? per s) && reading s (negb x) then proj k m (carrier (glo s x)) else []))
           (proj k m (e_acc (gl s x)))).
Check (C12_no_loss_while_open :
  forall (c : cfg) (hs : list (list bool)) (ts : list step) (x : bool) (m : bool),
    let s := final c hs ts in
    killed s = false -> e_alive (cn s x) = true -> reading s (negb x) = true ->
    proj (per s) m (e_acc (gl s x)) =
    proj (per s) m (e_del (gl s (negb x)) ++ e_nq (hn s (negb x)) ++ carrier (glo s x) ++ e_sk (cn s x) ++
                    opt_list (e_cur (cn s x)) ++ e_sq (cn s x) ++ e_aq (cn s x))).
Check (C12_directions_independent :
  forall (c : cfg) (s : st) (t : step) (x : bool), is_send_of x t = true ->
    dview (fst (do_step c s t)) (negb x) = dview s (negb x)).
Check (C12_reopen_order :
  forall (c : cfg) (hs : list (list bool)) (ts : list step) (x : bool),
    mono_from 0 (e_del (gl (final c hs ts) x))).
Check (C12_stream_confinement :
  forall (c : cfg) (hs : list (list bool)) (ts : list step) (x : bool),
    let s := final c hs ts in
    e_dper (gl s x) = map (fun n => Some (n_per n)) (e_del (gl s x))).
Check (C12_unrepaired_filter_refuted :
  let s := final refute_cfg [] refute_steps in
  e_peers (hn s false) = Some 2 /\
  snd (h_poll_gen false refute_cfg false 128 s) = UNotif (mkN true 1 true 7 8) /\
  snd (h_poll refute_cfg false 128 s) = UPending).
Check (C12_events_alternate :
  forall (c : cfg) (hs : list (list bool)) (ts : list step) (x : bool),
    let s := final c hs ts in
    alt_state false (e_seen (gl s x) ++ e_evs (hn s x)) = Some (e_alive (cn s x))).
Check (C12_sync_nonblocking :
  forall (c : cfg) (x : bool) (s : st) (t l : N),
  let '(s', r) := send_sync c x s t l in
  gep s' (negb x) = gep s (negb x) /\ lAB s' = lAB s /\ lBA s' = lBA s /\
  e_ws (hn s' x) = e_ws (hn s x) /\ e_aq (cn s' x) = e_aq (cn s x) /\
  match e_peers (hn s x) with
  | None => r = 3 /\ s' = s
  | Some k =>
      if live s x k then
        if len (e_sq (cn s x)) <? c_s (ecf c x)
        then r = 0 /\ e_sq (cn s' x) = e_sq (cn s x) ++ [mkN x k true t l] /\
             e_acc (gl s' x) = e_acc (gl s x) ++ [mkN x k true t l] /\
             e_fclog (gl s' x) = e_fclog (gl s x) /\ e_cmds (hn s' x) = e_cmds (hn s x)
        else r = 1 /\ cn s' x = cn s x /\ e_acc (gl s' x) = e_acc (gl s x) /\ e_clog (hn s' x) = true /\
             (if e_clog (hn s x) || negb (e_cmds (hn s x) <? c_c (ecf c x))
              then e_fclog (gl s' x) = e_fclog (gl s x) /\ e_cmds (hn s' x) = e_cmds (hn s x)
              else e_fclog (gl s' x) = e_fclog (gl s x) ++ [k] /\ e_cmds (hn s' x) = e_cmds (hn s x) + 1)
      else r = 2 /\ s' = s
  end).
Check (C12_sink_sync_nonblocking :
  forall (c : cfg) (x : bool) (s : st) (k t l : N),
  let '(s', r) := sink_sync c x s k t l in
  gep s' (negb x) = gep s (negb x) /\ lAB s' = lAB s /\ lBA s' = lBA s /\
  hn s' x = hn s x /\ e_aq (cn s' x) = e_aq (cn s x) /\
  e_fclog (gl s' x) = e_fclog (gl s x) /\
  if live s x k then
    if len (e_sq (cn s x)) <? c_s (ecf c x)
    then r = 0 /\ e_sq (cn s' x) = e_sq (cn s x) ++ [mkN x k true t l] /\
         e_acc (gl s' x) = e_acc (gl s x) ++ [mkN x k true t l]
    else r = 1 /\ s' = s
  else r = 2 /\ s' = s).
Check (C12_clog_once :
  forall (c : cfg) (hs : list (list bool)) (ts : list step) (x : bool),
    NoDup (e_fclog (gl (final c hs ts) x))).
Check (C12_force_close_closes :
  forall (c : cfg) (s : st) (x : bool) (ts : list step) (z : bool) (b : N),
    e_cmds (hn s x) <> 0 ->
    let s' := fst (run c s (SCmd x :: ts ++ [SConn z b])) in
    per s' = per s -> e_alive (cn s' z) = false).
Check (C12_async_send :
  forall (c : cfg) (x : bool) (s : st) (id t l : N),
  let '(s', r) := async_start c x s id t l in
  gep s' (negb x) = gep s (negb x) /\ lAB s' = lAB s /\ lBA s' = lBA s /\ e_sq (cn s' x) = e_sq (cn s x) /\
  match find_w id (e_ws (hn s x)) with
  | Some _ => r = 5 /\ s' = s
  | None =>
      match e_peers (hn s x) with
      | None => r = 3 /\ s' = s
      | Some k =>
          let n := mkN x k false t l in
          if live s x k then
            if 0 <? afree (ecf c x) (cn s x) (e_ws (hn s x))
            then r = 0 /\ e_aq (cn s' x) = e_aq (cn s x) ++ [n] /\ e_ws (hn s' x) = e_ws (hn s x) /\
                 e_acc (gl s' x) = e_acc (gl s x) ++ [n]
            else r = 4 /\ e_aq (cn s' x) = e_aq (cn s x) /\ e_ws (hn s' x) = e_ws (hn s x) ++ [mkW id n false] /\
                 e_acc (gl s' x) = e_acc (gl s x)
          else r = 2 /\ e_aq (cn s' x) = e_aq (cn s x) /\ e_ws (hn s' x) = e_ws (hn s x) /\
               e_acc (gl s' x) = e_acc (gl s x)
      end
  end).
Check (C12_async_completion :
  forall (x : bool) (s : st) (id : N),
  let '(s', r) := async_poll x s id in
  gep s' (negb x) = gep s (negb x) /\ lAB s' = lAB s /\ lBA s' = lBA s /\ e_sq (cn s' x) = e_sq (cn s x) /\
  match find_w id (e_ws (hn s x)) with
  | None => r = 5 /\ s' = s
  | Some w =>
      if wlive (cn s x) w then
        if w_asg w
        then r = 0 /\ e_aq (cn s' x) = e_aq (cn s x) ++ [w_n w] /\ e_acc (gl s' x) = e_acc (gl s x) ++ [w_n w] /\
             e_ws (hn s' x) = remove_w id (e_ws (hn s x))
        else r = 4 /\ s' = s
      else r = 2 /\ e_aq (cn s' x) = e_aq (cn s x) /\ e_acc (gl s' x) = e_acc (gl s x) /\
           e_ws (hn s' x) = remove_w id (e_ws (hn s x))
  end).
Check (C12_async_capacity :
  forall (c : cfg) (hs : list (list bool)) (ts : list step) (x : bool),
    let s := final c hs ts in
    len (e_aq (cn s x)) + held (cn s x) (e_ws (hn s x)) <= c_a (ecf c x)).
Check (C12_async_waits :
  forall (c : cfg) (hs : list (list bool)) (ts : list step) (x : bool),
    let s := final c hs ts in
    afree (ecf c x) (cn s x) (e_ws (hn s x)) = 0 <->
    len (e_aq (cn s x)) + held (cn s x) (e_ws (hn s x)) = c_a (ecf c x)).
Check (C12_async_work_conserving :
  forall (c : cfg) (hs : list (list bool)) (ts : list step) (x : bool),
    let s := final c hs ts in
    0 < afree (ecf c x) (cn s x) (e_ws (hn s x)) ->
    Forall (fun w => ua (e_per (cn s x)) (e_alive (cn s x)) w = false) (e_ws (hn s x))).
Check (C12_async_fifo_handover :
  forall (c : cfg) (hs : list (list bool)) (ts : list step) (x : bool),
    let s := final c hs ts in
    srt (e_per (cn s x)) (e_alive (cn s x)) (e_ws (hn s x))).
Check (C12_async_drop_returns_permit :
  forall (c : cfg) (hs : list (list bool)) (ts : list step) (x : bool) (id : N) (w : waiter),
    let s := final c hs ts in
    find_w id (e_ws (hn s x)) = Some w -> w_asg w = true -> wlive (cn s x) w = true ->
    let s' := fst (async_drop c x s id) in
    e_aq (cn s' x) = e_aq (cn s x) /\ e_acc (gl s' x) = e_acc (gl s x) /\
    if existsb (ua (e_per (cn s x)) (e_alive (cn s x))) (e_ws (hn s x))
    then held (cn s' x) (e_ws (hn s' x)) = held (cn s x) (e_ws (hn s x)) /\
         afree (ecf c x) (cn s' x) (e_ws (hn s' x)) = afree (ecf c x) (cn s x) (e_ws (hn s x))
    else held (cn s' x) (e_ws (hn s' x)) + 1 = held (cn s x) (e_ws (hn s x)) /\
         afree (ecf c x) (cn s' x) (e_ws (hn s' x)) = afree (ecf c x) (cn s x) (e_ws (hn s x)) + 1).
Check (C12_oversize_never_delivered :
  forall (c : cfg) (hs : list (list bool)) (ts : list step) (x : bool),
    Forall (fun n => n_len n <= c_max (ecf c x) /\ n_len n <= c_max (ecf c (negb x)))
           (e_del (gl (final c hs ts) x))).
Check (C12_reserve_before_read :
  forall (c : cfg) (hs : list (list bool)) (ts : list step) (x : bool),
    let s := final c hs ts in
    len (e_nq (hn s x)) + b2n (e_res (cn s x)) <= c_n (ecf c x)).
Check (C12_no_read_without_slot :
  forall (c : cfg) (x : bool) (b : N) (s : st),
    e_alive (cn s x) = true -> can_reserve c x s = false ->
    let s' := conn_poll c x b s in
    carrier (glo s' (negb x)) = carrier (glo s (negb x)) /\ e_nq (hn s' x) = e_nq (hn s x)).
Check (C12_outbound_progress :
  forall (c : cfg) (x : bool) (b : N) (s : st),
  e_alive (cn s x) = true -> wgate (glo s x) = true -> qlen s x < b ->
  Forall (fun n => n_len n <= c_max (ecf c x)) (opt_list (e_cur (cn s x)) ++ e_sq (cn s x) ++ e_aq (cn s x)) ->
  let '(s1, refused) := out_phase c x b s in
  refused = false /\ e_cur (cn s1 x) = None /\ e_sq (cn s1 x) = [] /\ e_aq (cn s1 x) = [] /\ e_sk (cn s1 x) = [] /\
  (Forall (fun n => n_sync n = true) (e_sq (cn s x)) -> Forall (fun n => n_sync n = false) (e_aq (cn s x)) ->
   forall k m, proj k m (carrier (glo s1 x)) = proj k m (pipe s x))).
Check (C12_inbound_progress :
  forall (c : cfg) (y : bool) (b : N) (s : st) (n : notif) (rest : list notif),
  e_alive (cn s y) = true -> e_shut (cn s y) = false -> killed s = false -> qlen s y < b ->
  snd (out_phase c y b s) = false -> can_reserve c y s = true ->
  rgate (glo s (negb y)) = true -> carrier (glo s (negb y)) = n :: rest -> n_len n <= c_max (ecf c y) ->
  exists more, e_nq (hn (conn_poll c y b s) y) = e_nq (hn s y) ++ n :: more).
Check (C12_handle_progress :
  forall (c : cfg) (y : bool) (s : st) (k : N) (n : notif) (q : list notif) (b : N),
  e_evs (hn s y) = [] -> e_peers (hn s y) = Some k -> e_nq (hn s y) = n :: q -> n_per n = k -> b <> 0 ->
  let '(s', e) := h_poll c y b s in
  e = UNotif n /\ e_nq (hn s' y) = q /\ e_del (gl s' y) = e_del (gl s y) ++ [n]).
Check (C12_eventual_delivery :
  forall (c : cfg) (hs : list (list bool)) (ts : list step) (b : N) (n : nat),
    let s := final c hs ts in
    drainable c b s -> (under_way s <= n)%nat ->
    let s' := final c hs (ts ++ fair_rounds b n) in
    drainable c b s' /\ under_way s' = O /\
    forall x m, proj (per s) m (e_del (gl s' (negb x))) = proj (per s) m (e_acc (gl s x))).
Check (C12_fair_round_progress :
  forall (c : cfg) (b : N) (s : st), drainable c b s ->
    let s' := fst (run c s (fair_round b)) in
    drainable c b s' /\ same_acc s s' /\
    (under_way s' <= under_way s)%nat /\ (under_way s <> O -> (under_way s' < under_way s)%nat)).
Check (C12_first_delivered_is_first_accepted :
  forall (c : cfg) (hs : list (list bool)) (ts : list step) (x : bool) (k : N) (m : bool) (n : notif) (rest : list notif),
    let s := final c hs ts in
    proj k m (e_del (gl s (negb x))) = n :: rest ->
    exists rest', proj k m (e_acc (gl s x)) = n :: rest').
Check (C12_quiescence_is_a_schedule :
  forall (c : cfg) (hs : list (list bool)) (xs : list action),
    exists ts, arun c 0 (init hs) xs = final c hs ts).
Check (C12_setup_condition_not_provided_by_C11 :
  let r := V.C11.Model.run V.C11.PAlt.cfg_w V.C11.Model.init V.Link.C11_C12.w_reopen_while_closing in
  let s := V.C11.PAlt.last_state V.C11.PAlt.cfg_w V.Link.C11_C12.w_reopen_while_closing in
  snd r = true /\
  V.C11.PAlt.events (fst r) =
    [V.C11.Model.UOpened 0 V.C11.Model.DOut; V.C11.Model.UClosed 0; V.C11.Model.UValidate 0;
     V.C11.Model.UOpened 0 V.C11.Model.DIn] /\
  V.C11.Model.ps s 0 = Some (V.C11.Model.Open 1) /\
  V.C11.Model.tasks s = [V.C11.Model.mkTask 0 0 (Some false) true; V.C11.Model.mkTask 1 0 None false]).
From Coq Require Import List NArith Bool.
From V.C12 Require Import Start StartProofs.
From V.gen Require C12Tables.
From V.C04 Require Model Proofs.
From V.Link Require C04_C12.
Import ListNotations.
Open Scope N_scope.
From V.C12 Require Import StartProperties.
Check (C12_start_invariant :
  forall (auto : bool) (l : list op), Inv (final true auto l)).
Check (C12_start_inbound_clean :
  forall (auto : bool) (l : list op) (t : task), In t (tasks (final true auto l)) ->
    exists h, s_hs (t_in t) = [h] /\ s_cn (t_in t) = t_fwd t /\
              s_hist (t_in t) = h :: t_fwd t ++ s_wire (t_in t) /\ s_out (t_in t) = [LOCAL_HS]).
Check (C12_start_outbound_clean :
  forall (auto : bool) (l : list op) (t : task), In t (tasks (final true auto l)) ->
    exists h q, s_out (t_out t) = LOCAL_HS :: q /\ s_ohs (t_out t) = 1 /\ s_hs (t_out t) = [h] /\
                s_hist (t_out t) = h :: s_wire (t_out t)).
Check (C12_start_first_forwarded_is_first_sent :
  forall (auto : bool) (l : list op) (t : task) (H : frame) (ns : list frame),
    In t (tasks (final true auto l)) -> s_hist (t_in t) = H :: ns ->
    s_hs (t_in t) = [H] /\ prefix (t_fwd t) ns).
Check (C12_start_end_to_end :
  forall (autoa autob : bool) (la lb : list op) (ta tb : task),
    In ta (tasks (final true autoa la)) -> In tb (tasks (final true autob lb)) ->
    prefix (s_hist (t_in tb)) (s_out (t_out ta)) ->
    exists q, s_out (t_out ta) = LOCAL_HS :: q /\ s_hs (t_in tb) = [LOCAL_HS] /\ prefix (t_fwd tb) q).
Check (C12_start_validated_handshake :
  forall (auto : bool) (l : list op) (p : peer) (d : bool) (o : outb) (y : sub) (h : frame),
    ps (final true auto l) p = Some (Validating d o (IValidating y h)) ->
    s_hs y = [h] /\ s_hist y = h :: s_wire y).
Check (C12_start_ready_belongs :
  forall (auto : bool) (l : list op) (p : peer) (o : bool) (h : frame),
    In (p, o, h) (ready (final true auto l)) ->
    exists e, hget (final true auto l) p o = Some e /\ (s_hs (e_sub e) = [h] \/ (o = false /\ h = EMPTY))).
Check (C12_start_stale_ready_refuted :
  user_events false w_stale_in =
    [UFail 0 E_REJECTED; UValidate 0 100; UOpened 0 false 200; UNotif 0 101; UNotif 0 7] /\
  task_view false w_stale_in = [([101; 7], [], [101; 7])]).
Check (C12_start_stale_ready_sender_refuted :
  map (fun t => (s_out (t_out t), s_hs (t_out t))) (tasks (final false false w_stale_out)) = [([9], [])] /\
  In (UOpened 0 true 200) (user_events false w_stale_out)).
Check (C12_start_witnesses_repaired :
  (user_events true w_stale_in = [UFail 0 E_REJECTED; UValidate 0 101; UOpened 0 false 200; UNotif 0 7] /\
   task_view true w_stale_in = [([101; 7], [101], [7])]) /\
  (map (fun t => (s_out (t_out t), s_hs (t_out t))) (tasks (final true false w_stale_out)) = [([LOCAL_HS; 9], [201])] /\
   In (UOpened 0 true 201) (user_events true w_stale_out))).
Check (C12_start_closing_is_silent :
  forall (s : st) (k : N) (t : task),
    find_task k (tasks s) = Some t -> t_alive t = true -> t_running t = false ->
    exists t', find_task k (tasks (task_poll s k)) = Some t' /\ same_io t t').
Check (C12_start_handle_gone_closes :
  forall (s : st) (k : N) (t : task),
    find_task k (tasks s) = Some t -> t_ph t = PRun -> hdrop s = true -> t_res t = false ->
    exists t', find_task k (tasks (task_poll s k)) = Some t' /\ t_running t' = false /\
               t_in t' = t_in t /\ t_fwd t' = t_fwd t).
Check (C12_tables_in_sync :
  C12Tables.select_biased = true /\ C12Tables.select_order = [1; 2; 3; 4; 5; 6] /\
  C12Tables.conn_poll_order = [1; 2; 3; 4; 5] /\ C12Tables.close_order = [1; 2; 3; 4; 5] /\
  C12Tables.handle_order = [1; 2] /\
  C12Tables.notification_errors = 6 /\ C12Tables.sync_closed_maps_to = 1 /\ C12Tables.sync_full_maps_to = 2 /\
  C12Tables.sync_uses_try_send = true /\ C12Tables.async_uses_send = true /\
  C12Tables.forget_sites = [true; true; true; true; true] /\
  1 <= C12Tables.C12_SYNC_CHANNEL_SIZE /\ 1 <= C12Tables.C12_ASYNC_CHANNEL_SIZE /\
  1 <= C12Tables.C12_NEGOTIATION_TIMEOUT_SECS).
Check (C12_start_carrier_prefix_linked :
  forall (enc : frame -> list N), (forall a b, enc a = enc b -> a = b) ->
  forall (c : V.C04.Model.codec) (written received : list frame) (cut : nat)
         (script : list V.C04.Model.rdev) (polls : nat) outs st' wire' script',
    V.C04.Proofs.Fits c (map enc written) ->
    V.C04.Model.run_reader polls c (V.C04.Model.init_r c)
      (firstn cut (V.C04.Model.wire_of c (map enc written))) script = (outs, st', wire', script') ->
    map enc received = V.C04.Model.frames_of outs ->
    prefix received written).
Check (C12_start_end_to_end_linked :
  forall (enc : frame -> list N), (forall a b, enc a = enc b -> a = b) ->
  forall (c : V.C04.Model.codec) (autoa autob : bool) (la lb : list op) (ta tb : task)
         (cut : nat) (script : list V.C04.Model.rdev) (polls : nat) outs st' wire' script',
    In ta (tasks (final true autoa la)) -> In tb (tasks (final true autob lb)) ->
    V.C04.Proofs.Fits c (map enc (s_out (t_out ta))) ->
    V.C04.Model.run_reader polls c (V.C04.Model.init_r c)
      (firstn cut (V.C04.Model.wire_of c (map enc (s_out (t_out ta))))) script = (outs, st', wire', script') ->
    map enc (s_hist (t_in tb)) = V.C04.Model.frames_of outs ->
    exists q, s_out (t_out ta) = LOCAL_HS :: q /\ s_hs (t_in tb) = [LOCAL_HS] /\ prefix (t_fwd tb) q).
Check (C12_start_enc_satisfiable :
  (forall a b, V.Link.C04_C12.enc_example a = V.Link.C04_C12.enc_example b -> a = b) /\
  V.Link.C04_C12.enc_example EMPTY = []).
