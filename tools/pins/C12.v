From Coq Require Import List NArith Bool.
From V.gen Require Consts.
From V.C12 Require Import Model Proofs.
Import ListNotations.
Open Scope N_scope.
From V.C12 Require Import Properties.
Check (C12_per_mode_fifo :
  forall (c : cfg) (hs : list (list bool)) (xs : list action) (k : N) (m : bool),
    prefix (proj k m (delivered (sg (final c hs xs)))) (proj k m (accepted (sg (final c hs xs))))).
Check (C12_pending_prefix :
  forall (c : cfg) (hs : list (list bool)) (xs : list action) (k : N) (m : bool),
    let s := final c hs xs in
    prefix (proj k m (delivered (sg s) ++ notifq (sb s))) (proj k m (accepted (sg s)))).
Check (C12_no_loss_while_open :
  forall (c : cfg) (hs : list (list bool)) (xs : list action) (m : bool),
    let s := final c hs xs in
    a_alive (sa s) = true -> b_alive (sb s) = true ->
    proj (per s) m (accepted (sg s)) =
    proj (per s) m (delivered (sg s) ++ notifq (sb s) ++ carrier (sl s) ++ sink (sa s) ++
                    opt_list (parked (sa s)) ++ syncq (sa s) ++ asyncq (sa s))).
Check (C12_sync_nonblocking :
  forall (c : cfg) (s : st) (t l : N),
  let '(s', r) := send_sync c s t l in
  waiters (sa s') = waiters (sa s) /\
  match a_sink (sh s) with
  | None => r = 3 /\ s' = s
  | Some k =>
      if live s k then
        if len (syncq (sa s)) <? cap_s c
        then r = 0 /\ syncq (sa s') = syncq (sa s) ++ [mkN k true t l] /\
             accepted (sg s') = accepted (sg s) ++ [mkN k true t l] /\ fclog (sg s') = fclog (sg s)
        else r = 1 /\ sa s' = sa s /\ accepted (sg s') = accepted (sg s) /\ a_clogged (sh s') = true /\
             fclog (sg s') = (if a_clogged (sh s) then fclog (sg s) else fclog (sg s) ++ [k])
      else r = 2 /\ s' = s
  end).
Check (C12_clog_once :
  forall (c : cfg) (hs : list (list bool)) (xs : list action),
    NoDup (fclog (sg (final c hs xs)))).
Check (C12_async_send :
  forall (s : st) (t l : N),
  let '(s', r) := send_async s t l in
  accepted (sg s') = accepted (sg s) /\ syncq (sa s') = syncq (sa s) /\ asyncq (sa s') = asyncq (sa s) /\
  match a_sink (sh s) with
  | None => r = 3 /\ s' = s
  | Some k => r = 0 /\
      if live s k then waiters (sa s') = waiters (sa s) ++ [mkN k false t l] /\ async_err (sg s') = async_err (sg s)
      else waiters (sa s') = waiters (sa s) /\ async_err (sg s') = async_err (sg s) + 1
  end).
Check (C12_async_waits :
  forall (c : cfg) (s : st),
  a_alive (sa s) = true ->
  let s' := fst (a_round c s) in
  a_alive (sa s') = true -> waiters (sa s') = [] \/ cap_a c <= len (asyncq (sa s'))).
Check (C12_oversize_never_delivered :
  forall (c : cfg) (hs : list (list bool)) (xs : list action), 1 <= cap_n c ->
    Forall (fun n => n_len n <= max_out c /\ n_len n <= max_in c) (delivered (sg (final c hs xs)))).
Check (C12_reserve_before_read :
  forall (c : cfg) (hs : list (list bool)) (xs : list action), 1 <= cap_n c ->
    let s := final c hs xs in
    len (notifq (sb s)) + (if reserved (sb s) then 1 else 0) <= cap_n c).
Check (C12_no_read_without_slot :
  forall (c : cfg) (s : st),
    b_alive (sb s) = true -> reserved (sb s) = false -> cap_n c <= len (notifq (sb s)) ->
    forall fuel, b_run fuel c s = s).
Check (C12_reopen_order :
  forall (c : cfg) (hs : list (list bool)) (xs : list action), 1 <= cap_n c ->
    mono_from 0 (delivered (sg (final c hs xs)))).
