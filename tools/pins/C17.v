From Coq Require Import List NArith Bool Sorted.
From V.gen Require Consts.
From V.C17 Require Import Model Proofs Timed TimedProofs Ingress IngressProofs.
From V.C17 Require Glue GlueProofs.
Import ListNotations.
Open Scope N_scope.
From V.C17 Require Import Properties.
Check (C17_bounds_sorted :
  forall (c : cfg), 1 <= max_per_key c -> forall (h : list (op * N)), Inv c (final c h)).
Check (C17_step_preserves :
  forall (c : cfg), 1 <= max_per_key c ->
  forall s o now, Inv c s -> Inv c (fst (step c s o now))).
Check (C17_get_fresh :
  forall s k now r, snd (get s k now) = Some r ->
    r_key r = k /\ rec_expired r now = false /\ In r (recs s)).
Check (C17_get_providers_fresh :
  forall s k now, Forall (fun p => prov_expired p now = false) (snd (get_providers s k now))).
Check (C17_get_pure :
  forall s k now,
  let s' := fst (get s k now) in
  pkeys s' = pkeys s /\ locals s' = locals s /\
  forall k', find_rec k' (recs s') =
             match find_rec k' (recs s) with
             | Some r => if (k' =? k) && rec_expired r now then None else Some r
             | None => None
             end).
Check (C17_get_providers_pure :
  forall s k now,
  let s' := fst (get_providers s k now) in
  recs s' = recs s /\ locals s' = locals s /\
  forall k', find_pk k' (pkeys s') =
             match find_pk k' (pkeys s) with
             | Some ps =>
                 if k' =? k
                 then match filter (fun p => negb (prov_expired p now)) ps with
                      | [] => None | ps' => Some ps' end
                 else Some ps
             | None => None
             end).
Check (C17_ttl_monotone :
  forall c s r old t t',
  find_rec (r_key r) (recs s) = Some old -> r_exp old = Some t -> r_exp r = Some t' ->
  t' < t -> put c s r = s).
Check (C17_put_lookup :
  forall c s r,
  find_rec (r_key r) (recs (put c s r)) =
    (if max_size c <=? r_len r then find_rec (r_key r) (recs s)
     else match find_rec (r_key r) (recs s) with
          | Some old =>
              match r_exp old, r_exp r with
              | Some t_old, Some t_new => if t_new <? t_old then Some old else Some r
              | _, _ => Some r
              end
          | None => if max_records c <=? N.of_nat (length (recs s)) then None else Some r
          end)).
Check (C17_put_other :
  forall c s r k, k <> r_key r ->
  find_rec k (recs (put c s r)) = find_rec k (recs s) /\
  pkeys (put c s r) = pkeys s /\ locals (put c s r) = locals s).
Check (C17_put_provider_spec :
  forall c s k pid dist naddr now ps,
  Inv c s -> 1 <= max_per_key c -> find_pk k (pkeys s) = Some ps ->
  let pr := mkProv pid dist (N.min naddr (max_addrs c)) (now + ttl c) in
  let '(s', ok) := put_provider c s k pid dist naddr now in
  find_pk k (pkeys s') = Some (spec_put (N.to_nat (max_per_key c)) pr ps) /\
  ok = existsb (fun p => (p_dist p =? dist) && (p_id p =? pid))
               (spec_put (N.to_nat (max_per_key c)) pr ps) /\
  (forall k', k' <> k -> find_pk k' (pkeys s') = find_pk k' (pkeys s)) /\
  recs s' = recs s /\ locals s' = locals s).
Check (C17_no_provider_twice :
  forall (d : N -> N -> N) c h,
  1 <= max_per_key c -> (forall k a b, d k a = d k b -> a = b) -> history_consistent d h ->
  Forall (fun kp => NoDup (map p_id (snd kp))) (pkeys (final c h))).
Check (C17_default_config :
  forall ttl h,
  Inv (mkCfg V.gen.Consts.DEFAULT_MAX_RECORDS V.gen.Consts.DEFAULT_MAX_RECORD_SIZE_BYTES
             V.gen.Consts.DEFAULT_MAX_PROVIDER_KEYS V.gen.Consts.DEFAULT_MAX_PROVIDER_ADDRESSES
             V.gen.Consts.DEFAULT_MAX_PROVIDERS_PER_KEY ttl)
      (final (mkCfg V.gen.Consts.DEFAULT_MAX_RECORDS V.gen.Consts.DEFAULT_MAX_RECORD_SIZE_BYTES
             V.gen.Consts.DEFAULT_MAX_PROVIDER_KEYS V.gen.Consts.DEFAULT_MAX_PROVIDER_ADDRESSES
             V.gen.Consts.DEFAULT_MAX_PROVIDERS_PER_KEY ttl) h)).
Check (C17_expiry_boundary_record :
  forall r now, rec_expired r now = true <-> exists t, r_exp r = Some t /\ t <= now).
Check (C17_expiry_boundary_provider :
  forall p now, prov_expired p now = true <-> p_exp p <= now).
Check (C17_get_complete :
  forall s k now r,
  snd (get s k now) = Some r <->
  find_rec k (recs s) = Some r /\ (forall t, r_exp r = Some t -> now < t)).
Check (C17_get_providers_complete :
  forall s k now p,
  In p (snd (get_providers s k now)) <->
  exists ps, find_pk k (pkeys s) = Some ps /\ In p ps /\ now < p_exp p).
Check (C17_provider_expiry :
  forall c s k pid dist naddr now ps' p,
  find_pk k (pkeys (fst (put_provider c s k pid dist naddr now))) = Some ps' ->
  In p ps' -> p_dist p = dist ->
  snd (put_provider c s k pid dist naddr now) = true ->
  Inv c s -> 1 <= max_per_key c ->
  p = mkProv pid dist (N.min naddr (max_addrs c)) (now + ttl c)).
Check (C17_timed_refines_store :
  forall c i h ts, ts_store (fst (trun c i ts h)) = fst (run c (ts_store ts) (erase_h h))).
Check (C17_timed_bounds_sorted :
  forall c i h, 1 <= max_per_key c -> Inv c (ts_store (tfinal c i h))).
Check (C17_history_fresh :
  forall c i h ts n o now x,
  nth_error h n = Some (o, now) -> nth_error (snd (trun c i ts h)) n = Some x -> out_fresh now x).
Check (C17_local_providers_sync :
  forall c i h, QSync (tfinal c i h)).
Check (C17_refresh_only_provided :
  forall c i h n now l k q,
  nth_error h n = Some (TPoll, now) ->
  nth_error (snd (trun c i empty_tstore h)) n = Some (TFired l) ->
  In (k, Some q) l ->
  exists tsn, In k (locals (ts_store tsn)) /\ find_q k (ts_quorum tsn) = Some q /\
              tsn = fst (trun c i empty_tstore (firstn n h))).
Check (C17_refresh_after_interval :
  forall c i h n now l k r,
  mono 0 h ->
  nth_error h n = Some (TPoll, now) ->
  nth_error (snd (trun c i empty_tstore h)) n = Some (TFired l) ->
  In (k, r) l ->
  exists m o dist b, (m < n)%nat /\ nth_error h m = Some (o, b) /\
    erase o = Some (OPutLocal k dist) /\
    nth_error (snd (trun c i empty_tstore h)) m = Some (TOut (RBool true)) /\
    b + i <= now).
Check (C17_poll_fires_all_due :
  forall c i ts now,
  Forall (fun t => exists d, tm_due t = Some d /\ now < d) (ts_timers (fst (tstep c i ts TPoll now)))).
Check (C17_refresh_future_count :
  forall c i ts o now,
  length (ts_timers (fst (tstep c i ts o now))) =
  match o with
  | TPoll => (length (ts_timers ts) - length (fired_timers i ts now))%nat
  | _ =>
      match erase o with
      | Some (OPutLocal k dist) =>
          if snd (put_local_provider c (ts_store ts) k dist now)
          then S (length (ts_timers ts)) else length (ts_timers ts)
      | _ => length (ts_timers ts)
      end
  end).
Check (C17_refresh_futures_unbounded :
  forall c i k dist q, 1 <= max_keys c ->
  forall n, length (ts_timers (tfinal c i (repeat (TPutLocal k dist q, 0) n))) = n).
Check (C17_loop_only_store_ops :
  forall kc h st, Reach (k_scfg kc) (kstore st) (kstore (fst (krun kc st h)))).
Check (C17_loop_bounds_sorted :
  forall kc h, 1 <= max_per_key (k_scfg kc) -> Inv (k_scfg kc) (kstore (kfinal kc h))).
Check (C17_loop_address_bound :
  forall kc h, 1 <= max_per_key (k_scfg kc) ->
  Forall (fun kp : N * list prov => Forall (fun p => p_naddr p <= WIRE_MAX_ADDRS) (snd kp))
         (pkeys (kstore (kfinal kc h)))).
Check (C17_manual_mode_no_remote_record :
  forall kc st e,
  ks_dead st = false -> remote e = true -> k_auto kc = false ->
  forall k r, find_rec k (recs (kstore (fst (kstep kc st e)))) = Some r ->
              find_rec k (recs (kstore st)) = Some r).
Check (C17_remote_adds_only_sender :
  forall kc st e from,
  ks_dead st = false ->
  match e with
  | KPutValue f _ _ _ _ _ | KAddProvider f _ _ | KGetValue f _ | KGetProviders f _ => f = from
  | _ => False
  end ->
  forall key ps' p, find_pk key (pkeys (kstore (fst (kstep kc st e)))) = Some ps' -> In p ps' ->
    (exists ps, find_pk key (pkeys (kstore st)) = Some ps /\ In p ps) \/ p_id p = from).
Check (C17_remote_keeps_local_registrations :
  forall kc st e,
  ks_dead st = false -> remote e = true ->
  ts_quorum (ks_t (fst (kstep kc st e))) = ts_quorum (ks_t st) /\
  locals (kstore (fst (kstep kc st e))) = locals (kstore st)).
Check (C17_served_record_fresh :
  forall kc st e key r ttl,
  ks_dead st = false ->
  (exists from, e = KGetValue from key) \/ e = KCmdGetRecord key ->
  snd (kstep kc st e) = KRec (Some (r, ttl)) ->
  r_key r = key /\ In r (recs (kstore st)) /\ rec_expired r (ks_now st) = false /\
  match ttl with Some d => exists t, r_exp r = Some t /\ ks_now st < t /\ d = t - ks_now st
               | None => r_exp r = None end).
Check (C17_served_providers_fresh :
  forall kc st from key l,
  ks_dead st = false ->
  snd (kstep kc st (KGetProviders from key)) = KProvs l ->
  exists ps, ps = snd (get_providers (kstore st) key (ks_now st)) /\
    l = map (fun p => (p_id p, serve_addrs kc p)) ps /\
    Forall (fun p => prov_expired p (ks_now st) = false) ps /\
    Forall (fun x : N * N => snd x <= WIRE_MAX_ADDRS) l).
Check (C17_loop_refresh_armed :
  forall kc st e,
  ks_dead st = false -> ks_dead (fst (kstep kc st e)) = false -> KArmed (fst (kstep kc st e))).
Check (C17_no_provider_twice_xor :
  forall (hk hp : N -> N) c h,
  1 <= max_per_key c -> (forall a b, hp a = hp b -> a = b) ->
  history_consistent (fun k p => N.lxor (hp p) (hk k)) h ->
  Forall (fun kp => NoDup (map p_id (snd kp))) (pkeys (final c h))).
Check (C17_default_refresh_before_expiry :
  V.gen.Consts.DEFAULT_PROVIDER_REFRESH_INTERVAL_SECS < V.gen.Consts.DEFAULT_PROVIDER_TTL_SECS /\
  V.gen.Consts.DEFAULT_MAX_PROVIDER_ADDRESSES <= V.gen.Consts.KAD_MAX_ADDRESSES).
Check (C17_source_tables_covered :
  V.gen.C17Tables.store_methods = model_store_methods /\
  V.gen.C17Tables.store_call_sites = model_call_sites /\
  V.gen.C17Tables.store_actions = [0] /\
  V.gen.C17Tables.quorum_variants = [0; 1; 2] /\
  V.gen.C17Tables.validation_modes = [0; 1] /\
  V.gen.C17Tables.config_fields = [0; 1; 2; 3; 4; 5; 6] /\
  V.gen.C17Tables.config_defaults = [(0, 0); (1, 1); (2, 2); (3, 3); (4, 4); (5, 5); (6, 6)] /\
  V.gen.C17Tables.builder_setters = [(0, 0); (1, 1); (2, 2); (3, 3); (4, 4); (5, 5); (6, 6)] /\
  V.gen.C17Tables.clock_reads = [1; 3]).
Check (C17_local_registrations_outlive_provider_keys :
  exists c i h,
    1 <= max_per_key c /\ max_keys c = 1 /\ mono 0 h /\
    length (pkeys (ts_store (tfinal c i h))) = 1%nat /\
    length (locals (ts_store (tfinal c i h))) = 2%nat /\
    length (ts_quorum (tfinal c i h)) = 2%nat).
Check (C17_oracle_invariant_sound :
  forall c s, V.C17.Glue.inv_b c s = true -> Inv c s).
Check (C17_oracle_invariant_complete :
  forall c s, Inv c s -> Forall (fun kp => NoDup (map p_id (snd kp))) (pkeys s) ->
  V.C17.Glue.inv_b c s = true).
Check (C17_oracle_spec_is_theorem_spec :
  forall n pr ps, V.C17.Glue.spec_put n pr ps = spec_put n pr ps).
