From Coq Require Import List NArith Bool Sorted.
From V.gen Require Consts.
From V.C17 Require Import Model Proofs.
Import ListNotations.
Open Scope N_scope.
From V.C17 Require Import Properties.
Check (C17_bounds_sorted :
  forall (c : cfg), 1 <= max_per_key c -> forall (h : list (op * N)), Inv c (final c h)).
Check (C17_step_preserves :
  forall (c : cfg), 1 <= max_per_key c ->
  forall s o now, Inv c s -> Inv c (fst (step c s o now))).
Check (C17_get_fresh :
  forall s k now r, snd (get s k now) = Some r ->
    r_key r = k /\ rec_expired r now = false /\ In r (recs s)).
Check (C17_get_providers_fresh :
  forall s k now, Forall (fun p => prov_expired p now = false) (snd (get_providers s k now))).
Check (C17_get_pure :
  forall s k now,
  let s' := fst (get s k now) in
  pkeys s' = pkeys s /\ locals s' = locals s /\
  forall k', find_rec k' (recs s') =
             match find_rec k' (recs s) with
             | Some r => if (k' =? k) && rec_expired r now then None else Some r
             | None => None
             end).
Check (C17_get_providers_pure :
  forall s k now,
  let s' := fst (get_providers s k now) in
  recs s' = recs s /\ locals s' = locals s /\
  forall k', find_pk k' (pkeys s') =
             match find_pk k' (pkeys s) with
             | Some ps =>
                 if k' =? k
                 then match filter (fun p => negb (prov_expired p now)) ps with
                      | [] => None | ps' => Some ps' end
                 else Some ps
             | None => None
             end).
Check (C17_ttl_monotone :
  forall c s r old t t',
  find_rec (r_key r) (recs s) = Some old -> r_exp old = Some t -> r_exp r = Some t' ->
  t' < t -> put c s r = s).
Check (C17_put_lookup :
  forall c s r,
  find_rec (r_key r) (recs (put c s r)) =
    (if max_size c <=? r_len r then find_rec (r_key r) (recs s)
     else match find_rec (r_key r) (recs s) with
          | Some old =>
              match r_exp old, r_exp r with
              | Some t_old, Some t_new => if t_new <? t_old then Some old else Some r
              | _, _ => Some r
              end
          | None => if max_records c <=? N.of_nat (length (recs s)) then None else Some r
          end)).
Check (C17_put_other :
  forall c s r k, k <> r_key r ->
  find_rec k (recs (put c s r)) = find_rec k (recs s) /\
  pkeys (put c s r) = pkeys s /\ locals (put c s r) = locals s).
Check (C17_put_provider_spec :
  forall c s k pid dist naddr now ps,
  Inv c s -> 1 <= max_per_key c -> find_pk k (pkeys s) = Some ps ->
  let pr := mkProv pid dist (N.min naddr (max_addrs c)) (now + ttl c) in
  let '(s', ok) := put_provider c s k pid dist naddr now in
  find_pk k (pkeys s') = Some (spec_put (N.to_nat (max_per_key c)) pr ps) /\
  ok = existsb (fun p => (p_dist p =? dist) && (p_id p =? pid))
               (spec_put (N.to_nat (max_per_key c)) pr ps) /\
  (forall k', k' <> k -> find_pk k' (pkeys s') = find_pk k' (pkeys s)) /\
  recs s' = recs s /\ locals s' = locals s).
Check (C17_no_provider_twice :
  forall (d : N -> N -> N) c h,
  1 <= max_per_key c -> (forall k a b, d k a = d k b -> a = b) -> history_consistent d h ->
  Forall (fun kp => NoDup (map p_id (snd kp))) (pkeys (final c h))).
Check (C17_default_config :
  forall ttl h,
  Inv (mkCfg V.gen.Consts.DEFAULT_MAX_RECORDS V.gen.Consts.DEFAULT_MAX_RECORD_SIZE_BYTES
             V.gen.Consts.DEFAULT_MAX_PROVIDER_KEYS V.gen.Consts.DEFAULT_MAX_PROVIDER_ADDRESSES
             V.gen.Consts.DEFAULT_MAX_PROVIDERS_PER_KEY ttl)
      (final (mkCfg V.gen.Consts.DEFAULT_MAX_RECORDS V.gen.Consts.DEFAULT_MAX_RECORD_SIZE_BYTES
             V.gen.Consts.DEFAULT_MAX_PROVIDER_KEYS V.gen.Consts.DEFAULT_MAX_PROVIDER_ADDRESSES
             V.gen.Consts.DEFAULT_MAX_PROVIDERS_PER_KEY ttl) h)).
