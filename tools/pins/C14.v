From Coq Require Import List Bool Arith NArith Permutation Sorted.
From V.gen Require Consts.
From V.C14 Require Import Model Proofs.
Import ListNotations.
From V.C14 Require Import Properties.
Check (C14_placement :
  forall local K h i n, wf_ops local h ->
  In n (nth i (reach local K h) []) -> real n = true ->
  length (n_key n) = length local /\ ilog2 (kxor local (n_key n)) = Some i /\ n_key n <> local).
Check (C14_dummy_has_no_address :
  forall local K h i n, wf_ops local h ->
  In n (nth i (reach local K h) []) -> real n = false -> n_key n = [] /\ n_addr n = false).
Check (C14_no_local :
  forall local K t o, op_key o = local ->
  fst (step local K t o) = t /\
  (snd (snd (step local K t o)) = 0 \/ snd (snd (step local K t o)) = 4)).
Check (C14_bucket_bound :
  forall local K h i, wf_ops local h -> length (nth i (reach local K h) []) <= K).
Check (C14_bucket_bound_20 :
  forall local h i, wf_ops local h ->
  length (nth i (reach local (N.to_nat Consts.K_BUCKET) h) []) <= 20).
Check (C14_constants :
  Consts.K_BUCKET = 20%N /\ Consts.NUM_BUCKETS = 256%N).
Check (C14_no_duplicate_peer :
  forall local K h i, wf_ops local h ->
  NoDup (map n_key (filter real (nth i (reach local K h) [])))).
Check (C14_step_preserves :
  forall local K t o, Inv local K t -> length (op_key o) = length local ->
  Inv local K (fst (step local K t o))).
Check (C14_connected_kept :
  forall local K t o j n,
  In n (nth j t []) -> protected n = true -> n_key n <> op_key o ->
  In n (nth j (fst (step local K t o)) [])).
Check (C14_bucket_order_keys :
  forall local tgt a b i j,
  length a = length local -> length b = length local -> length tgt = length local ->
  ilog2 (kxor local a) = Some i -> ilog2 (kxor local b) = Some j ->
  before (rev (kxor local tgt)) i j = true ->
  klt (kxor tgt a) (kxor tgt b) = true).
Check (C14_iter_terminates :
  forall d fuel, 1 <= length d -> 2 * length d + 3 <= fuel ->
  it_run (it_next (rev d)) (it_init d) fuel = bucket_order d).
Check (C14_iter_visits_all :
  forall d i, 1 <= length d -> (In i (bucket_order d) <-> i < length d)).
Check (C14_iter_order :
  forall d, 1 <= length d -> bit (rev d) 0 = false -> ilog2 d <> None ->
  Permutation (bucket_order d) (seq 0 (length d)) /\
  StronglySorted (fun i j => before (rev d) i j = true) (bucket_order d)).
Check (C14_iter_shape :
  forall d, 1 <= length d ->
  exists S C, visit (rev d) = S ++ C /\
    (bucket_order d = S ++ C \/ bucket_order d = S ++ 0 :: C) /\
    (bit (rev d) 0 = false -> ilog2 d <> None -> bucket_order d = S ++ C)).
Check (C14_visit_sorted_perm :
  forall r, Permutation (visit r) (seq 0 (length r)) /\
            StronglySorted (fun i j => before r i j = true) (visit r)).
Check (C14_iter_once_refuted :
  forall d, 1 <= length d -> bit (rev d) 0 = true \/ ilog2 d = None -> ~ NoDup (bucket_order d)).
Check (C14_closest_nodup_refuted :
  exists local h tgt k,
    wf_ops local h /\ length tgt = length local /\
    ~ NoDup (closest local (reach local 20 h) tgt k)).
Check (C14_closest_spec :
  forall local K t tgt k,
  1 <= length local -> Inv local K t -> length tgt = length local -> outside_class local t tgt ->
  exists full,
    Permutation full (filter n_addr (concat t)) /\
    StronglySorted (dlt tgt) full /\
    closest local t tgt k = firstn k full).
Check (C14_closest_exactly_k_closest :
  forall local K h tgt k,
  1 <= length local -> wf_ops local h -> length tgt = length local ->
  outside_class local (reach local K h) tgt ->
  let res := closest local (reach local K h) tgt k in
  let cands := filter n_addr (concat (reach local K h)) in
  StronglySorted (dlt tgt) res /\ NoDup (map n_key res) /\
  (forall n, In n res -> In n cands) /\
  length res = Nat.min k (length cands) /\
  (forall a b, In a res -> In b cands -> ~ In b res -> dlt tgt a b)).
