From Coq Require Import List Bool Arith NArith Permutation Sorted.
From V.gen Require Consts.
From Coq Require Import ZArith.
From V.C14 Require Import Model Proofs U256 GhostProofs AddrModel AddrProofs.
Import ListNotations.
From V.C14 Require Import Properties.
Check (C14_placement :
  forall local K h i n, wf_ops local h ->
  In n (nth i (reach local K h) []) -> real n = true ->
  length (n_key n) = length local /\ ilog2 (kxor local (n_key n)) = Some i /\ n_key n <> local).
Check (C14_dummy_has_no_address :
  forall local K h i n, wf_ops local h ->
  In n (nth i (reach local K h) []) -> real n = false -> n_key n = [] /\ n_addr n = false).
Check (C14_no_local :
  forall local K t o, op_key o = local ->
  fst (step local K t o) = t /\
  (snd (snd (step local K t o)) = 0 \/ snd (snd (step local K t o)) = 4)).
Check (C14_bucket_bound :
  forall local K h i, wf_ops local h -> length (nth i (reach local K h) []) <= K).
Check (C14_bucket_bound_20 :
  forall local h i, wf_ops local h ->
  length (nth i (reach local (N.to_nat Consts.K_BUCKET) h) []) <= 20).
Check (C14_constants :
  Consts.K_BUCKET = 20%N /\ Consts.NUM_BUCKETS = 256%N).
Check (C14_no_duplicate_peer :
  forall local K h i, wf_ops local h ->
  NoDup (map n_key (filter real (nth i (reach local K h) [])))).
Check (C14_step_preserves :
  forall local K t o, Inv local K t -> length (op_key o) = length local ->
  Inv local K (fst (step local K t o))).
Check (C14_connected_kept :
  forall local K t o j n,
  In n (nth j t []) -> protected n = true -> n_key n <> op_key o ->
  In n (nth j (fst (step local K t o)) [])).
Check (C14_bucket_order_keys :
  forall local tgt a b i j,
  length a = length local -> length b = length local -> length tgt = length local ->
  ilog2 (kxor local a) = Some i -> ilog2 (kxor local b) = Some j ->
  before (rev (kxor local tgt)) i j = true ->
  klt (kxor tgt a) (kxor tgt b) = true).
Check (C14_iter_terminates :
  forall d fuel, 1 <= length d -> 2 * length d + 3 <= fuel ->
  it_run (it_next (rev d)) (it_init d) fuel = bucket_order d).
Check (C14_iter_visits_all :
  forall d i, 1 <= length d -> (In i (bucket_order d) <-> i < length d)).
Check (C14_iter_order :
  forall d, 1 <= length d -> bit (rev d) 0 = false -> ilog2 d <> None ->
  Permutation (bucket_order d) (seq 0 (length d)) /\
  StronglySorted (fun i j => before (rev d) i j = true) (bucket_order d)).
Check (C14_iter_shape :
  forall d, 1 <= length d ->
  exists S C, visit (rev d) = S ++ C /\
    (bucket_order d = S ++ C \/ bucket_order d = S ++ 0 :: C) /\
    (bit (rev d) 0 = false -> ilog2 d <> None -> bucket_order d = S ++ C)).
Check (C14_visit_sorted_perm :
  forall r, Permutation (visit r) (seq 0 (length r)) /\
            StronglySorted (fun i j => before r i j = true) (visit r)).
Check (C14_iter_once_refuted :
  forall d, 1 <= length d -> bit (rev d) 0 = true \/ ilog2 d = None -> ~ NoDup (bucket_order d)).
Check (C14_closest_nodup_refuted :
  exists local h tgt k,
    wf_ops local h /\ length tgt = length local /\
    ~ NoDup (closest local (reach local 20 h) tgt k)).
Check (C14_closest_spec :
  forall local K t tgt k,
  1 <= length local -> Inv local K t -> length tgt = length local -> outside_class local t tgt ->
  exists full,
    Permutation full (filter n_addr (concat t)) /\
    StronglySorted (dlt tgt) full /\
    closest local t tgt k = firstn k full).
Check (C14_closest_exactly_k_closest :
  forall local K h tgt k,
  1 <= length local -> wf_ops local h -> length tgt = length local ->
  outside_class local (reach local K h) tgt ->
  let res := closest local (reach local K h) tgt k in
  let cands := filter n_addr (concat (reach local K h)) in
  StronglySorted (dlt tgt) res /\ NoDup (map n_key res) /\
  (forall n, In n res -> In n cands) /\
  length res = Nat.min k (length cands) /\
  (forall a b, In a res -> In b cands -> ~ In b res -> dlt tgt a b)).
Check (C14_sort_filter_commute :
  forall tgt (p : node -> bool) l, Forall (full tgt) l ->
  filter p (sort_by_dist tgt l) = sort_by_dist tgt (filter p l)).
Check (C14_code_order_equals_model :
  forall tgt b b', same_but_dummies b b' -> Forall (full tgt) b' ->
  bucket_closest_code tgt b' = bucket_closest tgt b).
Check (C14_index_is_ilog2_xor :
  forall a b, length a = length b ->
  ilog2 (kxor a b) =
  match u_ilog2 (N.of_nat (length a)) (N.lxor (val a) (val b)) with
  | None => None | Some x => Some (N.to_nat x) end).
Check (C14_distance_compare_u256 :
  forall t a b, length a = length t -> length b = length t ->
  klt (kxor t a) (kxor t b) = (N.lxor (val t) (val a) <? N.lxor (val t) (val b))%N).
Check (C14_bit_is_testbit :
  forall d i, bit (rev d) i = u_bit (val d) i).
Check (C14_key_value_injective :
  forall a b, length a = length b -> val a = val b -> a = b).
Check (C14_bytes_distance_compare :
  forall t a b,
  Forall (fun x => (x < 256)%N) t -> Forall (fun x => (x < 256)%N) a -> Forall (fun x => (x < 256)%N) b ->
  length a = length t -> length b = length t ->
  bytes_lt (bytes_xor t a) (bytes_xor t b) =
    (N.lxor (bytes_val t) (bytes_val a) <? N.lxor (bytes_val t) (bytes_val b))%N /\
  bytes_lt (bytes_xor t a) (bytes_xor t b) =
    klt (kxor (key_of_bytes t) (key_of_bytes a)) (kxor (key_of_bytes t) (key_of_bytes b))).
Check (C14_bytes_value :
  forall bs, Forall (fun x => (x < 256)%N) bs -> val (key_of_bytes bs) = bytes_val bs).
Check (C14_kad_invariant :
  forall local K h, Forall (wf_kop local) h -> Inv local K (k_table (kreach local K h))).
Check (C14_kad_buckets :
  forall local K h i, Forall (wf_kop local) h ->
  let b := nth i (k_table (kreach local K h)) [] in
  length b <= K /\ NoDup (map n_key (filter real b)) /\
  forall n, In n b -> real n = true ->
    length (n_key n) = length local /\ ilog2 (kxor local (n_key n)) = Some i /\ n_key n <> local).
Check (C14_kad_step_preserves :
  forall local K s o, Inv local K (k_table s) -> wf_kop local o ->
  Inv local K (k_table (kstep local K s o))).
Check (C14_kad_connected_kept :
  forall local K s o j n,
  In n (nth j (k_table s) []) -> protected n = true -> ~ In (n_key n) (kop_keys o) ->
  In n (nth j (k_table (kstep local K s o)) [])).
Check (C14_kad_connected_step :
  forall local K s o j n,
  In n (nth j (k_table s) []) -> n_conn n = Connected -> o <> KDisconnect (n_key n) ->
  exists n', In n' (nth j (k_table (kstep local K s o)) []) /\ conn_still n n').
Check (C14_kad_connected_until_disconnect :
  forall local K h s j n,
  In n (nth j (k_table s) []) -> n_conn n = Connected -> ~ In (KDisconnect (n_key n)) h ->
  exists n', In n' (nth j (k_table (krun local K s h)) []) /\ conn_still n n').
Check (C14_mention_downgrade_refuted_before_fix :
  exists local K h s j n,
    In n (nth j (k_table s) []) /\ n_conn n = Connected /\ ~ In (KDisconnect (n_key n)) h /\
    Forall (wf_kop local) h /\
    ~ exists n', In n' (nth j (k_table (krun_gen add_conn_orig local K s h)) []) /\ conn_still n n').
Check (C14_reply_sound :
  forall local K s tgt k n,
  Inv local K (k_table s) -> In n (reply local s tgt k) ->
  n_key n <> local /\ n_addr n = true /\ length (n_key n) = length local /\
  exists i, In n (nth i (k_table s) []) /\ ilog2 (kxor local (n_key n)) = Some i).
Check (C14_reply_at_most_k :
  forall local s tgt k, length (reply local s tgt k) <= k).
Check (C14_reply_exactly_k_closest :
  forall local K h tgt k,
  1 <= length local -> Forall (wf_kop local) h -> length tgt = length local ->
  outside_class local (k_table (kreach local K h)) tgt ->
  let res := reply local (kreach local K h) tgt k in
  let cands := filter n_addr (concat (k_table (kreach local K h))) in
  StronglySorted (dlt tgt) res /\ NoDup (map n_key res) /\
  (forall n, In n res -> In n cands) /\
  length res = Nat.min k (length cands) /\
  (forall a b, In a res -> In b cands -> ~ In b res -> dlt tgt a b)).
Check (C14_gt_connected_stored :
  forall local K h k, In k (ghost local K h) ->
  exists i n, ilog2 (kxor local k) = Some i /\ In n (nth i (reach local K h) []) /\
              n_key n = k /\ n_conn n = Connected).
Check (C14_gt_connected_kept :
  forall local K h1 h2 k, In k (ghost local K h1) -> ~ In (ODisconnected k) h2 ->
  In k (ghost local K (h1 ++ h2)) /\
  exists i n, ilog2 (kxor local k) = Some i /\ In n (nth i (reach local K (h1 ++ h2)) []) /\
              n_key n = k /\ n_conn n = Connected).
Check (C14_gt_last_claim :
  forall local K h k,
  In k (ghost local K h) <->
  exists h1 o h2, h = h1 ++ o :: h2 /\ op_key o = k /\
    claims_connected o (last_code local K h1 o) = true /\
    stored_in local (reach local K (h1 ++ [o])) k = true /\
    ~ In (ODisconnected k) h2).
Check (C14_gt_disconnect_revokes :
  forall local K h k, ~ In k (ghost local K (h ++ [ODisconnected k]))).
Check (C14_gt_connected_returned :
  forall local K h tgt kk k,
  1 <= length local -> wf_ops local h -> length tgt = length local ->
  outside_class local (reach local K h) tgt ->
  In k (ghost local K h) ->
  exists n, In n (concat (reach local K h)) /\ n_key n = k /\ n_conn n = Connected /\
    (n_addr n = true ->
     In n (closest local (reach local K h) tgt kk) \/
     (length (closest local (reach local K h) tgt kk) = kk /\
      forall a, In a (closest local (reach local K h) tgt kk) -> dlt tgt a n))).
Check (C14_remention_displaces_refuted_before_fix :
  exists local K h k,
    wf_ops local h /\ In k (ghost local K h) /\
    ~ exists i n,
        In n (nth i (fold_left (fun t o => fst (step_gen add_conn_b local K t o)) h
                               (empty_table (length local))) []) /\ n_key n = k).
Check (C14_kad_gt_connected_stored :
  forall local K h k, In k (kghost local K h) ->
  exists i n, ilog2 (kxor local k) = Some i /\ In n (nth i (k_table (kreach local K h)) []) /\
              n_key n = k /\ n_conn n = Connected).
Check (C14_kad_gt_connected_kept :
  forall local K h1 h2 k, In k (kghost local K h1) -> ~ In (KDisconnect k) h2 ->
  In k (kghost local K (h1 ++ h2)) /\
  exists i n, ilog2 (kxor local k) = Some i /\ In n (nth i (k_table (kreach local K (h1 ++ h2))) []) /\
              n_key n = k /\ n_conn n = Connected).
Check (C14_kad_gt_established :
  forall local K h p d pe,
  stored_in local (k_table (kreach local K (h ++ [KEstablished p d pe]))) p = true ->
  In p (kghost local K (h ++ [KEstablished p d pe]))).
Check (C14_kad_is_table_history :
  forall local K h,
  k_table (kreach local K h) = reach local K (kflat local K (kad_empty (length local)) h)).
Check (C14_displaced_only_for_room :
  forall local K t o j n,
  In n (nth j t []) ->
  ~ key_in (n_key n) (nth j (fst (step local K t o)) []) ->
  ilog2 (kxor local (op_key o)) = Some j /\ K <= length (nth j t []) /\ replaceable n = true /\
  stores_op o = true /\ ~ key_in (op_key o) (nth j t []) /\
  exists a c, nth j t [] = a ++ n :: c /\ Forall (fun x => replaceable x = false) a).
Check (C14_full_bucket_rejects :
  forall local K t o i,
  ilog2 (kxor local (op_key o)) = Some i -> K <= length (nth i t []) ->
  Forall (fun x => replaceable x = false) (nth i t []) -> ~ key_in (op_key o) (nth i t []) ->
  fst (step local K t o) = t /\
  (snd (snd (step local K t o)) = 3 \/ snd (snd (step local K t o)) = 4)).
Check (C14_addr_refines_table :
  forall cap local K h,
  r_table (rrun cap local K (rempty (length local)) h) = reach local K (map abs_op h)).
Check (C14_addr_flag_is_store :
  forall cap local K h, 1 <= cap ->
  Forall2 (Forall2 (fun n st => n_addr n = nonempty st /\ length st <= cap /\ NoDup (map fst st)))
          (r_table (rrun cap local K (rempty (length local)) h))
          (r_stores (rrun cap local K (rempty (length local)) h))).
Check (C14_addr_constants :
  S_FAIL = (-100)%Z /\ S_OK = 100%Z /\ S_BONUS = 1%Z /\ CAP = 64 /\ REPORT = 32).
Check (C14_addr_insert_never_empties :
  forall cap s a sc v, 1 <= cap -> nonempty (fst (sinsert cap s a sc v)) = true).
Check (C14_addr_reported :
  forall s,
  length (peer_addresses s) = Nat.min 32 (length s) /\
  StronglySorted (fun x y => (snd y <= snd x)%Z) (peer_addresses s) /\
  (forall x, In x (peer_addresses s) -> In x s) /\
  (forall x y, In x (peer_addresses s) -> In y s -> ~ In y (peer_addresses s) -> (snd y <= snd x)%Z) /\
  (NoDup (map fst s) -> NoDup (map fst (peer_addresses s)))).
Check (C14_addr_dial_failure_marks :
  forall cap s a z v, sfind a s = Some z ->
  sinsert cap s a S_FAIL v = (sset a S_FAIL s, IUpdated) /\
  sfind a (sset a S_FAIL s) = Some S_FAIL /\
  forall b, b <> a -> sfind b (sset a S_FAIL s) = sfind b s).
Check (C14_addr_readd_keeps_score :
  forall cap s a z v, sfind a s = Some z -> sinsert cap s a 0%Z v = (s, IKept)).
Check (C14_index_none_iff_same_key :
  forall a b, length a = length b -> (ilog2 (kxor a b) = None <-> a = b)).
Check (C14_index_top_bit :
  forall x y a b, length a = length b -> xorb x y = true ->
  ilog2 (kxor (x :: a) (y :: b)) = Some (length a)).
Check (C14_no_distance_ties :
  forall t a b, length t = length a -> length t = length b -> a <> b ->
  kxor t a <> kxor t b /\ (klt (kxor t a) (kxor t b) = true \/ klt (kxor t b) (kxor t a) = true)).
