From Coq Require Import List NArith Bool.
From V.Ts Require Import Model Proofs Rearm Timing Extra Exact Names Multi MultiProofs.
From V.Mgr Require Model.
From V.C06 Require Compose08.
From V.Link Require C06_C08.
Import ListNotations.
Open Scope N_scope.
From V.C09 Require Import Properties.
Check (C09_tracker_invariant :
  forall ka T n0 tr, inv_t (final (init ka T n0) tr)).
Check (C09_not_before :
  forall ka T n0 tr dt e p c,
  let s := final (init ka T n0) tr in
  In (ODown p c) (snd (step s dt e)) ->
  exists t, kfind (p, c) (s_act (fst (step s dt e))) = Some t /\
            t + s_T (fst (step s dt e)) <= s_now (fst (step s dt e))).
Check (C09_closes :
  forall ka T n0 tr dt k t,
  let s := final (init ka T n0) tr in
  kfind k (s_last s) = Some t -> t + s_T s <= s_now s + dt ->
  kfind k (s_last (fst (step s dt ENone))) = None /\
  handle_active (s_ctxs (fst (step s dt ENone))) k = false).
Check (C09_non_keepalive_ignored :
  forall s dt e,
  s_ka s = false -> (forall p c, e <> EEst p c) -> (forall p c, e <> EClosed p c) ->
  let s' := fst (step s dt e) in
  s_act s' = s_act s /\
  (forall k t, kfind k (s_last s') = Some t -> kfind k (s_last s) = Some t) /\
  (forall k, handle_active (s_ctxs s') k = true -> handle_active (s_ctxs s) k = true)).
Check (C09_busy_keeps_alive :
  forall s c, 0 < pend_on c (s_pend s) \/ 0 < ch_held_of c (s_chans s) -> 0 < strong s c).
Check (C09_half_closed_keeps_alive :
  forall s dt c,
  0 < ch_held_of c (s_chans s) ->
  s_chans (fst (step s dt (EShutSub c))) = s_chans s /\
  s_pend (fst (step s dt (EShutSub c))) = s_pend s /\
  0 < strong (fst (step s dt (EShutSub c))) c).
Check (C09_idle_closes :
  forall s c,
  svc_strong (s_ctxs s) c = false -> pend_on c (s_pend s) = 0 -> ch_held_of c (s_chans s) = 0 ->
  ch_other_of c (s_chans s) = 0 -> strong s c = 0).
Check (C09_rearm_single :
  forall tr ka T n0 k,
  feasible 2 env0 (init ka T n0) tr = true ->
  (cnt k (s_timers (final (init ka T n0) tr)) <= 1)%nat).
Check (C09_rearm_tracked_one :
  forall tr ka T n0 k t,
  feasible 2 env0 (init ka T n0) tr = true ->
  kfind k (s_last (final (init ka T n0) tr)) = Some t ->
  cnt k (s_timers (final (init ka T n0) tr)) = 1%nat).
Check (C09_rearm_needs_fifo :
  exists tr k, cnt k (s_timers (final (init true 300 0) tr)) = 2%nat).
Check (C09_sleeps_in_future :
  forall s dt e k d,
  In (k, d) (s_timers (fst (step s dt e))) -> s_now (fst (step s dt e)) < d).
Check (C09_downgrade_exactly :
  forall ka T n0 tr dt e p c,
  let s := final (init ka T n0) tr in
  on_time s dt -> 0 < s_T s ->
  In (ODown p c) (snd (step s dt e)) ->
  exists t, kfind (p, c) (s_act (fst (step s dt e))) = Some t /\
            s_now (fst (step s dt e)) = t + s_T (fst (step s dt e))).
Check (C09_never_overdue :
  forall ka T n0 tr k t,
  let s := final (init ka T n0) tr in
  kfind k (s_last s) = Some t -> s_now s < t + s_T s).
Check (C09_idle_close_exact :
  forall tr ka T n0,
  feasible 2 env0 (init ka T n0) tr = true ->
  let s := final (init ka T n0) tr in
  (forall k, handle_active (s_ctxs s) k = true ->
     exists t, kfind k (s_last s) = Some t /\ kfind k (s_act s) = Some t /\
               t <= s_now s /\ s_now s < t + s_T s) /\
  (forall dt e p c, on_time s dt -> 0 < s_T s -> In (ODown p c) (snd (step s dt e)) ->
     exists t, kfind (p, c) (s_act (fst (step s dt e))) = Some t /\
               s_now (fst (step s dt e)) = t + s_T (fst (step s dt e))) /\
  (forall c, 0 < pend_on c (s_pend s) \/ 0 < ch_held_of c (s_chans s) -> 0 < strong s c)).
Check (C09_active_iff_recent :
  forall tr ka T n0 k,
  feasible 2 env0 (init ka T n0) tr = true ->
  In k (e_live (efinal env0 tr)) ->
  let s := final (init ka T n0) tr in
  exists t, kfind k (s_act s) = Some t /\ t <= s_now s /\
            (handle_active (s_ctxs s) k = true <-> s_now s < t + s_T s)).
Check (C09_tracked_is_active :
  forall tr ka T n0 k t,
  feasible 2 env0 (init ka T n0) tr = true ->
  kfind k (s_last (final (init ka T n0) tr)) = Some t ->
  handle_active (s_ctxs (final (init ka T n0) tr)) k = true).
Check (C09_view_is_live :
  forall tr ka T n0 p,
  feasible 2 env0 (init ka T n0) tr = true ->
  conn_ids (s_ctxs (final (init ka T n0) tr)) p = live_of p (e_live (efinal env0 tr))).
Check (C09_open_counts_for_primary :
  forall e s p k,
  conn_inv e (s_ctxs s) (s_pend s) -> ka_activity_of s (EOpen p) = Some k ->
  fst k = p /\ hd_error (live_of p (e_live e)) = Some (snd k) /\ s_ka s = true).
Check (C09_other_connection_untouched :
  forall e s dt i k,
  conn_inv e (s_ctxs s) (s_pend s) -> ev_ok 2 e s i = true ->
  ka_activity_of (with_now s (s_now s + dt)) i <> Some k -> (forall p c, i = EClosed p c -> k <> (p, c)) ->
  kfind k (s_last (fst (mid s dt i))) = kfind k (s_last s) /\
  kfind k (s_act (fst (mid s dt i))) = kfind k (s_act s) /\
  (handle_active (s_ctxs s) k = true -> handle_active (s_ctxs (fst (mid s dt i))) k = true)).
Check (C09_multi_closed_iff_all_let_go :
  forall tr cap cfg n0 p c,
  mfeasible 2 env0 (minit cap cfg n0) tr = true -> In (p, c) (e_live (mefinal env0 tr)) ->
  let m := mfinal (minit cap cfg n0) tr in
  (mstrong (m_svcs m) c = 0 <-> Forall (fun s => let_go s (p, c)) (m_svcs m)) /\
  map (fun s => (s_ka s, s_T s)) (m_svcs m) = cfg /\
  Forall (fun s => s_now s = elapsed tr) (m_svcs m)).
Check (C09_multi_active_iff_recent :
  forall tr cap cfg n0 s k,
  mfeasible 2 env0 (minit cap cfg n0) tr = true ->
  In s (m_svcs (mfinal (minit cap cfg n0) tr)) -> In k (e_live (mefinal env0 tr)) ->
  exists t, kfind k (s_act s) = Some t /\ t <= s_now s /\
            (handle_active (s_ctxs s) k = true <-> s_now s < t + s_T s)).
Check (C09_multi_next_none_iff :
  forall m dt c,
  In c (m_sets m) ->
  (snd (snd (mstep m dt (MNext c))) = NEnd <->
   qfind c (push_all 0 (m_q m) (fst (snd (mstep m dt (MNext c))))) = [] /\
   mstrong (m_svcs (fst (mstep m dt (MNext c)))) c = 0)).
Check (C09_name_table_main :
  forall tbl pr,
  NoDup (all_names tbl) -> In pr tbl ->
  classify tbl (p_main pr) = Some (p_ka pr) /\ resolve tbl (p_main pr) = (p_main pr, None)).
Check (C09_name_table_fallback :
  forall tbl pr f,
  NoDup (all_names tbl) -> In pr tbl -> In f (p_fbs pr) ->
  classify tbl f = Some (p_ka pr) /\ resolve tbl f = (p_main pr, Some f)).
Check (C09_name_table_nothing_else :
  forall tbl nm, NoDup (map p_main tbl) -> ~ In nm (all_names tbl) -> classify tbl nm = None).
Check (C09_name_table_own_name_lookup_refuted :
  exists tbl pr f,
  NoDup (all_names tbl) /\ In pr tbl /\ In f (p_fbs pr) /\
  classify tbl f = Some true /\ classify_by_own_name tbl f = Some false).
Check (C09_idle_close_exact_under_manager :
  forall (L : V.Mgr.Model.limits) (xs : list V.C06.Compose08.xev) tr ka T n0,
  V.C06.Compose08.xtrace L V.C06.Compose08.x0 xs ->
  filter V.C06.Compose08.is_conn (map snd tr) = V.C06.Compose08.xproj xs ->
  V.C06.Compose08.feasible_rest env0 (init ka T n0) tr = true ->
  let s := final (init ka T n0) tr in
  (forall k, handle_active (s_ctxs s) k = true ->
     exists t, kfind k (s_last s) = Some t /\ kfind k (s_act s) = Some t /\
               t <= s_now s /\ s_now s < t + s_T s) /\
  (forall dt e p c, on_time s dt -> 0 < s_T s -> In (ODown p c) (snd (step s dt e)) ->
     exists t, kfind (p, c) (s_act (fst (step s dt e))) = Some t /\
               s_now (fst (step s dt e)) = t + s_T (fst (step s dt e))) /\
  (forall c, 0 < pend_on c (s_pend s) \/ 0 < ch_held_of c (s_chans s) -> 0 < strong s c)).
Check (C09_rearm_single_under_manager :
  forall (L : V.Mgr.Model.limits) (xs : list V.C06.Compose08.xev) tr ka T n0 k,
  V.C06.Compose08.xtrace L V.C06.Compose08.x0 xs ->
  filter V.C06.Compose08.is_conn (map snd tr) = V.C06.Compose08.xproj xs ->
  V.C06.Compose08.feasible_rest env0 (init ka T n0) tr = true ->
  (cnt k (s_timers (final (init ka T n0) tr)) <= 1)%nat).
Check (C09_tracked_is_active_under_manager :
  forall (L : V.Mgr.Model.limits) (xs : list V.C06.Compose08.xev) tr ka T n0 k t,
  V.C06.Compose08.xtrace L V.C06.Compose08.x0 xs ->
  filter V.C06.Compose08.is_conn (map snd tr) = V.C06.Compose08.xproj xs ->
  V.C06.Compose08.feasible_rest env0 (init ka T n0) tr = true ->
  kfind k (s_last (final (init ka T n0) tr)) = Some t ->
  handle_active (s_ctxs (final (init ka T n0) tr)) k = true).
Check (C09_view_is_live_under_manager :
  forall (L : V.Mgr.Model.limits) (xs : list V.C06.Compose08.xev) tr ka T n0 p,
  V.C06.Compose08.xtrace L V.C06.Compose08.x0 xs ->
  filter V.C06.Compose08.is_conn (map snd tr) = V.C06.Compose08.xproj xs ->
  V.C06.Compose08.feasible_rest env0 (init ka T n0) tr = true ->
  conn_ids (s_ctxs (final (init ka T n0) tr)) p = live_of p (e_live (efinal env0 tr))).
