From Coq Require Import List NArith Bool.
From V.Ts Require Import Model Proofs.
Import ListNotations.
Open Scope N_scope.
From V.C09 Require Import Properties.
Check (C09_tracker_invariant :
  forall ka T n0 tr, inv_t (final (init ka T n0) tr)).
Check (C09_not_before :
  forall ka T n0 tr dt e p c,
  let s := final (init ka T n0) tr in
  In (ODown p c) (snd (step s dt e)) ->
  exists t, kfind (p, c) (s_act (fst (step s dt e))) = Some t /\
            t + s_T (fst (step s dt e)) <= s_now (fst (step s dt e))).
Check (C09_closes :
  forall ka T n0 tr dt k t,
  let s := final (init ka T n0) tr in
  kfind k (s_last s) = Some t -> t + s_T s <= s_now s + dt ->
  kfind k (s_last (fst (step s dt ENone))) = None /\
  handle_active (s_ctxs (fst (step s dt ENone))) k = false).
Check (C09_non_keepalive_ignored :
  forall s dt e,
  s_ka s = false -> (forall p c, e <> EEst p c) -> (forall p c, e <> EClosed p c) ->
  let s' := fst (step s dt e) in
  s_act s' = s_act s /\
  (forall k t, kfind k (s_last s') = Some t -> kfind k (s_last s) = Some t) /\
  (forall k, handle_active (s_ctxs s') k = true -> handle_active (s_ctxs s) k = true)).
Check (C09_busy_keeps_alive :
  forall s c, 0 < pend_on c (s_pend s) \/ 0 < ch_held_of c (s_chans s) -> 0 < strong s c).
Check (C09_idle_closes :
  forall s c,
  svc_strong (s_ctxs s) c = false -> pend_on c (s_pend s) = 0 -> ch_held_of c (s_chans s) = 0 ->
  ch_other_of c (s_chans s) = 0 -> strong s c = 0).
