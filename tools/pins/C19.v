From Coq Require Import List NArith Bool.
From V.gen Require Consts.
From V.common Require Import Wire Varint Protobuf.
From V.C18 Require Model.
From V.C03 Require Model.
From V.C19 Require Import Formats Model Utf8Proofs Proofs MsProofs Net NetProofs Consume ConsumeProofs.
From V.C18 Require Addr.
From V.C19 Require Sites PanicSites.
From V.gen Require DecodeSites.
Import ListNotations.
Open Scope N_scope.
From V.C19 Require Import Properties.
Check (C19_pb_total :
  forall ctx b, pb_parse_at ctx b <> OutOfFuel).
Check (C19_pb_fuel_irrelevant :
  forall ctx b fuel, (length b < fuel)%nat -> parse_fields fuel ctx b = pb_parse_at ctx b).
Check (C19_pb_sub_total :
  forall ctx payload, pb_parse_sub ctx payload <> OutOfFuel).
Check (C19_pb_alloc_bound :
  forall ctx b fs, pb_parse_at ctx b = Ok fs ->
  (length fs + fields_payload fs <= length b /\ 2 * length fs <= length b)%nat).
Check (C19_pb_roundtrip :
  forall ctx fs, Forall wf_field fs -> pb_parse_at ctx (encode_fields fs) = Ok fs).
Check (C19_alloc_kad_message :
  forall b m, dec_kmsg b = Some m -> (size_kmsg m <= length b)%nat).
Check (C19_alloc_kad_peer_count :
  forall b m, dec_kmsg b = Some m ->
  (2 * (length (m_closer m) + length (m_provider m)) <= length b)%nat).
Check (C19_kad_peers_cap :
  forall k o b r, kad_from_bytes k o b = Some r ->
  Forall (fun ps => (length ps <= k)%nat) (kad_peer_lists r)).
Check (C19_roundtrip_kad_schema :
  forall m, wf_kmsg m -> dec_kmsg (enc_kmsg m) = Some m).
Check (C19_roundtrip_kad :
  forall k o m, wf_kmsg m -> kad_from_bytes k o (enc_kmsg m) = kad_of_kmsg k o m).
Check (C19_roundtrip_find_node :
  forall k o key, wf_kmsg (msg_find_node key) ->
  kad_from_bytes k o (enc_kmsg (msg_find_node key)) = Some (KFindNode key [])).
Check (C19_roundtrip_find_node_response :
  forall k o key ps, wf_kmsg (msg_find_node_response key ps) -> Forall (wf_kad_peer o) ps ->
  kad_from_bytes k o (enc_kmsg (msg_find_node_response key ps)) = Some (KFindNode key (firstn k ps))).
Check (C19_roundtrip_put_value :
  forall k o r, wf_kmsg (msg_put_value r) -> wf_krec r ->
  kad_from_bytes k o (enc_kmsg (msg_put_value r)) = Some (KPutValue r)).
Check (C19_roundtrip_get_record :
  forall k o key, key <> [] -> wf_kmsg (msg_get_record key) ->
  kad_from_bytes k o (enc_kmsg (msg_get_record key)) = Some (KGetRecord (Some key) None [])).
Check (C19_roundtrip_put_value_response :
  forall k o key value, wf_kmsg (msg_put_value_response key value) ->
  kad_from_bytes k o (enc_kmsg (msg_put_value_response key value)) = Some (KPutValue (mkRec key value None 0))).
Check (C19_roundtrip_get_value_response :
  forall k o key ps r, key <> [] ->
  wf_kmsg (msg_get_value_response key ps r) -> Forall (wf_kad_peer o) ps ->
  match r with Some r' => wf_krec r' | None => True end ->
  kad_from_bytes k o (enc_kmsg (msg_get_value_response key ps r)) = Some (KGetRecord (Some key) r (firstn k ps))).
Check (C19_roundtrip_add_provider :
  forall k o key p, key <> [] -> wf_kmsg (msg_add_provider key p) -> wf_kad_peer o p ->
  kad_from_bytes k o (enc_kmsg (msg_add_provider key p)) = Some (KAddProvider key (firstn k [p]))).
Check (C19_roundtrip_get_providers_request :
  forall k o key, key <> [] -> wf_kmsg (msg_get_providers_request key) ->
  kad_from_bytes k o (enc_kmsg (msg_get_providers_request key)) = Some (KGetProviders (Some key) [] [])).
Check (C19_roundtrip_get_providers_response :
  forall k o providers closer,
  wf_kmsg (msg_get_providers_response providers closer) ->
  Forall (wf_kad_peer o) providers -> Forall (wf_kad_peer o) closer ->
  kad_from_bytes k o (enc_kmsg (msg_get_providers_response providers closer)) =
  Some (KGetProviders None (firstn k closer) (firstn k providers))).
Check (C19_multistream_fuel :
  forall b fuel, (length b < fuel)%nat ->
  V.C03.Model.parse_protos fuel b 0 [] = V.C03.Model.parse_protos (S (length b)) b 0 []).
Check (C19_multistream_protocols_cap :
  forall b ps, V.C03.Model.decode_msg b = V.C03.Model.DOk (V.C03.Model.MProtos ps) ->
  N.of_nat (length ps) <= Consts.C03_MAX_PROTOCOLS).
Check (C19_alloc_multistream :
  forall b m, V.C03.Model.decode_msg b = V.C03.Model.DOk m ->
  match m with
  | V.C03.Model.MProtos ps => (lsum (fun p => S (length p)) ps <= length b)%nat
  | V.C03.Model.MProto p => (length p <= length b)%nat
  | _ => True
  end).
Check (C19_roundtrip_multistream_protocols :
  forall ps, Forall wf_lsname ps -> N.of_nat (length ps) <= Consts.C03_MAX_PROTOCOLS ->
  V.C03.Model.decode_msg (V.C03.Model.encode_msg (V.C03.Model.MProtos ps)) = V.C03.Model.DOk (V.C03.Model.MProtos ps)).
Check (C19_length_delimited_frame_len :
  forall fuel st p st' p' r,
  st_ok st -> V.C03.Model.rd_poll fuel st p = (st', p', r) ->
  st_ok st' /\ (forall b, r = V.C03.Model.FFrame b -> V.C03.Model.len b <= 16383)).
Check (C19_webrtc_decode_slice :
  forall data r rest, V.C03.Model.webrtc_decode1 data = Some (r, rest) ->
  exists l tail, V.C03.Model.uvi_dec data = Some (l, tail) /\ l <= V.C03.Model.len tail /\
    r = V.C03.Model.decode_msg (firstn (N.to_nat l) tail) /\ rest = skipn (N.to_nat l) tail /\
    (length rest < length data)%nat /\ (length (firstn (N.to_nat l) tail) < length data)%nat).
Check (C19_webrtc_truncated_rejected :
  forall data l tail, V.C03.Model.uvi_dec data = Some (l, tail) -> V.C03.Model.len tail < l ->
  V.C03.Model.webrtc_decode1 data = None).
Check (C19_webrtc_dialer_fuel :
  forall f1 f2 proto w rem, (length rem < f1)%nat -> (length rem < f2)%nat ->
  V.C03.Model.webrtc_dialer_register f1 proto w rem = V.C03.Model.webrtc_dialer_register f2 proto w rem).
Check (C19_webrtc_listener_reply_bound :
  forall names payload h,
  wl_reply_len (wl_negotiate names payload h) <= N.max V.C03.Model.MAX_FRAME (blen payload)).
Check (C19_alloc_webrtc_message :
  forall data m rest, V.C03.Model.webrtc_decode1 data = Some (V.C03.Model.DOk m, rest) ->
  match m with
  | V.C03.Model.MProtos ps => (lsum (fun p => S (length p)) ps <= length data)%nat
  | V.C03.Model.MProto p => (length p <= length data)%nat
  | _ => True
  end).
Check (C19_read_payload_size_ok :
  forall buf s n, read_payload_size buf = RpsOk s n -> s < 2 ^ 64 /\ 1 <= n /\ n <= 10).
Check (C19_roundtrip_read_payload_size :
  forall n, n < 2 ^ 64 -> read_payload_size (encode n) = RpsOk n (blen (encode n))).
Check (C19_frames_total :
  forall max s, rv_status (recv_all max s) <> SFuel).
Check (C19_frame_alloc_checked_first :
  forall m s,
  Forall (fun a => a <= m) (rv_allocs (recv_all (Some m) s)) /\
  Forall (fun f => blen f <= m) (rv_frames (recv_all (Some m) s))).
Check (C19_frames_within_stream :
  forall max s, (lsum (@length N) (rv_frames (recv_all max s)) <= length s)%nat).
Check (C19_roundtrip_frames :
  forall m fs, Forall (fun f => blen f <= m /\ blen f < 2 ^ 64) fs ->
  rv_frames (recv_all (Some m) (frames_of fs)) = fs /\ rv_status (recv_all (Some m) (frames_of fs)) = SEnd).
Check (C19_alloc_public_key :
  forall b m, dec_pubkey b = Some m -> (length (k_data m) <= length b)%nat).
Check (C19_roundtrip_public_key_schema :
  forall m, k_type m < 2 ^ 32 -> wf_bytes (k_data m) -> dec_pubkey (enc_pubkey m) = Some m).
Check (C19_roundtrip_public_key :
  forall o k, blen k = 32 -> orc_flag o 2 k = true -> remote_key o (key_to_protobuf k) = Some k).
Check (C19_alloc_noise_payload :
  forall b m, dec_noise b = Some m -> (size_noise m <= length b)%nat).
Check (C19_roundtrip_noise_payload :
  forall m, wf_noise m -> dec_noise (enc_noise m) = Some m).
Check (C19_alloc_identify :
  forall b m, dec_identify b = Some m -> (size_identify m <= length b)%nat).
Check (C19_roundtrip_identify :
  forall m, wf_identify m -> dec_identify (enc_identify m) = Some m).
Check (C19_identify_addresses_subset :
  forall o peer local b i, identify_response o peer local b = Some i ->
  exists m, dec_identify b = Some m /\ incl (ii_listen i) (i_listen m) /\
            (length (ii_listen i) <= length (i_listen m))%nat).
Check (C19_alloc_bitswap :
  forall b m, dec_bs_msg b = Some m -> (size_bs m <= length b)%nat).
Check (C19_roundtrip_bitswap :
  forall m, wf_bs m -> dec_bs_msg (enc_bs_msg m) = Some m).
Check (C19_roundtrip_prefix :
  forall p, px_version p <= 1 -> px_codec p < 2 ^ 64 -> px_mh_type p < 2 ^ 64 -> px_mh_len p < 256 ->
  prefix_from_bytes (prefix_to_bytes p) = Some p).
Check (C19_prefix_fields_in_range :
  forall b p, prefix_from_bytes b = Some p ->
  px_version p <= 1 /\ px_codec p < 2 ^ 64 /\ px_mh_type p < 2 ^ 64 /\ px_mh_len p < 256).
Check (C19_utf8_sound_complete :
  forall l, utf8_ok l = true <-> (exists cps, Forall scalar cps /\ l = flat_map utf8_encode cps)).
Check (C19_alloc_multihash :
  forall b code d rest, mh_read b = Some (code, d, rest) ->
  exists hdr, b = hdr ++ d ++ rest /\ (2 <= length hdr <= 20)%nat /\ (length d <= 64)%nat).
Check (C19_alloc_cid :
  forall b c, cid_read b = Some c -> (length c <= length b /\ length c <= 104)%nat).
Check (C19_maddr_total :
  forall b, maddr_parse b <> OutOfFuel).
Check (C19_maddr_fuel_irrelevant :
  forall b fuel, (length b < fuel)%nat -> maddr_parse_f fuel b = maddr_parse_f (S (length b)) b).
Check (C19_alloc_maddr :
  forall b cs, maddr_parse b = Ok cs -> (comps_size cs <= length b)%nat).
Check (C19_webrtc_frame_bounded :
  forall b body rest, webrtc_extract b = WfFrame body rest ->
  blen body <= WEBRTC_MAX_FRAME /\ exists pre, b = pre ++ body ++ rest /\ (1 <= length pre <= 10)%nat).
Check (C19_webrtc_oversized_rejected_first :
  forall pre rest, take_varint 10 (pre ++ rest) = Some (pre, rest) -> minimal pre = true ->
  WEBRTC_MAX_FRAME < value pre mod 2 ^ 64 -> webrtc_extract (pre ++ rest) = WfErr).
Check (C19_alloc_webrtc_proto :
  forall b m, dec_wr b = Some m -> (olen (wr_message m) <= length b)%nat).
Check (C19_roundtrip_webrtc_message :
  forall payload flag rest,
  wf_bytes payload -> match flag with Some f => f < 4 | None => True end ->
  let body := encode_fields (fields_wr (mkWr flag (if is_nil payload then None else Some payload))) in
  blen body <= WEBRTC_MAX_FRAME ->
  webrtc_extract (webrtc_encode_message payload flag ++ rest) = WfFrame body rest /\
  webrtc_message body = Some (if is_nil payload then None else Some payload, flag)).
Check (C19_ws_total :
  forall role b f, (length b < f)%nat -> ws_read f role None b [] = ws_run role b).
Check (C19_ws_delivered_bounded :
  forall role b, (length (ws_run role b) <= length b)%nat).
Check (C19_ws_oversized_checked_first :
  forall f role acc b out h r,
  ws_header b = Some (h, r) -> WS_MAX_FRAME < h_len h -> ws_read (S f) role acc b out = out).
Check (C19_ws_roundtrip :
  forall chunks mask,
  mask_ok mask -> Forall (fun c => blen c <= WS_MAX_FRAME) chunks ->
  ws_run (reader_of mask) (concat (map (ws_frame mask) chunks)) = concat chunks).
Check (C19_noise_frame_bounded :
  forall b m r, bytes_ok b = true -> hs_frame b = Some (m, r) ->
  blen m <= DecodeSites.SNOW_MAXMSGLEN /\ exists h l, b = h :: l :: m ++ r /\ blen m = h * 256 + l).
Check (C19_noise_raw_rejected :
  forall role b, noise_raw role b = 1 \/ noise_raw role b = 2).
Check (C19_noise_identity_ok :
  forall o p t, noise_identity_result o p = 0 :: t ->
  exists m k pk sg,
    dec_noise p = Some m /\ n_key m = Some k /\ remote_key o k = Some pk /\ n_sig m = Some sg /\
    orc_flag o 7 (pk ++ sg) = true /\ t = blen (peer_of_ed25519 pk) :: peer_of_ed25519 pk).
Check (C19_noise_length_lie_rejected :
  forall role o p d, d <> noise_msg_len role p ->
  noise_active role o p (Some d) = [1] \/ noise_active role o p (Some d) = [2]).
Check (C19_mdns_response_sound :
  forall user o answers extra a, In a (mdns_response user o answers extra) ->
  exists x vals v, In x extra /\ mx_txt x = Some vals /\ In v vals /\ orc_find o 6 v = Some (1 :: a)).
Check (C19_mdns_response_count :
  forall user o answers extra, (length (mdns_response user o answers extra) <= txt_count extra)%nat).
Check (C19_mdns_own_name_ignored :
  forall user o answers extra,
  Forall (fun a => names_eqb (ma_name a) SERVICE_NAME = false \/ ma_ptr a = None \/ ma_ptr a = Some [user]) answers ->
  nlist_eqb user user = true -> mdns_response user o answers extra = []).
Check (C19_peer_id_convertible :
  forall b p, V.C18.Model.of_bytes b = Some p ->
  convertible p = true /\ convert_peer_id p = Some (V.C18.Model.to_bytes p)).
Check (C19_conversion_boundary :
  (forall p, convertible p = V.C18.Model.admits p) /\
  (forall p, V.C18.Model.admits p = false -> convert_peer_id p = None) /\
  (let p := V.C18.Model.mkPid 0 (repeat 1 43) in
   V.C18.Model.mh_parse (V.C18.Model.mh_to_bytes p) = Some p /\ convert_peer_id p = None /\
   V.C18.Model.of_bytes (V.C18.Model.mh_to_bytes p) = None)).
Check (C19_ed25519_peer_convertible :
  forall k, length k = 32%nat -> convertible (ed25519_peer k) = true).
Check (C19_inline_key_fits :
  inline_fits = true).
Check (C19_kad_decoded_usable :
  forall k o b m, kad_from_bytes k o b = Some m -> kad_usable m = true).
Check (C19_kad_update_peers_convertible :
  forall k o b m local from e p, kad_from_bytes k o b = Some m ->
  In e (kad_response local from m) -> In p (kev_pids e) -> convertible p = true).
Check (C19_kad_update_peers_spec :
  forall local ps,
  (forall p, In p (update_peers local ps) -> In p (map kp_pid ps) /\ pid_is local p = false) /\
  (length (update_peers local ps) <= length ps)%nat).
Check (C19_kad_request_events :
  forall k o b m from e, kad_from_bytes k o b = Some m -> In e (snd (kad_request from m)) ->
  (forall p, In p (kev_pids e) -> convertible p = true) /\
  match e with KevUpdate _ => False | _ => True end).
Check (C19_record_has_id_parsed :
  forall b cs, maddr_parse b = Ok cs -> V.C18.Addr.ends_with_p2p cs = true -> record_has_id b = true).
Check (C19_record_has_id_appended :
  forall b cs x p, maddr_parse b = Ok cs -> V.C18.Model.of_bytes x = Some p ->
  exists rb, V.C18.Addr.record_new_bytes p b = Some rb /\ record_has_id rb = true).
Check (C19_negotiated_in_set :
  forall names payload hdr, negotiated_in_set names (wl_negotiate names payload hdr) = true).
Check (C19_sock_parse_ws_shape :
  forall cs, sock_parse true cs = true ->
  exists h t w r, cs = h :: t :: w :: r /\ is_host (fst h) = true /\ fst t = TCP /\ is_ws (fst w) = true).
Check (C19_panic_sites_match :
  map PanicSites.site_of PanicSites.table = DecodeSites.panic_sites).
Check (C19_panic_sites_classified :
  forallb PanicSites.entry_ok PanicSites.table = true /\
  forallb (fun e => negb (PanicSites.conversion_entry e) ||
                    match PanicSites.cls_of e with PanicSites.PV => true | PanicSites.PL => true | _ => false end)
          PanicSites.table = true).
Check (C19_sites_match :
  map (fun e => fst (fst e)) Sites.table = DecodeSites.sites).
Check (C19_sites_kinds_ok :
  forallb Sites.entry_ok Sites.table = true).
Check (C19_codecs_match :
  map fst Sites.codec_table = DecodeSites.codecs).
Check (C19_codecs_all_bounded :
  forallb Sites.codec_bounded DecodeSites.codecs = true).
Check (C19_third_party_limits :
  Model.YAMUX_DEFAULT_CREDIT = DecodeSites.YAMUX_DEFAULT_CREDIT /\ DecodeSites.SNOW_MAXMSGLEN = 65535 /\
  WS_MAX_FRAME = 16777216 /\ WS_MAX_MESSAGE = 67108864 /\
  Protobuf.RECURSION_LIMIT = DecodeSites.PROST_RECURSION_LIMIT).
Check (C19_maddr_codes_match :
  forallb (fun c => Sites.mem c DecodeSites.maddr_codes) (map fst proto_table) &&
  forallb (fun c => Sites.mem c (map fst proto_table)) DecodeSites.maddr_codes &&
  Nat.eqb (length proto_table) (length DecodeSites.maddr_codes) = true).
Check (C19_yamux_syn_credit_refuted :
  exists credit, credit < 2 ^ 32 /\ u32_add_checked credit YAMUX_DEFAULT_CREDIT = None /\
    yamux_syn_credit_overflow 2 [0; 1; 0; 1; 0; 0; 0; 1; 255; 255; 255; 255] = true).
Check (C19_yamux_syn_credit_partial :
  forall credit, credit + YAMUX_DEFAULT_CREDIT < 2 ^ 32 ->
  u32_add_checked credit YAMUX_DEFAULT_CREDIT = Some (credit + YAMUX_DEFAULT_CREDIT)).
