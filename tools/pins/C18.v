From Coq Require Import List NArith Bool.
From V.gen Require Consts.
From V.common Require Import Varint.
From V.C18 Require Import Model Proofs.
Import ListNotations.
Open Scope N_scope.
From V.C18 Require Import Properties.
Check (C18_derive_inline :
  forall sha enc, len enc <= 42 -> of_key_enc sha enc = mkPid 0 enc).
Check (C18_derive_hashed :
  forall sha enc, 42 < len enc -> of_key_enc sha enc = mkPid 18 sha).
Check (C18_ed25519_inline :
  forall sha k, length k = 32%nat ->
    len (encode_ed25519 k) = 36 /\ of_ed25519 sha k = mkPid 0 ([8; 1; 18; 32] ++ k)).
Check (C18_ed25519_injective :
  forall sha1 sha2 k1 k2, length k1 = 32%nat -> length k2 = 32%nat ->
    of_ed25519 sha1 k1 = of_ed25519 sha2 k2 -> k1 = k2).
Check (C18_ed25519_encoding_roundtrip :
  forall k, length k = 32%nat -> decode_ed25519_canonical (encode_ed25519 k) = Some k).
Check (C18_ed25519_encoding_unique :
  forall b k, decode_ed25519_canonical b = Some k -> b = encode_ed25519 k /\ length k = 32%nat).
Check (C18_derived_valid :
  forall sha enc, bytes_ok enc = true -> bytes_ok sha = true -> length sha = 32%nat ->
    valid (of_key_enc sha enc) = true).
Check (C18_parsed_valid :
  forall b p, of_bytes b = Some p -> valid p = true).
Check (C18_parsed_text_valid :
  forall t p, of_text t = Some p -> valid p = true).
Check (C18_parsed_component_valid :
  forall b p, of_component b = Some p -> valid p = true).
Check (C18_admits_reference :
  forall p, admits p = ref_admits p).
Check (C18_bytes_roundtrip :
  forall p, valid p = true -> of_bytes (to_bytes p) = Some p).
Check (C18_text_roundtrip :
  forall p, valid p = true -> of_text (to_text p) = Some p).
Check (C18_component_roundtrip :
  forall p, valid p = true -> of_component (to_component p) = Some p).
Check (C18_bytes_normalise :
  forall b p, of_bytes b = Some p -> of_bytes (to_bytes p) = Some p).
Check (C18_bytes_canonical_partial :
  forall b p, of_bytes b = Some p -> (length b <= length (digest p) + 10)%nat -> to_bytes p = b).
Check (C18_bytes_canonical_refuted :
  exists b p, of_bytes b = Some p /\ to_bytes p <> b).
Check (C18_b58_decode_encode :
  forall b, bytes_ok b = true -> b58_decode (b58_encode b) = Some b).
Check (C18_b58_encode_decode :
  forall t b, b58_decode t = Some b -> b58_encode b = t /\ bytes_ok b = true).
Check (C18_text_canonical_partial :
  forall t p, of_text t = Some p ->
    (forall b, b58_decode t = Some b -> (length b <= length (digest p) + 10)%nat) ->
    to_text p = t).
Check (C18_varint_roundtrip :
  forall n rest, n < 2 ^ 64 -> decode_u64 (encode n ++ rest) = Some (n, rest)).
Check (C18_varint_minimal :
  forall l n rest, bytes_ok l = true -> decode_u64 l = Some (n, rest) ->
    exists pre, l = pre ++ rest /\ (1 <= length pre <= 10)%nat /\ bytes_ok pre = true /\
                ((length pre <= 9)%nat -> pre = encode n)).
