From Coq Require Import List NArith Bool.
From V.gen Require Consts PeerIdSites.
From V.common Require Import Varint.
From V.C18 Require Import Model Proofs.
Import ListNotations.
Open Scope N_scope.
From V.C18 Require Import Properties.
Check (C18_derive_inline :
  forall sha enc, len enc <= 42 -> of_key_enc sha enc = mkPid 0 enc).
Check (C18_derive_hashed :
  forall sha enc, 42 < len enc -> of_key_enc sha enc = mkPid 18 sha).
Check (C18_ed25519_inline :
  forall sha k, length k = 32%nat ->
    len (encode_ed25519 k) = 36 /\ of_ed25519 sha k = mkPid 0 ([8; 1; 18; 32] ++ k)).
Check (C18_ed25519_injective :
  forall sha1 sha2 k1 k2, length k1 = 32%nat -> length k2 = 32%nat ->
    of_ed25519 sha1 k1 = of_ed25519 sha2 k2 -> k1 = k2).
Check (C18_ed25519_encoding_roundtrip :
  forall k, length k = 32%nat -> decode_ed25519_canonical (encode_ed25519 k) = Some k).
Check (C18_ed25519_encoding_unique :
  forall b k, decode_ed25519_canonical b = Some k -> b = encode_ed25519 k /\ length k = 32%nat).
Check (C18_derived_valid :
  forall sha enc, bytes_ok enc = true -> bytes_ok sha = true -> length sha = 32%nat ->
    valid (of_key_enc sha enc) = true).
Check (C18_parsed_valid :
  forall b p, of_bytes b = Some p -> valid p = true).
Check (C18_parsed_text_valid :
  forall t p, of_text t = Some p -> valid p = true).
Check (C18_parsed_component_valid :
  forall b p, of_component b = Some p -> valid p = true).
Check (C18_admits_reference :
  forall p, admits p = ref_admits p).
Check (C18_bytes_roundtrip :
  forall p, valid p = true -> of_bytes (to_bytes p) = Some p).
Check (C18_text_roundtrip :
  forall p, valid p = true -> of_text (to_text p) = Some p).
Check (C18_component_roundtrip :
  forall p, valid p = true -> of_component (to_component p) = Some p).
Check (C18_bytes_normalise :
  forall b p, of_bytes b = Some p -> of_bytes (to_bytes p) = Some p).
Check (C18_bytes_canonical_partial :
  forall b p, of_bytes b = Some p -> (length b <= length (digest p) + 10)%nat -> to_bytes p = b).
Check (C18_bytes_canonical_refuted :
  exists b p, of_bytes b = Some p /\ to_bytes p <> b).
Check (C18_b58_decode_encode :
  forall b, bytes_ok b = true -> b58_decode (b58_encode b) = Some b).
Check (C18_b58_encode_decode :
  forall t b, b58_decode t = Some b -> b58_encode b = t /\ bytes_ok b = true).
Check (C18_text_canonical_partial :
  forall t p, of_text t = Some p ->
    (forall b, b58_decode t = Some b -> (length b <= length (digest p) + 10)%nat) ->
    to_text p = t).
Check (C18_varint_roundtrip :
  forall n rest, n < 2 ^ 64 -> decode_u64 (encode n ++ rest) = Some (n, rest)).
Check (C18_varint_minimal :
  forall l n rest, bytes_ok l = true -> decode_u64 l = Some (n, rest) ->
    exists pre, l = pre ++ rest /\ (1 <= length pre <= 10)%nat /\ bytes_ok pre = true /\
                ((length pre <= 9)%nat -> pre = encode n)).
Check (C18_single_derivation :
  forall (H : hash) (dec : decoder),
  (forall k,
     from_impl H k = from_public_key H k /\ publickey_to_peer_id H k = from_public_key H k /\
     ed25519_to_peer_id H k = from_public_key H k /\ local_peer_id H k = from_public_key H k /\
     identify_local_peer_id H k = from_public_key H k /\
     from_public_key H k = derive H (key_encoding (KEd k))) /\
  (forall k, remote_to_peer_id H k = derive H (key_encoding k)) /\
  (forall identity verified,
     tls_identity dec H identity verified = noise_identity dec H identity verified) /\
  (forall identity k, dec identity = Some k ->
     noise_identity dec H identity true = Some (derive H (key_encoding k)) /\
     noise_identity dec H identity false = None) /\
  (forall identity v, dec identity = None -> noise_identity dec H identity v = None)).
Check (C18_derivation_sites :
  derivation_sites = V.gen.PeerIdSites.sites).
Check (C18_identity_encoding_irrelevant :
  forall dec H b1 b2 v, dec b1 = dec b2 -> noise_identity dec H b1 v = noise_identity dec H b2 v).
Check (C18_ed25519_id :
  forall H k, length k = 32%nat -> from_public_key H k = mkPid 0 ([8; 1; 18; 32] ++ k)).
Check (C18_rsa_id :
  forall H pk, 19 <= len pk ->
    remote_to_peer_id H (KRsa pk) = mkPid 18 (H ([8; 0; 18] ++ encode (len (spki pk)) ++ spki pk))).
Check (C18_is_public_key_own :
  forall H k, length k = 32%nat -> is_public_key H (from_public_key H k) k = Some true).
Check (C18_is_public_key_true :
  forall H p k, is_public_key H p k = Some true <->
    p = mkPid 0 (encode_ed25519 k) \/ p = mkPid 18 (H (encode_ed25519 k))).
Check (C18_random_valid :
  forall r, length r = 32%nat -> bytes_ok r = true -> valid (random_pid r) = true).
Check (C18_eq_iff_bytes :
  forall p q, valid p = true -> valid q = true ->
  (p = q <-> to_bytes p = to_bytes q) /\ (p = q <-> to_text p = to_text q) /\
  (p = q <-> to_component p = to_component q) /\
  (pid_eqb p q = true <-> p = q) /\ (pid_cmp p q = Eq <-> p = q)).
Check (C18_ord_is_bytes_order :
  forall p q, valid p = true -> valid q = true -> pid_cmp p q = list_cmp (to_bytes p) (to_bytes q)).
Check (C18_serde_roundtrip :
  forall p, valid p = true ->
  de_hr (ser_hr p) = Some p /\ de_bin (ser_bin p) = Some p /\ of_json (json_of p) = Some p).
Check (C18_serde_sound :
  (forall t p, de_hr t = Some p -> valid p = true) /\ (forall b p, de_bin b = Some p -> valid p = true)).
Check (C18_text_alphabet :
  forall p c, In c (to_text p) -> In c alphabet /\ json_plain c = true /\ c <> SLASH).
Check (C18_addr_text_roundtrip :
  forall p, valid p = true ->
  of_addr_text (to_addr_text p) = Some p /\
  of_addr_text (SLASH :: NAME_IPFS ++ SLASH :: to_text p) = Some p).
Check (C18_addr_text_valid :
  forall t p, of_addr_text t = Some p -> valid p = true).
Check (C18_addr_text_canonical_partial :
  forall s p, ~ In SLASH s -> of_addr_text (SLASH :: NAME_P2P ++ SLASH :: s) = Some p ->
  (forall b, b58_decode s = Some b -> (length b <= length (digest p) + 10)%nat) ->
  SLASH :: NAME_P2P ++ SLASH :: s = to_addr_text p).
