From Coq Require Import List NArith Bool.
From V.gen Require Consts PeerIdSites.
From V.common Require Import Varint Protobuf Sha256.
From V.C18 Require Import Model Proofs KeyProofs Addr AddrProofs.
From V.C19 Require Import Formats.
Import ListNotations.
Open Scope N_scope.
From V.C18 Require Import Properties.
Check (C18_derive_inline :
  forall sha enc, len enc <= 42 -> of_key_enc sha enc = mkPid 0 enc).
Check (C18_derive_hashed :
  forall sha enc, 42 < len enc -> of_key_enc sha enc = mkPid 18 sha).
Check (C18_ed25519_inline :
  forall sha k, length k = 32%nat ->
    len (encode_ed25519 k) = 36 /\ of_ed25519 sha k = mkPid 0 ([8; 1; 18; 32] ++ k)).
Check (C18_ed25519_injective :
  forall sha1 sha2 k1 k2, length k1 = 32%nat -> length k2 = 32%nat ->
    of_ed25519 sha1 k1 = of_ed25519 sha2 k2 -> k1 = k2).
Check (C18_ed25519_encoding_roundtrip :
  forall k, length k = 32%nat -> decode_ed25519_canonical (encode_ed25519 k) = Some k).
Check (C18_ed25519_encoding_unique :
  forall b k, decode_ed25519_canonical b = Some k -> b = encode_ed25519 k /\ length k = 32%nat).
Check (C18_derived_valid :
  forall sha enc, bytes_ok enc = true -> bytes_ok sha = true -> length sha = 32%nat ->
    valid (of_key_enc sha enc) = true).
Check (C18_parsed_valid :
  forall b p, of_bytes b = Some p -> valid p = true).
Check (C18_parsed_text_valid :
  forall t p, of_text t = Some p -> valid p = true).
Check (C18_parsed_component_valid :
  forall b p, of_component b = Some p -> valid p = true).
Check (C18_admits_reference :
  forall p, admits p = ref_admits p).
Check (C18_bytes_roundtrip :
  forall p, valid p = true -> of_bytes (to_bytes p) = Some p).
Check (C18_text_roundtrip :
  forall p, valid p = true -> of_text (to_text p) = Some p).
Check (C18_component_roundtrip :
  forall p, valid p = true -> of_component (to_component p) = Some p).
Check (C18_bytes_normalise :
  forall b p, of_bytes b = Some p -> of_bytes (to_bytes p) = Some p).
Check (C18_bytes_canonical_partial :
  forall b p, of_bytes b = Some p -> (length b <= length (digest p) + 10)%nat -> to_bytes p = b).
Check (C18_bytes_canonical_refuted :
  exists b p, of_bytes b = Some p /\ to_bytes p <> b).
Check (C18_b58_decode_encode :
  forall b, bytes_ok b = true -> b58_decode (b58_encode b) = Some b).
Check (C18_b58_encode_decode :
  forall t b, b58_decode t = Some b -> b58_encode b = t /\ bytes_ok b = true).
Check (C18_text_canonical_partial :
  forall t p, of_text t = Some p ->
    (forall b, b58_decode t = Some b -> (length b <= length (digest p) + 10)%nat) ->
    to_text p = t).
Check (C18_varint_roundtrip :
  forall n rest, n < 2 ^ 64 -> decode_u64 (encode n ++ rest) = Some (n, rest)).
Check (C18_varint_minimal :
  forall l n rest, bytes_ok l = true -> decode_u64 l = Some (n, rest) ->
    exists pre, l = pre ++ rest /\ (1 <= length pre <= 10)%nat /\ bytes_ok pre = true /\
                ((length pre <= 9)%nat -> pre = encode n)).
Check (C18_single_derivation :
  forall (H : hash) (dec : decoder),
  (forall k,
     from_impl H k = from_public_key H k /\ publickey_to_peer_id H k = from_public_key H k /\
     ed25519_to_peer_id H k = from_public_key H k /\ local_peer_id H k = from_public_key H k /\
     identify_local_peer_id H k = from_public_key H k /\
     from_public_key H k = derive H (key_encoding (KEd k))) /\
  (forall k, remote_to_peer_id H k = derive H (key_encoding k)) /\
  (forall identity verified,
     tls_identity dec H identity verified = noise_identity dec H identity verified) /\
  (forall identity k, dec identity = Some k ->
     noise_identity dec H identity true = Some (derive H (key_encoding k)) /\
     noise_identity dec H identity false = None) /\
  (forall identity v, dec identity = None -> noise_identity dec H identity v = None)).
Check (C18_derivation_sites :
  derivation_sites = V.gen.PeerIdSites.sites).
Check (C18_identity_encoding_irrelevant :
  forall dec H b1 b2 v, dec b1 = dec b2 -> noise_identity dec H b1 v = noise_identity dec H b2 v).
Check (C18_ed25519_id :
  forall H k, length k = 32%nat -> from_public_key H k = mkPid 0 ([8; 1; 18; 32] ++ k)).
Check (C18_rsa_id :
  forall H pk, 19 <= len pk ->
    remote_to_peer_id H (KRsa pk) = mkPid 18 (H ([8; 0; 18] ++ encode (len (spki pk)) ++ spki pk))).
Check (C18_is_public_key_own :
  forall H k, length k = 32%nat -> is_public_key H (from_public_key H k) k = Some true).
Check (C18_is_public_key_true :
  forall H p k, is_public_key H p k = Some true <->
    p = mkPid 0 (encode_ed25519 k) \/ p = mkPid 18 (H (encode_ed25519 k))).
Check (C18_random_valid :
  forall r, length r = 32%nat -> bytes_ok r = true -> valid (random_pid r) = true).
Check (C18_eq_iff_bytes :
  forall p q, valid p = true -> valid q = true ->
  (p = q <-> to_bytes p = to_bytes q) /\ (p = q <-> to_text p = to_text q) /\
  (p = q <-> to_component p = to_component q) /\
  (pid_eqb p q = true <-> p = q) /\ (pid_cmp p q = Eq <-> p = q)).
Check (C18_ord_is_bytes_order :
  forall p q, valid p = true -> valid q = true -> pid_cmp p q = list_cmp (to_bytes p) (to_bytes q)).
Check (C18_serde_roundtrip :
  forall p, valid p = true ->
  de_hr (ser_hr p) = Some p /\ de_bin (ser_bin p) = Some p /\ of_json (json_of p) = Some p).
Check (C18_serde_sound :
  (forall t p, de_hr t = Some p -> valid p = true) /\ (forall b p, de_bin b = Some p -> valid p = true)).
Check (C18_text_alphabet :
  forall p c, In c (to_text p) -> In c alphabet /\ json_plain c = true /\ c <> SLASH).
Check (C18_addr_text_roundtrip :
  forall p, valid p = true ->
  of_addr_text (to_addr_text p) = Some p /\
  of_addr_text (SLASH :: NAME_IPFS ++ SLASH :: to_text p) = Some p).
Check (C18_addr_text_valid :
  forall t p, of_addr_text t = Some p -> valid p = true).
Check (C18_addr_text_canonical_partial :
  forall s p, ~ In SLASH s -> of_addr_text (SLASH :: NAME_P2P ++ SLASH :: s) = Some p ->
  (forall b, b58_decode s = Some b -> (length b <= length (digest p) + 10)%nat) ->
  SLASH :: NAME_P2P ++ SLASH :: s = to_addr_text p).
Check (C18_keymsg_roundtrip :
  forall m, k_type m < 2 ^ 32 -> len (k_data m) < 2 ^ 64 -> decode_keymsg (encode_keymsg m) = Some m).
Check (C18_key_encoding_is_message :
  (forall k, length k = 32%nat -> key_encoding (KEd k) = encode_keymsg (mkKeyMsg KT_ED25519 k)) /\
  (forall pk, key_encoding (KRsa pk) = encode_keymsg (mkKeyMsg KT_RSA (spki pk)))).
Check (C18_admission_tables :
  KT_RSA = 0 /\ KT_ED25519 = 1 /\ KT_SECP256K1 = 2 /\ KT_ECDSA = 3 /\
  key_types = V.gen.PeerIdSites.key_type_numbers /\
  remote_admission = V.gen.PeerIdSites.remote_admission /\
  local_admission = V.gen.PeerIdSites.local_admission).
Check (C18_key_types :
  map (admitted_type remote_admission false) key_types = [false; true; false; false] /\
  map (admitted_type remote_admission true) key_types = [true; true; false; false] /\
  map (admitted_type local_admission true) key_types = [false; true; false; false] /\
  (forall rsa t, 4 <= t -> admitted_type remote_admission rsa t = false)).
Check (C18_key_admission_sound :
  forall on_curve x509 rsa b k, decode_pubkey on_curve x509 rsa b = Some k ->
    exists m, decode_keymsg b = Some m /\
    match k with
    | KEd kk => k_type m = 1 /\ k_data m = kk /\ length kk = 32%nat /\ on_curve kk = true
    | KRsa pk => k_type m = 0 /\ rsa = true /\ x509 (k_data m) = Some pk
    end).
Check (C18_key_admission_other_types :
  forall on_curve x509 rsa b m,
    decode_keymsg b = Some m -> k_type m <> 1 -> (k_type m <> 0 \/ rsa = false) ->
    decode_pubkey on_curve x509 rsa b = None).
Check (C18_key_admission_canonical :
  forall on_curve x509 rsa,
  (forall k, length k = 32%nat ->
     decode_pubkey on_curve x509 rsa (key_encoding (KEd k)) = if on_curve k then Some (KEd k) else None) /\
  (forall pk, len (spki pk) < 2 ^ 64 ->
     decode_pubkey on_curve x509 rsa (key_encoding (KRsa pk)) =
       if rsa then match x509 (spki pk) with Some pk' => Some (KRsa pk') | None => None end else None)).
Check (C18_ed25519_try_from_bytes :
  forall oc d k, ed25519_try_from_bytes oc d = Some k <-> (k = d /\ length d = 32%nat /\ oc d = true)).
Check (C18_remote_identity_canonical :
  forall on_curve x509 rsa (H : hash) b v p,
    noise_identity (decode_pubkey on_curve x509 rsa) H b v = Some p ->
    v = true /\ exists k, decode_pubkey on_curve x509 rsa b = Some k /\ p = derive H (key_encoding k) /\
      match k with
      | KEd kk => p = mkPid 0 (encode_ed25519 kk) /\ length kk = 32%nat /\ on_curve kk = true /\
                  decode_pubkey on_curve x509 rsa (digest p) = Some (KEd kk)
      | KRsa pk => rsa = true
      end).
Check (C18_remote_identity_one_id :
  forall on_curve x509 rsa (H : hash) b1 b2 k,
    decode_pubkey on_curve x509 rsa b1 = Some k -> decode_pubkey on_curve x509 rsa b2 = Some k ->
    noise_identity (decode_pubkey on_curve x509 rsa) H b1 true =
      noise_identity (decode_pubkey on_curve x509 rsa) H b2 true /\
    tls_identity (decode_pubkey on_curve x509 rsa) H b1 true =
      noise_identity (decode_pubkey on_curve x509 rsa) H b1 true).
Check (C18_parse_sites :
  parse_sites = V.gen.PeerIdSites.parse_sites).
Check (C18_bytes_header :
  forall b p, of_bytes b = Some p ->
    exists h, b = h ++ digest p /\ (length h = 2 \/ length h = 11 \/ length h = 20)%nat /\
              (length h = 2%nat -> h = [code p; len (digest p)])).
Check (C18_bytes_canonical_iff :
  forall b p, of_bytes b = Some p -> (to_bytes p = b <-> length b = (length (digest p) + 2)%nat)).
Check (C18_bytes_noncanonical_length :
  forall b p, of_bytes b = Some p -> to_bytes p <> b ->
    (length b = length (to_bytes p) + 9 \/ length b = length (to_bytes p) + 18)%nat).
Check (C18_text_canonical_iff :
  forall t p, of_text t = Some p ->
    (to_text p = t <-> exists b, b58_decode t = Some b /\ length b = (length (digest p) + 2)%nat)).
Check (C18_component_canonical_iff :
  forall b p, of_component b = Some p -> (to_component p = b <-> length b = (length (digest p) + 5)%nat)).
Check (C18_strict_parser :
  (forall b p, of_bytes_strict b = Some p <-> (valid p = true /\ b = to_bytes p)) /\
  (forall b, of_bytes_strict b <> of_bytes b <->
     exists p, of_bytes b = Some p /\
               (length b = length (to_bytes p) + 9 \/ length b = length (to_bytes p) + 18)%nat)).
Check (C18_text_error_variant :
  forall t,
  (of_text_err t = 0 <-> exists p, of_text t = Some p) /\
  (of_text_err t = 1 <-> b58_decode t = None) /\
  (of_text_err t = 2 <-> exists b, b58_decode t = Some b /\ of_bytes b = None)).
Check (C18_is_public_key_total :
  forall H p k, valid p = true -> is_public_key H p k <> None).
Check (C18_is_public_key_other :
  forall H k1 k2, length k1 = 32%nat -> length k2 = 32%nat -> k1 <> k2 ->
    is_public_key H (from_public_key H k1) k2 = Some false).
Check (C18_infallible_conversion :
  forall p, valid p = true -> ref_admits p = true).
Check (C18_multiaddr_roundtrip :
  forall cs, forallb comp_ok cs = true -> maddr_parse (enc_maddr cs) = Ok cs).
Check (C18_multiaddr_trailing_p2p :
  forall cs p, forallb comp_ok cs = true -> valid p = true ->
    of_maddr (enc_maddr (cs ++ [(P2P, to_bytes p)])) = Some p).
Check (C18_multiaddr_id_valid :
  forall b p, of_maddr b = Some p -> valid p = true).
Check (C18_component_is_multiaddr :
  forall p, valid p = true -> of_maddr (to_component p) = Some p /\ of_component (to_component p) = Some p).
Check (C18_parsed_p2p_has_id :
  forall b cs, maddr_parse b = Ok cs -> ends_with_p2p cs = true -> exists p, of_maddr b = Some p).
Check (C18_address_record_new :
  forall p b cs, maddr_parse b = Ok cs -> valid p = true ->
    exists rb, record_new_bytes p b = Some rb /\ maddr_parse rb = Ok (record_new p cs) /\
      (ends_with_p2p cs = false -> of_maddr rb = Some p) /\
      (ends_with_p2p cs = true -> rb = b /\ exists q, of_maddr rb = Some q)).
Check (C18_address_record_components :
  forall p cs, forallb comp_ok cs = true -> valid p = true ->
    ends_with_p2p (record_new p cs) = true /\
    forallb comp_ok (record_new p cs) = true /\
    (ends_with_p2p cs = false -> of_maddr (enc_maddr (record_new p cs)) = Some p) /\
    (ends_with_p2p cs = true -> record_new p cs = cs)).
Check (C18_derive_sha256 :
  forall enc, derive sha256 enc = (if len enc <=? 42 then mkPid 0 enc else mkPid 18 (sha256 enc)) /\
              derive_fast enc = derive sha256 enc).
Check (C18_derived_roundtrip :
  forall enc, bytes_ok enc = true ->
    valid (derive sha256 enc) = true /\
    of_bytes (to_bytes (derive sha256 enc)) = Some (derive sha256 enc) /\
    of_text (to_text (derive sha256 enc)) = Some (derive sha256 enc) /\
    of_component (to_component (derive sha256 enc)) = Some (derive sha256 enc)).
Check (C18_text_noncanonical_length :
  forall t p, of_text t = Some p -> to_text p <> t ->
    exists b, b58_decode t = Some b /\
      (length b = length (to_bytes p) + 9 \/ length b = length (to_bytes p) + 18)%nat).
Check (C18_component_noncanonical_length :
  forall b p, of_component b = Some p -> to_component p <> b ->
    exists e, (length b = length (to_component p) + e)%nat /\ In e [3; 9; 12; 18; 21; 27; 30]%nat).
