From Coq Require Import List NArith Bool.
From V.gen Require Consts.
From V.C03 Require Import Model Msg Proofs MsgRef MsgProofs.
Import ListNotations.
Open Scope N_scope.
From V.C03 Require Import Properties.
Check (C03_codec_roundtrip :
  forall m, wf_msg m -> decode_msg (encode_msg m) = DOk m).
Check (C03_codec_injective :
  forall m1 m2, wf_msg m1 -> wf_msg m2 -> encode_msg m1 = encode_msg m2 -> m1 = m2).
Check (C03_frame_exact :
  forall body tail, len body <= MAX_FRAME ->
  forall fuel st p pre st' p' r,
  InFrame body st pre -> agrees body tail pre (p_buf p) ->
  rd_poll fuel st p = (st', p', r) ->
  exists consumed,
    p_buf p = consumed ++ p_buf p' /\ p_closed p' = p_closed p /\
    match r with
    | FPending => InFrame body st' (pre ++ consumed)
    | FFrame b => b = body /\ pre ++ consumed = frame body /\ st' = rd_init
    | FErr e => e = IoUnexpectedEof /\ p_closed p = true /\ p_buf p' = [] /\ pre ++ consumed <> []
    | FNone => pre = [] /\ consumed = [] /\ p_buf p = [] /\ p_closed p = true
    end).
Check (C03_writer_exact :
  forall fuel wbuf p w' p' ok,
  wr_drain fuel wbuf p = (w', p', ok) ->
  exists written, wbuf = written ++ w' /\ p_buf p' = p_buf p ++ written /\
                  p_total p' = p_total p ++ written /\ p_closed p' = p_closed p /\
                  p_rscript p' = p_rscript p /\ (ok = true -> w' = [])).
Check (C03_agreement_dialer :
  forall ds ls sched r, wfd ds ->
  d_result (mrun ls sched (minit ds)) = Some r -> r = first_common ds ls).
Check (C03_agreement_listener :
  forall ds ls sched r, wfd ds ->
  l_result (mrun ls sched (minit ds)) = Some r -> r = first_common ds ls).
Check (C03_terminates :
  forall ds ls sched, wfd ds -> fair (fair_bound ds) sched ->
  d_result (mrun ls sched (minit ds)) = Some (first_common ds ls) /\
  l_result (mrun ls sched (minit ds)) = Some (first_common ds ls)).
Check (C03_handover_dialer :
  forall ds ls sched p, wfd ds ->
  let s := mrun ls sched (minit ds) in
  d_result s = Some (Some p) ->
  c_ld s = [] /\ md_wbuf (sd s) = [] /\ dl_closed s = false /\ ld_closed s = false).
Check (C03_handover_listener :
  forall ds ls sched p, wfd ds ->
  let s := mrun ls sched (minit ds) in
  l_result s = Some (Some p) ->
  c_dl s = [] /\ ml_wbuf (sl s) = [] /\ dl_closed s = false /\ ld_closed s = false).
