From Coq Require Import List NArith Bool.
From V.gen Require Consts.
From V.C03 Require Import Model Msg Proofs UviProofs LsProofs WebRtc WebRtcProofs WGroup WGroupProofs Fallback.
From V.C03 Require Import MsgRef MsgProofs MsgInv Chan Dir SimD SimL SimSys BytesThm LazyThm.
From V.C03 Require Import Work Work2 Live Timed TimedProofs Survivor NegOps LazyBytes Compose Sub SubProofs.
From V.C03 Require Import Peer PeerTie RefDiff.
From V.C03 Require Glue.
Import ListNotations.
Open Scope N_scope.
From V.C03 Require Import Properties.
Check (C03_codec_roundtrip :
  forall m, wf_msg m -> decode_msg (encode_msg m) = DOk m).
Check (C03_codec_injective :
  forall m1 m2, wf_msg m1 -> wf_msg m2 -> encode_msg m1 = encode_msg m2 -> m1 = m2).
Check (C03_ls_roundtrip :
  forall ps, Forall wf_entry ps -> N.of_nat (length ps) <= V.gen.Consts.C03_MAX_PROTOCOLS ->
  decode_msg (encode_msg (MProtos ps)) = DOk (MProtos ps)).
Check (C03_ls_too_many :
  forall ps, Forall wf_entry ps -> V.gen.Consts.C03_MAX_PROTOCOLS < N.of_nat (length ps) ->
  decode_msg (encode_msg (MProtos ps)) = DErr ETooMany).
Check (C03_varint_roundtrip :
  forall n t, n < 2 ^ 64 -> uvi_dec (uvi_enc n ++ t) = Some (n, t)).
Check (C03_frame_exact :
  forall body tail, len body <= MAX_FRAME ->
  forall fuel st p pre st' p' r,
  InFrame body st pre -> agrees body tail pre (p_buf p) ->
  rd_poll fuel st p = (st', p', r) ->
  exists consumed,
    p_buf p = consumed ++ p_buf p' /\ p_closed p' = p_closed p /\
    match r with
    | FPending => InFrame body st' (pre ++ consumed)
    | FFrame b => b = body /\ pre ++ consumed = frame body /\ st' = rd_init
    | FErr e => e = IoUnexpectedEof /\ p_closed p = true /\ p_buf p' = [] /\ pre ++ consumed <> []
    | FNone => pre = [] /\ consumed = [] /\ p_buf p = [] /\ p_closed p = true
    end).
Check (C03_writer_exact :
  forall fuel wbuf p w' p' ok,
  wr_drain fuel wbuf p = (w', p', ok) ->
  exists written, wbuf = written ++ w' /\ p_buf p' = p_buf p ++ written /\
                  p_total p' = p_total p ++ written /\ p_closed p' = p_closed p /\
                  p_rscript p' = p_rscript p /\ (ok = true -> w' = [])).
Check (C03_agreement_dialer :
  forall ds ls sched r, wfd ds ->
  d_result (mrun ls sched (minit ds)) = Some r -> r = first_common ds ls).
Check (C03_agreement_listener :
  forall ds ls sched r, wfd ds ->
  l_result (mrun ls sched (minit ds)) = Some r -> r = first_common ds ls).
Check (C03_terminates :
  forall ds ls sched, wfd ds -> fair (fair_bound ds) sched ->
  d_result (mrun ls sched (minit ds)) = Some (first_common ds ls) /\
  l_result (mrun ls sched (minit ds)) = Some (first_common ds ls)).
Check (C03_handover_dialer :
  forall ds ls sched p, wfd ds ->
  let s := mrun ls sched (minit ds) in
  d_result s = Some (Some p) ->
  c_ld s = [] /\ md_wbuf (sd s) = [] /\ dl_closed s = false /\ ld_closed s = false).
Check (C03_handover_listener :
  forall ds ls sched p, wfd ds ->
  let s := mrun ls sched (minit ds) in
  l_result s = Some (Some p) ->
  c_dl s = [] /\ ml_wbuf (sl s) = [] /\ dl_closed s = false /\ ld_closed s = false).
Check (C03_bytes_project :
  forall c who, wf_case c ->
  exists sched, Sim (c_ds c) (c_ls c) (polls who (sys_init c)) (mrun (c_ls c) sched (minit (c_ds c)))).
Check (C03_bytes_poll_sim :
  forall ds ls, Forall wfn ds -> forall who s m, Sim ds ls s m ->
  exists k, Sim ds ls (poll_side who s) (mrun ls (repeat (negb who) k) m)).
Check (C03_bytes_dialer_result :
  forall c who, wf_case c -> forall i, t_res (s_d (polls who (sys_init c))) = (0, i) ->
  exists p, first_common (c_ds c) (c_ls c) = Some p /\ first_at (c_ds c) (c_ls c) i p).
Check (C03_bytes_listener_result :
  forall c who, wf_case c -> forall j, t_res (s_l (polls who (sys_init c))) = (0, j) ->
  exists p, first_common (c_ds c) (c_ls c) = Some p /\ lidx 0 (c_ls c) p = Some j).
Check (C03_bytes_dialer_failure :
  forall c who, wf_case c -> forall code i, t_res (s_d (polls who (sys_init c))) = (code, i) ->
  code <> 0 -> code <> 99 -> first_common (c_ds c) (c_ls c) = None).
Check (C03_bytes_listener_failure :
  forall c who, wf_case c -> forall code j, t_res (s_l (polls who (sys_init c))) = (code, j) ->
  code <> 0 -> code <> 99 -> first_common (c_ds c) (c_ls c) = None).
Check (C03_bytes_transparent :
  forall c who, wf_case c ->
  let s := polls who (sys_init c) in
  t_done (s_d s) = true -> t_done (s_l s) = true ->
  forall p, first_common (c_ds c) (c_ls c) = Some p ->
  t_got (s_l s) = c_dpay c /\ t_got (s_d s) = c_lpay c /\
  t_end (s_d s) = 0 /\ t_end (s_l s) = 0 /\ p_buf (s_dl s) = [] /\ p_buf (s_ld s) = []).
Check (C03_bytes_run_correct :
  forall c fuel s st, wf_case c ->
  run_sys fuel (c_sched c) false 0 (sys_init c) = (s, st) -> st = 0 ->
  match first_common (c_ds c) (c_ls c) with
  | Some p =>
      exists i j, t_res (s_d s) = (0, i) /\ t_res (s_l s) = (0, j) /\
        first_at (c_ds c) (c_ls c) i p /\ lidx 0 (c_ls c) p = Some j /\
        t_got (s_l s) = c_dpay c /\ t_got (s_d s) = c_lpay c /\
        t_end (s_d s) = 0 /\ t_end (s_l s) = 0 /\ p_buf (s_dl s) = [] /\ p_buf (s_ld s) = []
  | None =>
      fst (t_res (s_d s)) <> 0 /\ fst (t_res (s_l s)) <> 0
  end).
Check (C03_bytes_poll_work :
  forall b s, WfS s ->
  WfS (poll_side b s) /\ Phi (poll_side b s) <= Phi s /\
  (Phi (poll_side b s) = Phi s -> poll_side b s = s /\ Blocked b s)).
Check (C03_bytes_no_deadlock :
  forall ds ls, Forall wfn ds -> forall s m, Sim ds ls s m ->
  Blocked false s -> Blocked true s ->
  t_done (s_d s) = true /\ t_done (s_l s) = true).
Check (C03_bytes_terminate :
  forall c, wf_case c -> forall K who,
  fair K who -> Phi (sys_init c) < N.of_nat K ->
  t_done (s_d (polls who (sys_init c))) = true /\ t_done (s_l (polls who (sys_init c))) = true).
Check (C03_lazy_immediate :
  forall d pin pout fuel, wfn d ->
  d_poll (S (S fuel)) (d_init [d] true) pin pout =
  (mkDialer (DSendProto 0 d false) [] true rd_init (fr MHeader), pin, pout,
   NLazy 0 d rd_init (fr MHeader ++ fr (MProto d)))).
Check (C03_lazy_dialer_verdict :
  forall d ls, starts_slash d = true -> forall junk sched,
  let m := mrun ls sched (lazy_init d junk) in
  (forall q, md_ph (sd m) = MDDone (Some q) -> q = d /\ supported ls d = true) /\
  (md_ph (sd m) = MDDone None -> supported ls d = false)).
Check (C03_lazy_listener_agreement_refuted :
  exists d ls junk sched,
    let m := mrun ls sched (lazy_init d junk) in
    md_ph (sd m) = MDDone None /\ ml_ph (sl m) = MLDone (Some [47; 98]) /\ d <> [47; 98]).
Check (C03_webrtc_listener_header_proposal :
  forall ls p b, wf_name p -> webrtc_encode (MProto p) true = Some b ->
  match l_find ls p with
  | Some i => exists reply, webrtc_encode (MProto p) true = Some reply /\
                            webrtc_listener ls b false = WLAccepted i reply
  | None => exists reply, webrtc_encode MNa true = Some reply /\
                          webrtc_listener ls b false = WLRejected reply
  end).
Check (C03_webrtc_listener_proposal_after_header :
  forall ls p b, wf_name p -> webrtc_encode (MProto p) false = Some b ->
  match l_find ls p with
  | Some i => exists reply, webrtc_encode (MProto p) false = Some reply /\
                            webrtc_listener ls b true = WLAccepted i reply
  | None => exists reply, webrtc_encode MNa false = Some reply /\
                          webrtc_listener ls b true = WLRejected reply
  end).
Check (C03_webrtc_listener_header_alone :
  forall ls, webrtc_listener ls (uvi_enc (len MSG_HEADER) ++ MSG_HEADER) false =
             WLPendingProtocol (uvi_enc (len MSG_HEADER) ++ MSG_HEADER)).
Check (C03_webrtc_listener_trailing_rejected :
  forall ls p hdr b extra, wf_name p -> webrtc_encode (MProto p) (negb hdr) = Some b ->
  extra <> [] -> webrtc_listener ls (b ++ extra) hdr = WLErr 1).
Check (C03_webrtc_dialer_grouping :
  forall p rest, rest <> [] ->
  let '(w1, r1) := webrtc_dialer_register (S (length hdr_part)) p false hdr_part in
  r1 = WDNotReady /\
  webrtc_dialer_register (S (length rest)) p w1 rest =
  webrtc_dialer_register (S (length (hdr_part ++ rest))) p false (hdr_part ++ rest)).
Check (C03_webrtc_session_agreement :
  forall ls p fs, Forall wfw (p :: fs) ->
  let sup := ws_supported (tag_from 0 ls) in
  let r := webrtc_session ls p fs in
  ws_dialer r = find sup (p :: fs) /\
  ws_listener r = match find sup (p :: fs) with
                  | Some q => l_find (tag_from 0 ls) q
                  | None => None
                  end /\
  ws_proposed r = take_until sup (p :: fs)).
Check (C03_webrtc_grouping_irrelevant :
  forall cur (first : bool) v gs,
  legal_verdict v -> (first = true -> hd 1 gs <> 0) ->
  let msgs := group gs (reply_frames first v) in
  let whole := webrtc_dialer_register (S (length (concat (reply_frames first v)))) cur (negb first)
                                      (concat (reply_frames first v)) in
  wd_feed cur (negb first) msgs =
  (fst whole, repeat WDNotReady (length msgs - 1) ++ [snd whole])).
Check (C03_webrtc_whole_reply_verdict :
  forall cur (first : bool) v, legal_verdict v ->
  webrtc_dialer_register (S (length (concat (reply_frames first v)))) cur (negb first)
                         (concat (reply_frames first v)) = (true, verdict_of cur v)).
Check (C03_webrtc_grouped_session_spec :
  forall p fs ls gss,
  forallb Glue.wfw_b (p :: fs) = true -> Glue.clean4 gss = true ->
  Glue.propose_msg p true = Some (hdr_part ++ msg_part (MProto p)) /\
  [1; 0] ++ Glue.enc_bytes (hdr_part ++ msg_part (MProto p)) ++
    Glue.run4 (tag_from 0 ls) fs p (hdr_part ++ msg_part (MProto p)) false false gss =
  1 :: Glue.spec4_trace p fs ls gss).
Check (C03_webrtc_session_oracle_accepts_model :
  forall p fs ls gss tb,
  forallb Glue.wfw_b (p :: fs) = true -> Glue.clean4 gss = true ->
  (match Glue.propose_msg p true with
   | Some m => [1; 0] ++ Glue.enc_bytes m ++ Glue.run4 (tag_from 0 ls) fs p m false false gss
   | None => [1; 1]
   end) = 1 :: tb ->
  Glue.ok4 p fs ls gss tb = true /\ tb = Glue.spec4_trace p fs ls gss).
Check (C03_fallback_reported_to_main :
  forall cfg m fs f, wf_cfg cfg -> In (m, fs) cfg -> In f fs -> report cfg f = Some (m, Some f)).
Check (C03_main_reported_as_main :
  forall cfg m, wf_cfg cfg -> In m (mains cfg) -> report cfg m = Some (m, None)).
Check (C03_unknown_not_supported :
  forall cfg n, ~ In n (mains cfg) -> ~ In n (fallbacks cfg) -> report cfg n = None).
Check (C03_offered_always_supported :
  forall cfg n, In n (offered cfg) ->
  exists m fb, report cfg n = Some (m, fb) /\ In m (mains cfg)).
Check (C03_report_consistent :
  forall cfg n m fb, report cfg n = Some (m, fb) ->
  In m (mains cfg) /\
  match fb with
  | Some f => f = n /\ exists fs, In (m, fs) cfg /\ In n fs
  | None => m = n /\ ~ In n (fallbacks cfg)
  end).
Check (C03_report_order_irrelevant :
  forall cfg cfg' n, wf_cfg cfg -> Permutation.Permutation cfg cfg' -> report cfg' n = report cfg n).
Check (C03_codec_resolves_like_report :
  forall cfg n, resolve cfg n = option_map fst (report cfg n)).
Check (C03_fallback_oracle_exact :
  forall cfg n r, wf_cfg cfg -> ok_rep cfg n r = true -> r = report cfg n).
Check (C03_fallback_oracle_accepts_model :
  forall case : list N, ok_fallback case (run_fallback case) = true).
Check (C03_timeout_peer_poll :
  forall fuel t pin pout t1 pi1 po1,
  t_poll fuel t pin pout = (t1, pi1, po1) ->
  exists t1' pi1' po1', t_poll fuel t (pipe_close pin) pout = (t1', pi1', po1') /\
    ((t1' = t1 /\ pi1' = pipe_close pi1 /\ po1' = po1) \/
     (t_ph t1' = TDone /\
      (fst (t_res t1') <> 0 \/
       (t_res t1' = t_res t1 /\
        exists acc, t_ph t1 = TRead NCompleted acc /\ t_got t1' = acc /\ t_end t1' = 0) \/
       (t_res t1' = t_res t1 /\ t_end t1' <> 0 /\
        exists g acc, t_ph t1 = TRead g acc /\ g <> NCompleted))))).
Check (C03_timeout_dialer_result :
  forall c to_d to_l es, wf_case c ->
  forall i, t_res (s_d (ts_sys (trun to_d to_l es (tinit c)))) = (0, i) ->
  exists p, first_common (c_ds c) (c_ls c) = Some p /\ first_at (c_ds c) (c_ls c) i p).
Check (C03_timeout_listener_result :
  forall c to_d to_l es, wf_case c ->
  forall j, t_res (s_l (ts_sys (trun to_d to_l es (tinit c)))) = (0, j) ->
  exists p, first_common (c_ds c) (c_ls c) = Some p /\ lidx 0 (c_ls c) p = Some j).
Check (C03_timeout_both_ok_plain :
  forall c to_d to_l es,
  let sa := ts_sys (trun to_d to_l es (tinit c)) in
  fst (t_res (s_d sa)) = 0 -> fst (t_res (s_l sa)) = 0 ->
  exists who, sa = polls who (sys_init c)).
Check (C03_timeout_survivor_clean :
  forall c, wf_case c -> forall to_d to_l es,
  let sa := ts_sys (trun to_d to_l es (tinit c)) in
  t_done (s_d sa) = true -> t_done (s_l sa) = true ->
  fst (t_res (s_d sa)) <> 0 -> fst (t_res (s_l sa)) = 0 ->
  t_got (s_l sa) = [] /\ t_end (s_l sa) = 0).
Check (C03_timeout_terminates :
  forall c to_d to_l, wf_case c -> forall K es,
  tfair K es -> Phi (sys_init c) < N.of_nat K ->
  let sa := ts_sys (trun to_d to_l es (tinit c)) in
  t_done (s_d sa) = true /\ t_done (s_l sa) = true).
Check (C03_timeout_no_fire :
  forall c to_d to_l es, nticks es < to_d -> nticks es < to_l ->
  ts_sys (trun to_d to_l es (tinit c)) = polls (polls_of es) (sys_init c)).
Check (C03_timeout_run_correct :
  forall c to_d to_l fuel S st, wf_case c ->
  run_tsys to_d to_l fuel (c_sched c) false 0 (tinit c) = (S, st) ->
  let s := ts_sys S in
  (forall i, t_res (s_d s) = (0, i) ->
     exists p, first_common (c_ds c) (c_ls c) = Some p /\ first_at (c_ds c) (c_ls c) i p) /\
  (forall j, t_res (s_l s) = (0, j) ->
     exists p, first_common (c_ds c) (c_ls c) = Some p /\ lidx 0 (c_ls c) p = Some j) /\
  (st = 0 -> fst (t_res (s_d s)) = 0 -> fst (t_res (s_l s)) = 0 ->
     t_got (s_l s) = c_dpay c /\ t_got (s_d s) = c_lpay c /\
     t_end (s_d s) = 0 /\ t_end (s_l s) = 0 /\ p_buf (s_dl s) = [] /\ p_buf (s_ld s) = [])).
Check (C03_lazy_expect_exact :
  forall p m tail, okmsg m ->
  forall fuel st wbuf hdr pre pin pout g' pin' pout' r,
  ExpAt m hdr st pre ->
  (exists fut, pre ++ p_buf pin ++ fut = fr MHeader ++ fr m ++ tail) ->
  neg_poll fuel (NExpecting st wbuf p hdr) pin pout = (g', pin', pout', r) ->
  exists consumed written w',
    p_buf pin = consumed ++ p_buf pin' /\ wbuf = written ++ w' /\ p_buf pout' = p_buf pout ++ written /\
    match r with
    | PPending => exists st' hdr', g' = NExpecting st' w' p hdr' /\ ExpAt m hdr' st' (pre ++ consumed)
    | _ =>
        (w' = [] /\ pre ++ consumed = fr MHeader ++ fr m /\ r = verdict p m /\ g' = after_verdict r) \/
        (r = PErr C_IO_EOF /\ p_closed pin = true /\ p_buf pin' = [] /\ g' = NInvalid)
    end).
Check (C03_lazy_read_exact :
  forall p m tail k, okmsg m -> 1 <= k ->
  forall st wbuf hdr pre pin pout g' pin' pout' r,
  ExpAt m hdr st pre ->
  (exists fut, pre ++ p_buf pin ++ fut = fr MHeader ++ fr m ++ tail) ->
  op_read 2 k (NExpecting st wbuf p hdr) pin pout = (g', pin', pout', r) ->
  exists consumed, p_buf pin = consumed ++ p_buf pin' /\
  match r with
  | OData bs =>
      verdict p m = POk /\ g' = NCompleted /\ pre ++ consumed = fr MHeader ++ fr m ++ bs /\
      p_buf pout' = p_buf pout ++ wbuf /\ (bs = [] -> p_buf pin' = [] /\ p_closed pin = true)
  | OErr c =>
      g' = NInvalid /\ p_closed pout' = true /\
      ((exists c0, verdict p m = PErr c0 /\ c = io_code c0 /\ pre ++ consumed = fr MHeader ++ fr m) \/
       (c = C_IO_EOF /\ p_closed pin = true /\ p_buf pin' = []))
  | OPending => exists z, pre ++ consumed ++ z = fr MHeader ++ fr m
  | ODone _ => False
  end).
Check (C03_lazy_write_exact :
  forall op st wbuf p hdr pin pout g' pin' pout' r,
  (match op with OpRead _ => False | OpWrite d => d <> [] | _ => True end) ->
  op_poll op (NExpecting st wbuf p hdr) pin pout = (g', pin', pout', r) ->
  exists written w' app,
    pin' = pin /\ g' = NExpecting st w' p hdr /\ wbuf = written ++ w' /\
    p_buf pout' = p_buf pout ++ written ++ app /\ (app <> [] -> w' = []) /\
    match r with
    | OPending => app = []
    | ODone n =>
        w' = [] /\
        match op with
        | OpWrite d => app = firstn (N.to_nat n) d /\ 1 <= n
        | OpClose => app = [] /\ p_closed pout' = true
        | _ => app = []
        end
    | _ => False
    end).
Check (C03_negotiated_failed_sticky :
  forall op pin pout,
  exists pout', op_poll op NInvalid pin pout = (NInvalid, pin, pout', OErr NEG_GONE) /\
                p_buf pout' = p_buf pout /\ p_total pout' = p_total pout).
Check (C03_substream_fallback_agreement :
  forall c to_d to_l es cfgD cfgL p fs,
  wf_case c -> c_ds c = p :: fs ->
  wf_cfg cfgD -> In (p, fs) cfgD ->
  (forall n, In n (c_ls c) <-> In n (offered cfgL)) ->
  forall i, t_res (s_d (ts_sys (trun to_d to_l es (tinit c)))) = (0, i) ->
  exists n,
    nth_error (p :: fs) (N.to_nat i) = Some n /\
    first_common (p :: fs) (c_ls c) = Some n /\
    (forall k q, (k < N.to_nat i)%nat -> nth_error (p :: fs) k = Some q -> ~ In q (offered cfgL)) /\
    report cfgD n = Some (p, if i =? 0 then None else Some n) /\
    exists m fb, report cfgL n = Some (m, fb) /\ In m (mains cfgL)).
Check (C03_substream_fallback_listener :
  forall c to_d to_l es cfgL,
  wf_case c -> (forall n, In n (c_ls c) <-> In n (offered cfgL)) ->
  forall j, t_res (s_l (ts_sys (trun to_d to_l es (tinit c)))) = (0, j) ->
  exists n, first_common (c_ds c) (c_ls c) = Some n /\ nth_error (c_ls c) (N.to_nat j) = Some n /\
    exists m fb, report cfgL n = Some (m, fb) /\ In m (mains cfgL) /\
      (wf_cfg cfgL -> report cfgL n = spec cfgL n)).
Check (C03_sub_oracle_accepts_model :
  forall case : list N, ok_sub case (run_sub case) = true).
Check (C03_peer_dialer_vs_any_legal_listener :
  forall (ds : list name) (S : name -> bool) (rs : list msg) (r : option name)
         (pay dpay : bytes) (rsc wsc : list N) (evs : list eev),
    Forall wfn ds -> LegalL S ds rs r ->
    let s := erun evs (einit (d_task ds dpay) rsc wsc (FR (MHeader :: rs) ++ opt_pay r pay)) in
    (forall i, t_res (e_t s) = (0, i) ->
       exists p, first_supported ds S i p /\ r = Some p /\
         t_read (e_t s) ++ p_buf (e_in s) ++ e_rem s = pay /\
         (t_done (e_t s) = true ->
            t_end (e_t s) = 0 /\ t_got (e_t s) = pay /\ p_buf (e_in s) = [] /\ e_rem s = [] /\
            p_closed (e_out s) = true /\
            p_buf (e_out s) = FR (MHeader :: map MProto (firstn (N.to_nat i + 1) ds)) ++ dpay)) /\
    (forall code i, t_res (e_t s) = (code, i) -> code <> 0 -> code <> 99 ->
       r = None /\ Forall (unsupS S) ds)).
Check (C03_peer_listener_vs_any_legal_dialer :
  forall (ls ps : list name) (r : option name) (silent : bool)
         (pay lpay : bytes) (rsc wsc : list N) (evs : list eev),
    Forall wfn ps -> LegalD (supported ls) ps r -> (silent = true -> ps = []) ->
    let s := erun evs (einit (l_task ls lpay) rsc wsc
                         (FR (if silent then [] else MHeader :: map MProto ps) ++ opt_pay r pay)) in
    (forall j, t_res (e_t s) = (0, j) ->
       exists n, accepted ls ps j n /\ r = Some n /\
         t_read (e_t s) ++ p_buf (e_in s) ++ e_rem s = pay /\
         (t_done (e_t s) = true ->
            t_end (e_t s) = 0 /\ t_got (e_t s) = pay /\ p_buf (e_in s) = [] /\ e_rem s = [] /\
            p_closed (e_out s) = true /\
            exists pre, ps = pre ++ [n] /\
              p_buf (e_out s) = FR (MHeader :: nas pre ++ [MProto n]) ++ lpay)) /\
    (forall code j, t_res (e_t s) = (code, j) -> code <> 0 -> code <> 99 -> r = None)).
Check (C03_peer_dialer_terminates :
  forall (ds : list name) (dpay : bytes) (rsc wsc : list N) (stream : bytes) (K : nat) (evs : list eev),
    let s0 := einit (d_task ds dpay) rsc wsc stream in
    fairE K evs -> PhiD s0 < N.of_nat K -> t_done (e_t (erun evs s0)) = true).
Check (C03_peer_listener_terminates :
  forall (ls : list name) (lpay : bytes) (rsc wsc : list N) (stream : bytes) (K : nat) (evs : list eev),
    let s0 := einit (l_task ls lpay) rsc wsc stream in
    fairE K evs -> PhiL s0 < N.of_nat K -> t_done (e_t (erun evs s0)) = true).
Check (C03_peer_deliveries_are_bytes :
  forall (k : nat) (s : esys), (k <= length (e_rem s))%nat ->
    erun (repeat EvByte k) s = push_k s k).
Check (C03_peer_own_wire_legal :
  (forall ds S i p, first_supported ds S i p -> LegalD S (firstn (N.to_nat i + 1) ds) (Some p)) /\
  (forall ls ps j n, accepted ls ps j n ->
     exists pre, ps = pre ++ [n] /\ LegalL (supported ls) ps (nas pre ++ [MProto n]) (Some n))).
Check (C03_peer_oracle_wire_legal :
  forall c : ncase, c_ds c <> [] ->
    let S := supported (c_ls c) in
    let r := agreed S (c_ds c) in
    r = first_common (c_ds c) (c_ls c) /\
    exists ps, LegalD S ps r /\ (exists rest, c_ds c = ps ++ rest) /\
      LegalL S (c_ds c) (resp S (c_ds c)) r /\
      Glue.legal_dialer_wire c = FR (MHeader :: map MProto ps) ++ opt_pay r (c_dpay c) /\
      Glue.legal_listener_wire c = FR (MHeader :: resp S (c_ds c)) ++ opt_pay r (c_lpay c)).
Check (C03_peer_reference_dialer_wire_vs_listener :
  forall (c : ncase) (rsc wsc : list N) (evs : list eev), c_ds c <> [] -> Forall wfn (c_ds c) ->
    let s := erun evs (einit (l_task (c_ls c) (c_lpay c)) rsc wsc (Glue.legal_dialer_wire c)) in
    (forall j, t_res (e_t s) = (0, j) ->
       exists n, first_common (c_ds c) (c_ls c) = Some n /\ lidx 0 (c_ls c) n = Some j /\
         t_read (e_t s) ++ p_buf (e_in s) ++ e_rem s = c_dpay c /\
         (t_done (e_t s) = true -> t_end (e_t s) = 0 /\ t_got (e_t s) = c_dpay c /\
            p_buf (e_in s) = [] /\ e_rem s = [])) /\
    (forall code j, t_res (e_t s) = (code, j) -> code <> 0 -> code <> 99 ->
       first_common (c_ds c) (c_ls c) = None)).
Check (C03_peer_reference_listener_wire_vs_dialer :
  forall (c : ncase) (rsc wsc : list N) (evs : list eev), c_ds c <> [] -> Forall wfn (c_ds c) ->
    let s := erun evs (einit (d_task (c_ds c) (c_dpay c)) rsc wsc (Glue.legal_listener_wire c)) in
    (forall i, t_res (e_t s) = (0, i) ->
       exists p, first_common (c_ds c) (c_ls c) = Some p /\
         Glue.find_idx (Glue.supported_b (c_ls c)) (c_ds c) 0 = Some (i, p) /\
         t_read (e_t s) ++ p_buf (e_in s) ++ e_rem s = c_lpay c /\
         (t_done (e_t s) = true -> t_end (e_t s) = 0 /\ t_got (e_t s) = c_lpay c /\
            p_buf (e_in s) = [] /\ e_rem s = [])) /\
    (forall code i, t_res (e_t s) = (code, i) -> code <> 0 -> code <> 99 ->
       first_common (c_ds c) (c_ls c) = None)).
Check (C03_ref_header_difference :
  (forall p hr m, d_react p hr m <> d_react_ref p m -> hr = true /\ m = MHeader) /\
  (forall ds S m, RD ds S m -> mstep_d_ref m = mstep_d m) /\
  (forall S ps rs r, LegalL S ps rs r -> ~ In MHeader rs)).
Check (C03_ref_name_difference :
  (forall p, text_name p = true ->
     decode_line_ref (encode_msg (MProto p)) = decode_msg (encode_msg (MProto p))) /\
  (forall a b c : bytes, forallb (fun x => x <? 128) (a ++ b ++ c) = true -> text_name b = true)).
