From Coq Require Import List NArith Bool.
From V.C10 Require Import Model.
From V.Mgr Require Import DialShape DialShapeProofs Model Caps Ledger LedgerInv.
Import ListNotations.
Open Scope N_scope.
From V.C05 Require Import Properties.
Check (C05_ledger_invariant_step :
  forall L m g e, LInv m g -> feas m g e -> LInv (fst (step L m e)) (gstep e (snd (step L m e)) g)).
Check (C05_at_most_one_outcome :
  forall L es, feasible L init g0 es -> NoDup (terminals L init es)).
Check (C05_no_silence :
  forall L es, feasible L init g0 es ->
  let '(m, g) := lrun L init g0 es in
  quiescent m g ->
  forall c p, lookup c (g_att g) = Some p ->
    In c (g_done g) \/ (In c (g_super g) /\ In p (g_rep g)) \/ In c (g_limrej g)).
Check (C05_no_wedge :
  forall L es, feasible L init g0 es ->
  let '(m, g) := lrun L init g0 es in
  quiescent m g -> forall p, settled (state_of m p)).
Check (C05_pending_is_owed :
  forall L es, feasible L init g0 es ->
  let '(m, g) := lrun L init g0 es in
  forall p c, dial_record (state_of m p) = Some c -> owed g c).
Check (C05_dial_address_tcp_sound :
  forall listen a q, dial_shape listen a = SvTcp q ->
  exists h port ho, a = [h; Tcp port; P2p q] /\ is_host h = true /\
                    parse TTcp a = Some (ho, port, Some q)).
Check (C05_dial_address_ws_sound :
  forall listen a q, dial_shape listen a = SvWs q ->
  exists h port w ho, a = [h; Tcp port; w; P2p q] /\ is_host h = true /\ (w = Ws \/ w = Wss) /\
                      parse TWs a = Some (ho, port, Some q)).
Check (C05_dial_address_refusals :
  forall listen a code, dial_shape listen a = SvRefuse code ->
  code = RET_PEER_ID_MISSING \/ code = RET_SELF' \/ code = RET_NOT_SUPPORTED).
Check (C05_refused_address_unchanged :
  forall L m a, (forall p, dial_shape LISTEN a <> SvTcp p) ->
  exists code, do_dial_shape L m a = (m, [Ret code])).
Check (C05_dial_address_unfixed_refuted :
  exists a q q', dial_shape_unfixed [] a = SvTcp q /\
                 (exists ho port, parse TTcp a = Some (ho, port, Some q')) /\ q <> q').
Check (C05_redial_attempted :
  forall L m p,
  state_of m p = Disconnected None -> mem p (known m) = true -> p <> LOCAL ->
  limit_reached (max_out L) (outs m) = false ->
  let '(m', os) := do_dial_peer L m p false in
  os = [CallOpen (next_conn m); Ret RET_OK] /\
  state_of m' p = Opening (next_conn m) /\
  lookup (next_conn m) (pending m') = Some p /\
  next_conn m' = next_conn m + 1).
Check (C05_redial_addr_attempted :
  forall L m p,
  state_of m p = Disconnected None ->
  limit_reached (max_out L) (outs m) = false ->
  let '(m', os) := do_dial_addr L m p false in
  os = [CallDial (next_conn m); Ret RET_OK] /\
  state_of m' p = Dialing (next_conn m) /\
  lookup (next_conn m) (pending m') = Some p).
Check (C05_refused_unchanged :
  forall L m p f, can_dial (state_of m p) <> GateOk -> fst (do_dial_peer L m p f) = m).
Check (C05_dial_failure_consumes :
  forall m c pa,
  In (EvDialFailure c pa) (snd (do_dial_failure m c pa)) ->
  lookup c (pending (fst (do_dial_failure m c pa))) = None /\ lookup c (pending m) <> None).
Check (C05_open_failure_consumes :
  forall m c pa,
  In (EvOpenFailure c) (snd (do_open_failure m c pa)) ->
  lookup c (pending (fst (do_open_failure m c pa))) = None /\ lookup c (pending m) <> None).
Check (C05_dial_failure_clears :
  forall m c p,
  lookup c (pending m) = Some p -> dial_record (state_of m p) = Some c ->
  state_of m p <> Opening c ->
  let '(m', os) := do_dial_failure m c p in
  os = [ProtoDialFailure p; EvDialFailure c p] /\ settled (state_of m' p)).
Check (C05_limit_reject_settles :
  forall L m1 p c f,
  limit_reached (max_out L) (outs m1) = true ->
  dial_record (state_of m1 p) = Some c -> state_of m1 p <> Opening c ->
  existsb (fun kp : N * pstate => fst kp =? p) (peers m1) = true ->
  settled (state_of (fst (do_established_checked L m1 p c false f)) p) /\
  snd (do_established_checked L m1 p c false f) = [CallReject c]).
Check (C05_settled_can_dial :
  forall s, settled s -> can_dial s = GateOk \/ can_dial s = GateConnected).
Check (C05_stuck_only_on_inconsistent_ids :
  forall L m e s,
  In (Stuck s) (snd (step L m e)) ->
  (exists c f, e = TrOpened c f /\ lookup c (pending m) = None) \/
  (exists p c l f q, e = TrEstablished p c l f /\ lookup c (pending m) = Some q /\ q <> p)).
