From Coq Require Import List NArith Bool.
From V.C10 Require Import Model.
From V.Mgr Require Import DialShape DialShapeProofs Model Caps Ledger LedgerInv.
From V.Tcp Require Model Proofs Theorems.
Import ListNotations.
Open Scope N_scope.
From V.C05 Require Import Properties.
Check (C05_ledger_invariant_step :
  forall L m g e, LInv m g -> feas m g e -> LInv (fst (step L m e)) (gstep e (snd (step L m e)) g)).
Check (C05_at_most_one_outcome :
  forall L es, feasible L init g0 es -> NoDup (terminals L init es)).
Check (C05_no_silence :
  forall L es, feasible L init g0 es ->
  let '(m, g) := lrun L init g0 es in
  quiescent m g ->
  forall c p, lookup c (g_att g) = Some p ->
    In c (g_done g) \/ (In c (g_super g) /\ In p (g_rep g)) \/ In c (g_limrej g)).
Check (C05_no_wedge :
  forall L es, feasible L init g0 es ->
  let '(m, g) := lrun L init g0 es in
  quiescent m g -> forall p, settled (state_of m p)).
Check (C05_pending_is_owed :
  forall L es, feasible L init g0 es ->
  let '(m, g) := lrun L init g0 es in
  forall p c, dial_record (state_of m p) = Some c -> owed g c).
Check (C05_dial_address_tcp_sound :
  forall listen a q, dial_shape listen a = SvTcp q ->
  exists h port ho, a = [h; Tcp port; P2p q] /\ is_host h = true /\
                    parse TTcp a = Some (ho, port, Some q)).
Check (C05_dial_address_ws_sound :
  forall listen a q, dial_shape listen a = SvWs q ->
  exists h port w ho, a = [h; Tcp port; w; P2p q] /\ is_host h = true /\ (w = Ws \/ w = Wss) /\
                      parse TWs a = Some (ho, port, Some q)).
Check (C05_dial_address_refusals :
  forall listen a code, dial_shape listen a = SvRefuse code ->
  code = RET_PEER_ID_MISSING \/ code = RET_SELF' \/ code = RET_NOT_SUPPORTED).
Check (C05_refused_address_unchanged :
  forall L m a, (forall p, dial_shape LISTEN a <> SvTcp p) ->
  exists code, do_dial_shape L m a = (m, [Ret code])).
Check (C05_dial_address_unfixed_refuted :
  exists a q q', dial_shape_unfixed [] a = SvTcp q /\
                 (exists ho port, parse TTcp a = Some (ho, port, Some q')) /\ q <> q').
Check (C05_redial_attempted :
  forall L m p,
  state_of m p = Disconnected None -> mem p (known m) = true -> p <> LOCAL ->
  limit_reached (max_out L) (outs m) = false ->
  let '(m', os) := do_dial_peer L m p false in
  os = [CallOpen (next_conn m); Ret RET_OK] /\
  state_of m' p = Opening (next_conn m) /\
  lookup (next_conn m) (pending m') = Some p /\
  next_conn m' = next_conn m + 1).
Check (C05_redial_addr_attempted :
  forall L m p,
  state_of m p = Disconnected None ->
  limit_reached (max_out L) (outs m) = false ->
  let '(m', os) := do_dial_addr L m p false in
  os = [CallDial (next_conn m); Ret RET_OK] /\
  state_of m' p = Dialing (next_conn m) /\
  lookup (next_conn m) (pending m') = Some p).
Check (C05_refused_unchanged :
  forall L m p f, can_dial (state_of m p) <> GateOk -> fst (do_dial_peer L m p f) = m).
Check (C05_dial_failure_consumes :
  forall m c pa,
  In (EvDialFailure c pa) (snd (do_dial_failure m c pa)) ->
  lookup c (pending (fst (do_dial_failure m c pa))) = None /\ lookup c (pending m) <> None).
Check (C05_open_failure_consumes :
  forall m c pa,
  In (EvOpenFailure c) (snd (do_open_failure m c pa)) ->
  lookup c (pending (fst (do_open_failure m c pa))) = None /\ lookup c (pending m) <> None).
Check (C05_dial_failure_clears :
  forall m c p,
  lookup c (pending m) = Some p -> dial_record (state_of m p) = Some c ->
  state_of m p <> Opening c ->
  let '(m', os) := do_dial_failure m c p in
  os = [ProtoDialFailure p; EvDialFailure c p] /\ settled (state_of m' p)).
Check (C05_limit_reject_settles :
  forall L m1 p c f,
  limit_reached (max_out L) (outs m1) = true ->
  dial_record (state_of m1 p) = Some c -> state_of m1 p <> Opening c ->
  existsb (fun kp : N * pstate => fst kp =? p) (peers m1) = true ->
  settled (state_of (fst (do_established_checked L m1 p c false f)) p) /\
  snd (do_established_checked L m1 p c false f) = [CallReject c]).
Check (C05_settled_can_dial :
  forall s, settled s -> can_dial s = GateOk \/ can_dial s = GateConnected).
Check (C05_stuck_only_on_inconsistent_ids :
  forall L m e s,
  In (Stuck s) (snd (step L m e)) ->
  (exists c f, e = TrOpened c f /\ lookup c (pending m) = None) \/
  (exists p c l f q, e = TrEstablished p c l f /\ lookup c (pending m) = Some q /\ q <> p)).
Check (C05_tcp_open_phase_owed :
  forall s g e o1 t o2,
  Tcp.Theorems.reachU s g -> snd (Tcp.Model.step s e) = o1 ++ Tcp.Model.OEv t :: o2 ->
  match t with
  | Tcp.Model.TOpened c | Tcp.Model.TOpenFailure c => In c (Tcp.Model.g_open (fold_left Tcp.Model.gout o1 (Tcp.Model.gcall e (snd (Tcp.Model.step s e)) g)))
  | _ => True
  end).
Check (C05_tcp_owed_open_ledger :
  (forall e os g c, In c (Tcp.Model.g_open (Tcp.Model.gstep e os g)) -> In c (Tcp.Model.g_open g) \/ exists es, e = Tcp.Model.EOpen c es) /\
  (forall os g c, ~ In c (Tcp.Model.g_open (Tcp.Model.gstep (Tcp.Model.ECancel c) os g))) /\
  (forall c g, ~ In c (Tcp.Model.g_open (Tcp.Model.gev (Tcp.Model.TOpened c) g)) /\ ~ In c (Tcp.Model.g_open (Tcp.Model.gev (Tcp.Model.TOpenFailure c) g)))).
Check (C05_tcp_call_results :
  forall s g e, Tcp.Theorems.reachU s g -> Tcp.Model.call_ok e g (snd (Tcp.Model.step s e)) = true).
Check (C05_tcp_negotiate_after_opened :
  forall s g e c,
  Tcp.Theorems.reachU s g -> In (Tcp.Model.OEv (Tcp.Model.TOpened c)) (snd (Tcp.Model.step s e)) ->
  let s1 := fst (Tcp.Model.step s e) in
  snd (Tcp.Model.step s1 (Tcp.Model.ENegotiate c)) = [Tcp.Model.ORet true] /\
  snd (Tcp.Model.step (fst (Tcp.Model.step s1 (Tcp.Model.ECancel c))) (Tcp.Model.ENegotiate c)) = [Tcp.Model.ORet true]).
Check (C05_tcp_contract :
  forall s g e o1 t o2,
  Tcp.Theorems.reach s g -> Tcp.Model.caller_ok g e = true -> snd (Tcp.Model.step s e) = o1 ++ Tcp.Model.OEv t :: o2 ->
  Tcp.Model.tfeas (fold_left Tcp.Model.gout o1 (Tcp.Model.gcall e (snd (Tcp.Model.step s e)) g)) t = true).
Check (C05_tcp_established_names_dialled_peer :
  forall s g e o1 c q o2,
  Tcp.Theorems.reach s g -> Tcp.Model.caller_ok g e = true -> snd (Tcp.Model.step s e) = o1 ++ Tcp.Model.OEv (Tcp.Model.TEstablished c q false) :: o2 ->
  let g' := fold_left Tcp.Model.gout o1 (Tcp.Model.gcall e (snd (Tcp.Model.step s e)) g) in
  In c (Tcp.Model.g_neg g') /\
  exists es, Tcp.Model.lookup c (Tcp.Model.g_att g') = Some es /\ (exists x, In x es /\ Tcp.Model.matches x q = true) /\
             forall p, (forall x, In x es -> x = Some p) -> q = p).
Check (C05_tcp_named_by_call :
  forall e os g c,
  Tcp.Model.lookup c (Tcp.Model.g_att (Tcp.Model.gstep e os g)) =
  match e with
  | Tcp.Model.EDial c' _ ex => if (c' =? c) && Tcp.Model.ret_ok os then Some [ex] else Tcp.Model.lookup c (Tcp.Model.g_att g)
  | Tcp.Model.EOpen c' es => if c' =? c then Some es else Tcp.Model.lookup c (Tcp.Model.g_att g)
  | _ => Tcp.Model.lookup c (Tcp.Model.g_att g)
  end).
Check (C05_tcp_no_dropped_answer :
  forall s g e m,
  Tcp.Theorems.reach s g -> Tcp.Model.caller_ok g e = true -> In (Tcp.Model.OMark m) (snd (Tcp.Model.step s e)) ->
  exists c, m = Tcp.Model.MSilentFailure c Tcp.Model.KInb).
Check (C05_tcp_owed_is_pending :
  forall s g c,
  Tcp.Theorems.reach s g ->
  (In c (Tcp.Model.g_open g) -> exists f rem, Tcp.Model.lookup f (Tcp.Model.praw s) = Some c /\ Tcp.Model.lookup f (Tcp.Model.attempts s) = Some rem /\
                                    ~ In f (Tcp.Model.aborted s)) /\
  (In c (Tcp.Model.g_neg g) -> exists f k, Tcp.Model.lookup f (Tcp.Model.pconn s) = Some (c, k) /\ Tcp.Model.is_inb k = false)).
Check (C05_tcp_progress_open_answer :
  forall s g f c rem i e q,
  Tcp.Theorems.reach s g -> Tcp.Model.lookup f (Tcp.Model.praw s) = Some c -> In c (Tcp.Model.g_open g) ->
  Tcp.Model.lookup f (Tcp.Model.attempts s) = Some rem -> Tcp.Model.lookup i rem = Some e -> Tcp.Model.matches e q = true ->
  In (Tcp.Model.OEv (Tcp.Model.TOpened c)) (snd (Tcp.Model.step s (Tcp.Model.EAns f i (Some q))))).
Check (C05_tcp_progress_open_last_failure :
  forall s g f c rem i e ans,
  Tcp.Theorems.reach s g -> Tcp.Model.lookup f (Tcp.Model.praw s) = Some c -> In c (Tcp.Model.g_open g) ->
  Tcp.Model.lookup f (Tcp.Model.attempts s) = Some rem -> Tcp.Model.lookup i rem = Some e -> Tcp.Model.delk i rem = [] ->
  (forall q, ans = Some q -> Tcp.Model.matches e q = false) ->
  In (Tcp.Model.OEv (Tcp.Model.TOpenFailure c)) (snd (Tcp.Model.step s (Tcp.Model.EAns f i ans)))).
Check (C05_tcp_progress_open_expire :
  forall s g f c rem,
  Tcp.Theorems.reach s g -> Tcp.Model.lookup f (Tcp.Model.praw s) = Some c -> In c (Tcp.Model.g_open g) ->
  Tcp.Model.lookup f (Tcp.Model.attempts s) = Some rem -> rem <> [] ->
  In (Tcp.Model.OEv (Tcp.Model.TOpenFailure c)) (snd (Tcp.Model.step s (Tcp.Model.EExpire f)))).
Check (C05_tcp_progress_open_no_address :
  forall s g f c e,
  Tcp.Theorems.reach s g -> Tcp.Model.lookup f (Tcp.Model.praw s) = Some c -> In c (Tcp.Model.g_open g) -> Tcp.Model.lookup f (Tcp.Model.attempts s) = Some [] ->
  Tcp.Model.polls e = true -> In (Tcp.Model.OEv (Tcp.Model.TOpenFailure c)) (snd (Tcp.Model.step s e))).
Check (C05_tcp_progress_dial :
  forall s g f c i ans,
  Tcp.Theorems.reach s g -> Tcp.Model.lookup f (Tcp.Model.pconn s) = Some (c, Tcp.Model.KDial) ->
  exists x, Tcp.Model.lookup c (Tcp.Model.g_att g) = Some [x] /\
    In (Tcp.Model.OEv (match ans with
             | Some q => if Tcp.Model.matches x q then Tcp.Model.TEstablished c q false else Tcp.Model.TDialFailure c
             | None => Tcp.Model.TDialFailure c
             end)) (snd (Tcp.Model.step s (Tcp.Model.EAns f i ans)))).
Check (C05_tcp_progress_negotiate :
  forall s g f c e,
  Tcp.Theorems.reach s g -> Tcp.Model.lookup f (Tcp.Model.pconn s) = Some (c, Tcp.Model.KNeg) -> Tcp.Model.polls e = true ->
  exists q, In (Tcp.Model.OEv (Tcp.Model.TEstablished c q false)) (snd (Tcp.Model.step s e))).
Check (C05_tcp_progress_inbound :
  forall s g f c i q,
  Tcp.Theorems.reach s g -> Tcp.Model.lookup f (Tcp.Model.pconn s) = Some (c, Tcp.Model.KInb) ->
  In (Tcp.Model.OEv (Tcp.Model.TEstablished c q true)) (snd (Tcp.Model.step s (Tcp.Model.EAns f i (Some q))))).
Check (C05_tcp_outbound_ids_from_owner :
  forall s g c,
  Tcp.Theorems.reachU s g -> In c (Tcp.Model.g_open g) \/ In c (Tcp.Model.g_neg g) \/ In c (Tcp.Model.g_opened g) -> In c (Tcp.Model.g_used g)).
Check (C05_tcp_caller_ok_needed :
  exists es, Tcp.Theorems.callers_ok Tcp.Model.init Tcp.Model.g0 es = false /\
             In [Tcp.Model.OMark (Tcp.Model.MNoHandle 0)] (snd (Tcp.Theorems.run Tcp.Model.init es))).
