From Coq Require Import List NArith Bool.
From V.C10 Require Import Model.
From V.Mgr Require Import DialShape DialShapeProofs Model Caps Ledger LedgerInv.
Import ListNotations.
Open Scope N_scope.
From V.C05 Require Import Properties.
Check (C05_ledger_invariant_step :
  forall L m g e, LInv L m g -> feas L m g e -> LInv L (fst (step L m e)) (gstep e (snd (step L m e)) g)).
Check (C05_at_most_one_outcome :
  forall L es, feasible L init g0 es -> NoDup (terminals L init es)).
Check (C05_no_silence :
  forall L es, feasible L init g0 es ->
  let '(m, g) := lrun L init g0 es in
  quiescent m g ->
  forall c p, lookup c (g_att g) = Some p ->
    In c (g_done g) \/ (In c (g_super g) /\ In p (g_rep g)) \/ In c (g_limrej g)).
Check (C05_no_wedge :
  forall L es, feasible L init g0 es ->
  let '(m, g) := lrun L init g0 es in
  quiescent m g -> forall p, settled (state_of m p)).
Check (C05_pending_is_owed :
  forall L es, feasible L init g0 es ->
  let '(m, g) := lrun L init g0 es in
  forall p c, dial_record (state_of m p) = Some c -> owed g c).
Check (C05_no_stuck :
  forall L m g e s, Reach L m g -> feas L m g e -> ~ In (Stuck s) (snd (step L m e))).
Check (C05_opening_set_owed :
  forall L m g p c ts, Reach L m g -> state_of m p = Opening c ts ->
  ts <> [] /\ forall u, In u ts -> installed L u = true /\ In (c, u) (g_open g)).
Check (C05_open_failure_only_when_last :
  forall L m g, Reach L m g ->
  (forall c t pa, feas L m g (TrOpenFailure c t pa) ->
     exists ts, state_of m pa = Opening c ts /\ In t ts /\
       let '(m', os) := step L m (TrOpenFailure c t pa) in
       let g' := gstep (TrOpenFailure c t pa) os g in
       match remove_tr t ts with
       | [] => os = [ProtoDialFailure pa; EvOpenFailure c (errs_of m c + 1)] /\
               state_of m' pa = Disconnected None /\ ~ owed g' c /\ In c (g_done g')
       | ts' => os = [] /\ state_of m' pa = Opening c ts' /\
                (forall u, In (c, u) (g_open g') <-> In u ts') /\ errs_of m' c = errs_of m c + 1
       end) /\
  (forall e c n, In (EvOpenFailure c n) (snd (step L m e)) ->
     exists t pa p d ts, e = TrOpenFailure c t pa /\ installed L t = true /\ lookup c (pending m) = Some p /\
        state_of m p = Opening d ts /\ In t ts /\ remove_tr t ts = [] /\ n = errs_of m c + 1)).
Check (C05_opened_cancels_rest :
  forall L m g c t, Reach L m g -> feas L m g (TrOpened c t false) ->
  exists p ts, lookup c (pending m) = Some p /\ state_of m p = Opening c ts /\ In t ts /\
    let '(m', os) := step L m (TrOpened c t false) in
    let g' := gstep (TrOpened c t false) os g in
    os = map (CallCancel c) ts ++ [CallNegotiate c t] /\
    state_of m' p = Dialing c /\ lookup c (pending m') = Some p /\
    (forall u, ~ In (c, u) (g_open g')) /\ In c (g_neg g') /\
    (forall u f, ~ feas L m' g' (TrOpened c u f)) /\
    (forall u pa, ~ feas L m' g' (TrOpenFailure c u pa))).
Check (C05_inbound_supersedes_all :
  forall L m g p c t d ts, Reach L m g -> feas L m g (TrEstablished p c t true false) ->
  state_of m p = Opening d ts -> limit_reached (max_in L) (ins m) = false ->
  let '(m', os) := step L m (TrEstablished p c t true false) in
  let g' := gstep (TrEstablished p c t true false) os g in
  os = map (CallCancel d) ts ++ [CallAccept c t] /\
  state_of m' p = Connected c None /\ lookup d (pending m') = None /\
  (forall u, ~ In (d, u) (g_open g')) /\ ~ owed g' d /\ In d (g_super g')).
Check (C05_kinds_installed :
  forall L es, KInv L (fst (run L init es))).
Check (C05_kinds_installed_step :
  forall L m e, KInv L m -> KInv L (fst (step L m e))).
Check (C05_uninstalled_transport_refuted :
  exists L m p ts,
    ~ KInv L m /\ choice_ok L m p ts = true /\
    let '(m', os) := do_dial_peer L m p ts [] in
    os = [Ret RET_OK] /\ state_of m' p = Opening (next_conn m) ts /\
    lookup (next_conn m) (pending m') = Some p /\
    (forall g, g_open (gstep (CmdDialPeer p ts []) os g) = g_open g /\
               g_neg (gstep (CmdDialPeer p ts []) os g) = g_neg g)).
Check (C05_handle_gate_sound :
  forall L m g p ts clog, Reach L m g -> feas L m g (HDialPeer p ts [] clog) ->
  let '(m', os) := step L m (HDialPeer p ts [] clog) in
  let g' := gstep (HDialPeer p ts [] clog) os g in
  (In (Ret RET_OK) os ->
     (exists c, dial_record (state_of m p) = Some c /\ owed g c /\ m' = m /\ os = [Ret RET_OK]) \/
     (limit_reached (max_out L) (outs m) = false /\ ts <> [] /\
      os = Ret RET_OK :: map (CallOpen (next_conn m)) ts ++ [Logged RET_OK] /\
      state_of m' p = Opening (next_conn m) ts /\
      (forall u, In u ts -> In (next_conn m, u) (g_open g')) /\
      lookup (next_conn m) (g_att g') = Some p) \/
     (limit_reached (max_out L) (outs m) = true /\ m' = m /\ os = [Ret RET_OK; Logged RET_LIMIT] /\ g' = g)) /\
  (forall code, code <> RET_OK -> In (Ret code) os -> m' = m /\ os = [Ret code])).
Check (C05_handle_gate_agrees :
  forall L m p ts fl,
  match handle_gate m p with
  | HQueue =>
      (limit_reached (max_out L) (outs m) = true /\ do_dial_peer L m p ts fl = (m, [Ret RET_LIMIT])) \/
      (limit_reached (max_out L) (outs m) = false /\ selects L m p = true /\
       snd (do_dial_peer L m p ts fl) =
         fst (open_calls L (next_conn m) ts fl) ++
         [Ret (if snd (open_calls L (next_conn m) ts fl) then RET_OK else RET_TRANSPORT)])
  | HInProgress =>
      do_dial_peer L m p ts fl = (m, [Ret RET_OK]) \/ do_dial_peer L m p ts fl = (m, [Ret RET_LIMIT])
  | HErr code =>
      do_dial_peer L m p ts fl = (m, [Ret code]) \/ do_dial_peer L m p ts fl = (m, [Ret RET_LIMIT])
  end).
Check (C05_handle_dial_address :
  forall L m a,
  (existsb is_p2p a = false -> step L m (HDialAddr a false) = (m, [Ret RET_PEER_ID_MISSING])) /\
  (existsb is_p2p a = true ->
   step L m (HDialAddr a false) =
     (fst (do_dial_shape L m a false), Ret RET_OK :: map demote (snd (do_dial_shape L m a false))))).
Check (C05_dial_address_tcp_sound :
  forall listen a q, dial_shape listen a = SvTcp q ->
  exists h port ho, a = [h; Tcp port; P2p q] /\ is_host h = true /\
                    parse TTcp a = Some (ho, port, Some q)).
Check (C05_dial_address_ws_sound :
  forall listen a q, dial_shape listen a = SvWs q ->
  exists h port w ho, a = [h; Tcp port; w; P2p q] /\ is_host h = true /\ (w = Ws \/ w = Wss) /\
                      parse TWs a = Some (ho, port, Some q)).
Check (C05_dial_address_refusals :
  forall listen a code, dial_shape listen a = SvRefuse code ->
  code = RET_PEER_ID_MISSING \/ code = RET_SELF' \/ code = RET_NOT_SUPPORTED).
Check (C05_refused_address_unchanged :
  forall L m a f,
  (forall p, dial_shape LISTEN a = SvTcp p -> installed L TCP = false) ->
  (forall p, dial_shape LISTEN a = SvWs p -> installed L WS = false) ->
  exists code, do_dial_shape L m a f = (m, [Ret code])).
Check (C05_dial_address_unfixed_refuted :
  exists a q q', dial_shape_unfixed [] a = SvTcp q /\
                 (exists ho port, parse TTcp a = Some (ho, port, Some q')) /\ q <> q').
Check (C05_redial_attempted :
  forall L m p ts,
  state_of m p = Disconnected None -> p <> LOCAL ->
  limit_reached (max_out L) (outs m) = false ->
  KInv L m -> choice_ok L m p ts = true ->
  let '(m', os) := do_dial_peer L m p ts [] in
  ts <> [] /\
  os = map (CallOpen (next_conn m)) ts ++ [Ret RET_OK] /\
  state_of m' p = Opening (next_conn m) ts /\
  lookup (next_conn m) (pending m') = Some p /\
  next_conn m' = next_conn m + 1).
Check (C05_redial_addr_attempted :
  forall L m p t a,
  state_of m p = Disconnected None -> installed L t = true ->
  let '(m', os) := do_dial_addr L m p t a false in
  os = [CallDial (next_conn m) t; Ret RET_OK] /\
  state_of m' p = Dialing (next_conn m) /\
  lookup (next_conn m) (pending m') = Some p).
Check (C05_redial_addr_event :
  forall L m p t,
  state_of m p = Disconnected None -> installed L t = true ->
  limit_reached (max_out L) (outs m) = false ->
  let '(m', os) := step L m (CmdDialAddr p t false) in
  os = [CallDial (next_conn m) t; Ret RET_OK] /\
  state_of m' p = Dialing (next_conn m) /\
  lookup (next_conn m) (pending m') = Some p).
Check (C05_refused_unchanged :
  forall L m p ts fl, can_dial (state_of m p) <> GateOk -> fst (do_dial_peer L m p ts fl) = m).
Check (C05_dial_failure_consumes :
  forall m c t pa,
  In (EvDialFailure c pa) (snd (do_dial_failure m c t pa)) ->
  lookup c (pending (fst (do_dial_failure m c t pa))) = None /\ lookup c (pending m) <> None).
Check (C05_open_failure_consumes :
  forall m c t pa n,
  In (EvOpenFailure c n) (snd (do_open_failure m c t pa)) ->
  lookup c (pending (fst (do_open_failure m c t pa))) = None /\ lookup c (pending m) <> None).
Check (C05_dial_failure_clears :
  forall m c t p,
  lookup c (pending m) = Some p -> dial_record (state_of m p) = Some c ->
  (forall ts, state_of m p <> Opening c ts) ->
  let '(m', os) := do_dial_failure m c t p in
  os = [ProtoDialFailure p; EvDialFailure c p] /\ settled (state_of m' p)).
Check (C05_limit_reject_settles :
  forall L m1 p c t f,
  limit_reached (max_out L) (outs m1) = true ->
  dial_record (state_of m1 p) = Some c -> (forall ts, state_of m1 p <> Opening c ts) ->
  existsb (fun kp : N * pstate => fst kp =? p) (peers m1) = true ->
  settled (state_of (fst (do_established_checked L m1 p c t false f)) p) /\
  snd (do_established_checked L m1 p c t false f) = [CallReject c t]).
Check (C05_settled_can_dial :
  forall s, settled s -> can_dial s = GateOk \/ can_dial s = GateConnected).
Check (C05_stuck_only_on_inconsistent_ids :
  forall L m e s,
  In (Stuck s) (snd (step L m e)) ->
  (exists c t f, e = TrOpened c t f /\ lookup c (pending m) = None) \/
  (exists p c t l f q, e = TrEstablished p c t l f /\ lookup c (pending m) = Some q /\ q <> p) \/
  (exists p c ts t, state_of m p = Opening c ts /\ In t ts /\ installed L t = false)).
