From Coq Require Import List NArith Bool.
From V.C10 Require Import Model.
From V.Mgr Require Import DialShape DialShapeProofs Model Caps Ledger LedgerInv.
From V.Mgr Require LiveRec.
From V.Tcp Require Model Proofs Theorems Variants VariantTheorems Once Settle.
From V.C05 Require TcpCompose TrCompose.
From V.C05 Require TwoCompose TwoEvents TwoCmd TwoTheorems.
Import ListNotations.
Open Scope N_scope.
From V.C05 Require Import Properties.
Check (C05_ledger_invariant_step :
  forall L m g e, LInv L m g -> feas L m g e -> LInv L (fst (step L m e)) (gstep e (snd (step L m e)) g)).
Check (C05_at_most_one_outcome :
  forall L es, feasible L init g0 es -> NoDup (terminals L init es)).
Check (C05_no_silence :
  forall L es, feasible L init g0 es ->
  let '(m, g) := lrun L init g0 es in
  quiescent m g ->
  forall c p, lookup c (g_att g) = Some p ->
    In c (g_done g) \/ (In c (g_super g) /\ In p (g_rep g)) \/ In c (g_limrej g)).
Check (C05_no_wedge :
  forall L es, feasible L init g0 es ->
  let '(m, g) := lrun L init g0 es in
  quiescent m g -> forall p, settled (state_of m p)).
Check (C05_pending_is_owed :
  forall L es, feasible L init g0 es ->
  let '(m, g) := lrun L init g0 es in
  forall p c, dial_record (state_of m p) = Some c -> owed g c).
Check (C05_no_stuck :
  forall L m g e s, Reach L m g -> feas L m g e -> ~ In (Stuck s) (snd (step L m e))).
Check (C05_opening_set_owed :
  forall L m g p c ts, Reach L m g -> state_of m p = Opening c ts ->
  ts <> [] /\ forall u, In u ts -> installed L u = true /\ In (c, u) (g_open g)).
Check (C05_open_failure_only_when_last :
  forall L m g, Reach L m g ->
  (forall c t pa, feas L m g (TrOpenFailure c t pa) ->
     exists ts, state_of m pa = Opening c ts /\ In t ts /\
       let '(m', os) := step L m (TrOpenFailure c t pa) in
       let g' := gstep (TrOpenFailure c t pa) os g in
       match remove_tr t ts with
       | [] => os = [ProtoDialFailure pa; EvOpenFailure c (errs_of m c + 1)] /\
               state_of m' pa = Disconnected None /\ ~ owed g' c /\ In c (g_done g')
       | ts' => os = [] /\ state_of m' pa = Opening c ts' /\
                (forall u, In (c, u) (g_open g') <-> In u ts') /\ errs_of m' c = errs_of m c + 1
       end) /\
  (forall e c n, In (EvOpenFailure c n) (snd (step L m e)) ->
     exists t pa p d ts, e = TrOpenFailure c t pa /\ installed L t = true /\ lookup c (pending m) = Some p /\
        state_of m p = Opening d ts /\ In t ts /\ remove_tr t ts = [] /\ n = errs_of m c + 1)).
Check (C05_opened_cancels_rest :
  forall L m g c t, Reach L m g -> feas L m g (TrOpened c t false) ->
  exists p ts, lookup c (pending m) = Some p /\ state_of m p = Opening c ts /\ In t ts /\
    let '(m', os) := step L m (TrOpened c t false) in
    let g' := gstep (TrOpened c t false) os g in
    os = map (CallCancel c) ts ++ [CallNegotiate c t] /\
    state_of m' p = Dialing c /\ lookup c (pending m') = Some p /\
    (forall u, ~ In (c, u) (g_open g')) /\ In c (g_neg g') /\
    (forall u f, ~ feas L m' g' (TrOpened c u f)) /\
    (forall u pa, ~ feas L m' g' (TrOpenFailure c u pa))).
Check (C05_inbound_supersedes_all :
  forall L m g p c t d ts, Reach L m g -> feas L m g (TrEstablished p c t true false) ->
  state_of m p = Opening d ts -> limit_reached (max_in L) (ins m) = false ->
  let '(m', os) := step L m (TrEstablished p c t true false) in
  let g' := gstep (TrEstablished p c t true false) os g in
  os = map (CallCancel d) ts ++ [CallAccept c t] /\
  state_of m' p = Connected c None /\ lookup d (pending m') = None /\
  (forall u, ~ In (d, u) (g_open g')) /\ ~ owed g' d /\ In d (g_super g')).
Check (C05_kinds_installed :
  forall L es, KInv L (fst (run L init es))).
Check (C05_kinds_installed_step :
  forall L m e, KInv L m -> KInv L (fst (step L m e))).
Check (C05_uninstalled_transport_refuted :
  exists L m p ts,
    ~ KInv L m /\ choice_ok L m p ts = true /\
    let '(m', os) := do_dial_peer L m p ts [] in
    os = [Ret RET_OK] /\ state_of m' p = Opening (next_conn m) ts /\
    lookup (next_conn m) (pending m') = Some p /\
    (forall g, g_open (gstep (CmdDialPeer p ts []) os g) = g_open g /\
               g_neg (gstep (CmdDialPeer p ts []) os g) = g_neg g)).
Check (C05_handle_gate_sound :
  forall L m g p ts clog, Reach L m g -> feas L m g (HDialPeer p ts [] clog) ->
  let '(m', os) := step L m (HDialPeer p ts [] clog) in
  let g' := gstep (HDialPeer p ts [] clog) os g in
  (In (Ret RET_OK) os ->
     (exists c, dial_record (state_of m p) = Some c /\ owed g c /\ m' = m /\ os = [Ret RET_OK]) \/
     (limit_reached (max_out L) (outs m) = false /\ ts <> [] /\
      os = Ret RET_OK :: map (CallOpen (next_conn m)) ts ++ [Logged RET_OK] /\
      state_of m' p = Opening (next_conn m) ts /\
      (forall u, In u ts -> In (next_conn m, u) (g_open g')) /\
      lookup (next_conn m) (g_att g') = Some p) \/
     (limit_reached (max_out L) (outs m) = true /\ m' = m /\ os = [Ret RET_OK; Logged RET_LIMIT] /\ g' = g)) /\
  (forall code, code <> RET_OK -> In (Ret code) os -> m' = m /\ os = [Ret code])).
Check (C05_handle_gate_agrees :
  forall L m p ts fl,
  match handle_gate m p with
  | HQueue =>
      (limit_reached (max_out L) (outs m) = true /\ do_dial_peer L m p ts fl = (m, [Ret RET_LIMIT])) \/
      (limit_reached (max_out L) (outs m) = false /\ selects L m p = true /\
       snd (do_dial_peer L m p ts fl) =
         fst (open_calls L (next_conn m) ts fl) ++
         [Ret (if snd (open_calls L (next_conn m) ts fl) then RET_OK else RET_TRANSPORT)])
  | HInProgress =>
      do_dial_peer L m p ts fl = (m, [Ret RET_OK]) \/ do_dial_peer L m p ts fl = (m, [Ret RET_LIMIT])
  | HErr code =>
      do_dial_peer L m p ts fl = (m, [Ret code]) \/ do_dial_peer L m p ts fl = (m, [Ret RET_LIMIT])
  end).
Check (C05_handle_dial_address :
  forall L m a,
  (existsb is_p2p a = false -> step L m (HDialAddr a false) = (m, [Ret RET_PEER_ID_MISSING])) /\
  (existsb is_p2p a = true ->
   step L m (HDialAddr a false) =
     (fst (do_dial_shape L m a false), Ret RET_OK :: map demote (snd (do_dial_shape L m a false))))).
Check (C05_dial_address_tcp_sound :
  forall listen a q, dial_shape listen a = SvTcp q ->
  exists h port ho, a = [h; Tcp port; P2p q] /\ is_host h = true /\
                    parse TTcp a = Some (ho, port, Some q)).
Check (C05_dial_address_ws_sound :
  forall listen a q, dial_shape listen a = SvWs q ->
  exists h port w ho, a = [h; Tcp port; w; P2p q] /\ is_host h = true /\ (w = Ws \/ w = Wss) /\
                      parse TWs a = Some (ho, port, Some q)).
Check (C05_dial_address_refusals :
  forall listen a code, dial_shape listen a = SvRefuse code ->
  code = RET_PEER_ID_MISSING \/ code = RET_SELF' \/ code = RET_NOT_SUPPORTED).
Check (C05_refused_address_unchanged :
  forall L m a f,
  (forall p, dial_shape LISTEN a = SvTcp p -> installed L TCP = false) ->
  (forall p, dial_shape LISTEN a = SvWs p -> installed L WS = false) ->
  exists code, do_dial_shape L m a f = (m, [Ret code])).
Check (C05_dial_address_unfixed_refuted :
  exists a q q', dial_shape_unfixed [] a = SvTcp q /\
                 (exists ho port, parse TTcp a = Some (ho, port, Some q')) /\ q <> q').
Check (C05_redial_attempted :
  forall L m p ts,
  state_of m p = Disconnected None -> p <> LOCAL ->
  limit_reached (max_out L) (outs m) = false ->
  KInv L m -> choice_ok L m p ts = true ->
  let '(m', os) := do_dial_peer L m p ts [] in
  ts <> [] /\
  os = map (CallOpen (next_conn m)) ts ++ [Ret RET_OK] /\
  state_of m' p = Opening (next_conn m) ts /\
  lookup (next_conn m) (pending m') = Some p /\
  next_conn m' = next_conn m + 1).
Check (C05_redial_addr_attempted :
  forall L m p t a,
  state_of m p = Disconnected None -> installed L t = true ->
  let '(m', os) := do_dial_addr L m p t a false in
  os = [CallDial (next_conn m) t; Ret RET_OK] /\
  state_of m' p = Dialing (next_conn m) /\
  lookup (next_conn m) (pending m') = Some p).
Check (C05_redial_addr_event :
  forall L m p t,
  state_of m p = Disconnected None -> installed L t = true ->
  limit_reached (max_out L) (outs m) = false ->
  let '(m', os) := step L m (CmdDialAddr p t false) in
  os = [CallDial (next_conn m) t; Ret RET_OK] /\
  state_of m' p = Dialing (next_conn m) /\
  lookup (next_conn m) (pending m') = Some p).
Check (C05_refused_unchanged :
  forall L m p ts fl, can_dial (state_of m p) <> GateOk -> fst (do_dial_peer L m p ts fl) = m).
Check (C05_dial_failure_consumes :
  forall m c t pa,
  In (EvDialFailure c pa) (snd (do_dial_failure m c t pa)) ->
  lookup c (pending (fst (do_dial_failure m c t pa))) = None /\ lookup c (pending m) <> None).
Check (C05_open_failure_consumes :
  forall m c t pa n,
  In (EvOpenFailure c n) (snd (do_open_failure m c t pa)) ->
  lookup c (pending (fst (do_open_failure m c t pa))) = None /\ lookup c (pending m) <> None).
Check (C05_dial_failure_clears :
  forall m c t p,
  lookup c (pending m) = Some p -> dial_record (state_of m p) = Some c ->
  (forall ts, state_of m p <> Opening c ts) ->
  let '(m', os) := do_dial_failure m c t p in
  os = [ProtoDialFailure p; EvDialFailure c p] /\ settled (state_of m' p)).
Check (C05_limit_reject_settles :
  forall L m1 p c t f,
  limit_reached (max_out L) (outs m1) = true ->
  dial_record (state_of m1 p) = Some c -> (forall ts, state_of m1 p <> Opening c ts) ->
  existsb (fun kp : N * pstate => fst kp =? p) (peers m1) = true ->
  settled (state_of (fst (do_established_checked L m1 p c t false f)) p) /\
  snd (do_established_checked L m1 p c t false f) = [CallReject c t]).
Check (C05_settled_can_dial :
  forall s, settled s -> can_dial s = GateOk \/ can_dial s = GateConnected).
Check (C05_stuck_only_on_inconsistent_ids :
  forall L m e s,
  In (Stuck s) (snd (step L m e)) ->
  (exists c t f, e = TrOpened c t f /\ lookup c (pending m) = None) \/
  (exists p c t l f q, e = TrEstablished p c t l f /\ lookup c (pending m) = Some q /\ q <> p) \/
  (exists p c ts t, state_of m p = Opening c ts /\ In t ts /\ installed L t = false)).
Check (C05_recorded_is_live_step :
  forall L m l e, Caps.CapInv L m l -> LiveRec.RecInv m l -> Caps.env_ok m l e ->
  LiveRec.RecInv (fst (step L m e)) (Caps.live_step e (snd (step L m e)) l)).
Check (C05_no_dead_connection :
  forall L es p, Caps.env_trace L init [] es ->
  let '(m, l) := Caps.grun L init [] es in
  Caps.of_peer p l = [] -> can_dial (state_of m p) <> GateConnected).
Check (C05_accept_failure_not_recorded :
  forall L m l p c t lst, Caps.CapInv L m l -> LiveRec.RecInv m l -> lookup c l = None ->
  ~ Caps.recorded (state_of (fst (step L m (TrEstablished p c t lst true))) p) c).
Check (C05_accept_future_failure_not_recorded :
  forall L m l c p b, Caps.CapInv L m l -> LiveRec.RecInv m l -> lookup c (accepting m) = Some (p, b) ->
  ~ Caps.recorded (state_of (fst (step L m (AcceptDone c false))) p) c).
Check (C05_tcp_open_phase_owed :
  forall s g e o1 t o2,
  Tcp.Theorems.reachU s g -> snd (Tcp.Model.step s e) = o1 ++ Tcp.Model.OEv t :: o2 ->
  match t with
  | Tcp.Model.TOpened c | Tcp.Model.TOpenFailure c => In c (Tcp.Model.g_open (fold_left Tcp.Model.gout o1 (Tcp.Model.gcall e (snd (Tcp.Model.step s e)) g)))
  | _ => True
  end).
Check (C05_tcp_owed_open_ledger :
  (forall e os g c, In c (Tcp.Model.g_open (Tcp.Model.gstep e os g)) -> In c (Tcp.Model.g_open g) \/ exists es, e = Tcp.Model.EOpen c es) /\
  (forall os g c, ~ In c (Tcp.Model.g_open (Tcp.Model.gstep (Tcp.Model.ECancel c) os g))) /\
  (forall c g, ~ In c (Tcp.Model.g_open (Tcp.Model.gev (Tcp.Model.TOpened c) g)) /\ ~ In c (Tcp.Model.g_open (Tcp.Model.gev (Tcp.Model.TOpenFailure c) g)))).
Check (C05_tcp_call_results :
  forall s g e, Tcp.Theorems.reachU s g -> Tcp.Model.call_ok e g (snd (Tcp.Model.step s e)) = true).
Check (C05_tcp_negotiate_after_opened :
  forall s g e c,
  Tcp.Theorems.reachU s g -> In (Tcp.Model.OEv (Tcp.Model.TOpened c)) (snd (Tcp.Model.step s e)) ->
  let s1 := fst (Tcp.Model.step s e) in
  snd (Tcp.Model.step s1 (Tcp.Model.ENegotiate c)) = [Tcp.Model.ORet true] /\
  snd (Tcp.Model.step (fst (Tcp.Model.step s1 (Tcp.Model.ECancel c))) (Tcp.Model.ENegotiate c)) = [Tcp.Model.ORet true]).
Check (C05_tcp_contract :
  forall s g e o1 t o2,
  Tcp.Theorems.reach s g -> Tcp.Model.caller_ok g e = true -> snd (Tcp.Model.step s e) = o1 ++ Tcp.Model.OEv t :: o2 ->
  Tcp.Model.tfeas (fold_left Tcp.Model.gout o1 (Tcp.Model.gcall e (snd (Tcp.Model.step s e)) g)) t = true).
Check (C05_tcp_established_names_dialled_peer :
  forall s g e o1 c q o2,
  Tcp.Theorems.reach s g -> Tcp.Model.caller_ok g e = true -> snd (Tcp.Model.step s e) = o1 ++ Tcp.Model.OEv (Tcp.Model.TEstablished c q false) :: o2 ->
  let g' := fold_left Tcp.Model.gout o1 (Tcp.Model.gcall e (snd (Tcp.Model.step s e)) g) in
  In c (Tcp.Model.g_neg g') /\
  exists es, Tcp.Model.lookup c (Tcp.Model.g_att g') = Some es /\ (exists x, In x es /\ Tcp.Model.matches x q = true) /\
             forall p, (forall x, In x es -> x = Some p) -> q = p).
Check (C05_tcp_named_by_call :
  forall e os g c,
  Tcp.Model.lookup c (Tcp.Model.g_att (Tcp.Model.gstep e os g)) =
  match e with
  | Tcp.Model.EDial c' _ ex => if (c' =? c) && Tcp.Model.ret_ok os then Some [ex] else Tcp.Model.lookup c (Tcp.Model.g_att g)
  | Tcp.Model.EOpen c' es => if c' =? c then Some es else Tcp.Model.lookup c (Tcp.Model.g_att g)
  | _ => Tcp.Model.lookup c (Tcp.Model.g_att g)
  end).
Check (C05_tcp_no_dropped_answer :
  forall s g e m,
  Tcp.Theorems.reach s g -> Tcp.Model.caller_ok g e = true -> In (Tcp.Model.OMark m) (snd (Tcp.Model.step s e)) ->
  exists c, m = Tcp.Model.MSilentFailure c Tcp.Model.KInb).
Check (C05_tcp_owed_is_pending :
  forall s g c,
  Tcp.Theorems.reach s g ->
  (In c (Tcp.Model.g_open g) -> exists f rem, Tcp.Model.lookup f (Tcp.Model.praw s) = Some c /\ Tcp.Model.lookup f (Tcp.Model.attempts s) = Some rem /\
                                    ~ In f (Tcp.Model.aborted s)) /\
  (In c (Tcp.Model.g_neg g) -> exists f k, Tcp.Model.lookup f (Tcp.Model.pconn s) = Some (c, k) /\ Tcp.Model.is_inb k = false)).
Check (C05_tcp_progress_open_answer :
  forall s g f c rem i e q,
  Tcp.Theorems.reach s g -> Tcp.Model.lookup f (Tcp.Model.praw s) = Some c -> In c (Tcp.Model.g_open g) ->
  Tcp.Model.lookup f (Tcp.Model.attempts s) = Some rem -> Tcp.Model.lookup i rem = Some e -> Tcp.Model.matches e q = true ->
  In (Tcp.Model.OEv (Tcp.Model.TOpened c)) (snd (Tcp.Model.step s (Tcp.Model.EAns f i (Some q))))).
Check (C05_tcp_progress_open_last_failure :
  forall s g f c rem i e ans,
  Tcp.Theorems.reach s g -> Tcp.Model.lookup f (Tcp.Model.praw s) = Some c -> In c (Tcp.Model.g_open g) ->
  Tcp.Model.lookup f (Tcp.Model.attempts s) = Some rem -> Tcp.Model.lookup i rem = Some e -> Tcp.Model.delk i rem = [] ->
  (forall q, ans = Some q -> Tcp.Model.matches e q = false) ->
  In (Tcp.Model.OEv (Tcp.Model.TOpenFailure c)) (snd (Tcp.Model.step s (Tcp.Model.EAns f i ans)))).
Check (C05_tcp_progress_open_expire :
  forall s g f c rem,
  Tcp.Theorems.reach s g -> Tcp.Model.lookup f (Tcp.Model.praw s) = Some c -> In c (Tcp.Model.g_open g) ->
  Tcp.Model.lookup f (Tcp.Model.attempts s) = Some rem -> rem <> [] ->
  In (Tcp.Model.OEv (Tcp.Model.TOpenFailure c)) (snd (Tcp.Model.step s (Tcp.Model.EExpire f)))).
Check (C05_tcp_progress_open_no_address :
  forall s g f c e,
  Tcp.Theorems.reach s g -> Tcp.Model.lookup f (Tcp.Model.praw s) = Some c -> In c (Tcp.Model.g_open g) -> Tcp.Model.lookup f (Tcp.Model.attempts s) = Some [] ->
  Tcp.Model.polls e = true -> In (Tcp.Model.OEv (Tcp.Model.TOpenFailure c)) (snd (Tcp.Model.step s e))).
Check (C05_tcp_progress_dial :
  forall s g f c i ans,
  Tcp.Theorems.reach s g -> Tcp.Model.lookup f (Tcp.Model.pconn s) = Some (c, Tcp.Model.KDial) ->
  exists x, Tcp.Model.lookup c (Tcp.Model.g_att g) = Some [x] /\
    In (Tcp.Model.OEv (match ans with
             | Some q => if Tcp.Model.matches x q then Tcp.Model.TEstablished c q false else Tcp.Model.TDialFailure c
             | None => Tcp.Model.TDialFailure c
             end)) (snd (Tcp.Model.step s (Tcp.Model.EAns f i ans)))).
Check (C05_tcp_progress_negotiate :
  forall s g f c e,
  Tcp.Theorems.reach s g -> Tcp.Model.lookup f (Tcp.Model.pconn s) = Some (c, Tcp.Model.KNeg) -> Tcp.Model.polls e = true ->
  exists q, In (Tcp.Model.OEv (Tcp.Model.TEstablished c q false)) (snd (Tcp.Model.step s e))).
Check (C05_tcp_progress_inbound :
  forall s g f c i q,
  Tcp.Theorems.reach s g -> Tcp.Model.lookup f (Tcp.Model.pconn s) = Some (c, Tcp.Model.KInb) ->
  In (Tcp.Model.OEv (Tcp.Model.TEstablished c q true)) (snd (Tcp.Model.step s (Tcp.Model.EAns f i (Some q))))).
Check (C05_tcp_outbound_ids_from_owner :
  forall s g c,
  Tcp.Theorems.reachU s g -> In c (Tcp.Model.g_open g) \/ In c (Tcp.Model.g_neg g) \/ In c (Tcp.Model.g_opened g) -> In c (Tcp.Model.g_used g)).
Check (C05_tcp_caller_ok_needed :
  exists es, Tcp.Theorems.callers_ok Tcp.Model.init Tcp.Model.g0 es = false /\
             In [Tcp.Model.OMark (Tcp.Model.MNoHandle 0)] (snd (Tcp.Theorems.run Tcp.Model.init es))).
Check (C05_sys_feasible :
  forall L, (forall t, installed L t = true <-> t = TCP) ->
  forall xs, TcpCompose.xfeasible L TcpCompose.sys0 xs ->
  feasible L init g0 (TcpCompose.sys_trace L TcpCompose.sys0 xs) /\
  (TcpCompose.s_m (TcpCompose.sys_run L TcpCompose.sys0 xs), TcpCompose.s_g (TcpCompose.sys_run L TcpCompose.sys0 xs)) =
  lrun L init g0 (TcpCompose.sys_trace L TcpCompose.sys0 xs)).
Check (C05_sys_step :
  forall L, (forall t, installed L t = true <-> t = TCP) ->
  forall st x, TcpCompose.Inv L st -> TcpCompose.xok L st x ->
  feasible L (TcpCompose.s_m st) (TcpCompose.s_g st) (TcpCompose.sys_evs L st x) /\
  TcpCompose.Inv L (TcpCompose.sys_step L st x)).
Check (C05_sys_at_most_one_outcome :
  forall L, (forall t, installed L t = true <-> t = TCP) ->
  forall xs, TcpCompose.xfeasible L TcpCompose.sys0 xs ->
  NoDup (terminals L init (TcpCompose.sys_trace L TcpCompose.sys0 xs))).
Check (C05_sys_no_silence :
  forall L, (forall t, installed L t = true <-> t = TCP) ->
  forall xs, TcpCompose.xfeasible L TcpCompose.sys0 xs ->
  let st := TcpCompose.sys_run L TcpCompose.sys0 xs in
  quiescent (TcpCompose.s_m st) (TcpCompose.s_g st) ->
  forall c p, lookup c (g_att (TcpCompose.s_g st)) = Some p ->
    In c (g_done (TcpCompose.s_g st)) \/
    (In c (g_super (TcpCompose.s_g st)) /\ In p (g_rep (TcpCompose.s_g st))) \/
    In c (g_limrej (TcpCompose.s_g st))).
Check (C05_sys_no_wedge :
  forall L, (forall t, installed L t = true <-> t = TCP) ->
  forall xs, TcpCompose.xfeasible L TcpCompose.sys0 xs ->
  let st := TcpCompose.sys_run L TcpCompose.sys0 xs in
  quiescent (TcpCompose.s_m st) (TcpCompose.s_g st) -> forall p, settled (state_of (TcpCompose.s_m st) p)).
Check (C05_sys_quiescent :
  forall L, (forall t, installed L t = true <-> t = TCP) ->
  forall xs, TcpCompose.xfeasible L TcpCompose.sys0 xs ->
  let st := TcpCompose.sys_run L TcpCompose.sys0 xs in
  quiescent (TcpCompose.s_m st) (TcpCompose.s_g st) <->
  Tcp.Model.g_open (TcpCompose.s_tg st) = [] /\ Tcp.Model.g_neg (TcpCompose.s_tg st) = [] /\
  accepting (TcpCompose.s_m st) = []).
Check (C05_sys_owed_is_pending :
  forall L, (forall t, installed L t = true <-> t = TCP) ->
  forall xs c, TcpCompose.xfeasible L TcpCompose.sys0 xs ->
  let st := TcpCompose.sys_run L TcpCompose.sys0 xs in
  owed (TcpCompose.s_g st) c ->
  (exists f rem, Tcp.Model.lookup f (Tcp.Model.praw (TcpCompose.s_t st)) = Some c /\
                 Tcp.Model.lookup f (Tcp.Model.attempts (TcpCompose.s_t st)) = Some rem /\
                 ~ In f (Tcp.Model.aborted (TcpCompose.s_t st))) \/
  (exists f k, Tcp.Model.lookup f (Tcp.Model.pconn (TcpCompose.s_t st)) = Some (c, k) /\ Tcp.Model.is_inb k = false)).
Check (C05_sys_progress :
  forall L, (forall t, installed L t = true <-> t = TCP) ->
  forall xs c, TcpCompose.xfeasible L TcpCompose.sys0 xs ->
  let st := TcpCompose.sys_run L TcpCompose.sys0 xs in
  owed (TcpCompose.s_g st) c ->
  exists n, Tcp.Model.polls n = true /\ TcpCompose.xfeasible L TcpCompose.sys0 (xs ++ [TcpCompose.XNet n]) /\
            exists e, In e (TcpCompose.sys_evs L st (TcpCompose.XNet n)) /\ TcpCompose.answers c e).
Check (C05_sys_no_stuck :
  forall L, (forall t, installed L t = true <-> t = TCP) ->
  forall xs x s, TcpCompose.xfeasible L TcpCompose.sys0 (xs ++ [x]) ->
  forall e m g es2, TcpCompose.sys_evs L (TcpCompose.sys_run L TcpCompose.sys0 xs) x = e :: es2 ->
  (m, g) = (TcpCompose.s_m (TcpCompose.sys_run L TcpCompose.sys0 xs), TcpCompose.s_g (TcpCompose.sys_run L TcpCompose.sys0 xs)) ->
  ~ In (Stuck s) (snd (step L m e))).
Check (C05_tr_refines_model :
  forall t s g,
  Tcp.VariantTheorems.treach t s g -> Tcp.Theorems.reach s g).
Check (C05_tr_refines_model_any_owner :
  forall t s g,
  Tcp.VariantTheorems.treachU t s g -> Tcp.Theorems.reachU s g).
Check (C05_tr_dial_result :
  forall t s g c a,
  Tcp.VariantTheorems.treachU t s g ->
  snd (Tcp.Variants.tstep t s (Tcp.Variants.XDial c a)) = [Tcp.Model.ORet (match Tcp.Variants.expect_of t a with Some _ => true | None => false end)]).
Check (C05_tr_open_result :
  forall t s c l,
  snd (Tcp.Variants.tstep t s (Tcp.Variants.XOpen c l)) = [Tcp.Model.ORet true]).
Check (C05_ws_url_parse :
  forall a p,
  Tcp.Variants.ws_url a = Some p -> exists ho port, C10.Model.parse V.C10.Model.TWs a = Some (ho, port, Some p)).
Check (C05_tcp_accepts_manager_shape :
  forall a q,
  Tcp.Variants.manager_tcp_shape a q -> Tcp.Variants.expect_of V.C10.Model.TTcp a = Some (Some q)).
Check (C05_ws_accepts_manager_shape :
  forall a q,
  Tcp.Variants.manager_ws_shape a q -> Tcp.Variants.expect_of V.C10.Model.TWs a = Some (Some q)).
Check (C05_quic_accepts_manager_shape :
  forall a q,
  Tcp.Variants.manager_quic_shape a q -> Tcp.Variants.expect_of V.C10.Model.TQuic a = Some (Some q)).
Check (C05_tr_accepts_supported :
  forall cfg a,
  C10.Model.supported cfg a = true ->
  exists q, last a (C10.Model.Other 0) = C10.Model.P2p q /\ Tcp.Variants.expect_of (C10.Model.route cfg a) a = Some (Some q)).
Check (C05_tcp_dial_accepts_manager_addresses :
  forall listen a q,
  DialShape.dial_shape listen a = DialShape.SvTcp q -> Tcp.Variants.expect_of V.C10.Model.TTcp a = Some (Some q)).
Check (C05_ws_dial_accepts_manager_addresses :
  forall listen a q,
  DialShape.dial_shape listen a = DialShape.SvWs q -> Tcp.Variants.expect_of V.C10.Model.TWs a = Some (Some q)).
Check (C05_tr_open_phase_owed :
  forall t s g k o1 e o2,
  Tcp.VariantTheorems.treachU t s g -> snd (Tcp.Variants.tstep t s k) = o1 ++ Tcp.Model.OEv e :: o2 ->
  match e with
  | Tcp.Model.TOpened c | Tcp.Model.TOpenFailure c =>
      In c (Tcp.Model.g_open (fold_left Tcp.Model.gout o1 (Tcp.Model.gcall (Tcp.Variants.ev_of t k) (snd (Tcp.Variants.tstep t s k)) g)))
  | _ => True
  end).
Check (C05_tr_call_results :
  forall t s g k,
  Tcp.VariantTheorems.treachU t s g -> Tcp.Model.call_ok (Tcp.Variants.ev_of t k) g (snd (Tcp.Variants.tstep t s k)) = true).
Check (C05_tr_negotiate_after_opened :
  forall t s g k c,
  Tcp.VariantTheorems.treachU t s g -> In (Tcp.Model.OEv (Tcp.Model.TOpened c)) (snd (Tcp.Variants.tstep t s k)) ->
  let s1 := fst (Tcp.Variants.tstep t s k) in
  snd (Tcp.Variants.tstep t s1 (Tcp.Variants.XEv (Tcp.Model.ENegotiate c))) = [Tcp.Model.ORet true] /\
  snd (Tcp.Variants.tstep t (fst (Tcp.Variants.tstep t s1 (Tcp.Variants.XEv (Tcp.Model.ECancel c)))) (Tcp.Variants.XEv (Tcp.Model.ENegotiate c))) = [Tcp.Model.ORet true]).
Check (C05_tr_contract :
  forall t s g k o1 e o2,
  Tcp.VariantTheorems.treach t s g -> Tcp.Model.caller_ok g (Tcp.Variants.ev_of t k) = true -> snd (Tcp.Variants.tstep t s k) = o1 ++ Tcp.Model.OEv e :: o2 ->
  Tcp.Model.tfeas (fold_left Tcp.Model.gout o1 (Tcp.Model.gcall (Tcp.Variants.ev_of t k) (snd (Tcp.Variants.tstep t s k)) g)) e = true).
Check (C05_tr_established_names_dialled_peer :
  forall t s g k o1 c q o2,
  Tcp.VariantTheorems.treach t s g -> Tcp.Model.caller_ok g (Tcp.Variants.ev_of t k) = true ->
  snd (Tcp.Variants.tstep t s k) = o1 ++ Tcp.Model.OEv (Tcp.Model.TEstablished c q false) :: o2 ->
  let g' := fold_left Tcp.Model.gout o1 (Tcp.Model.gcall (Tcp.Variants.ev_of t k) (snd (Tcp.Variants.tstep t s k)) g) in
  In c (Tcp.Model.g_neg g') /\
  exists es, Tcp.Model.lookup c (Tcp.Model.g_att g') = Some es /\ (exists x, In x es /\ Tcp.Model.matches x q = true) /\
             forall p, (forall x, In x es -> x = Some p) -> q = p).
Check (C05_tr_strict_established_is_named_peer :
  forall t s g k o1 c q o2,
  Tcp.VariantTheorems.strict t = true ->
  Tcp.VariantTheorems.treach t s g -> Tcp.Variants.call_plain t k = true -> Tcp.Model.caller_ok g (Tcp.Variants.ev_of t k) = true ->
  snd (Tcp.Variants.tstep t s k) = o1 ++ Tcp.Model.OEv (Tcp.Model.TEstablished c q false) :: o2 ->
  exists es, Tcp.Model.lookup c (Tcp.Model.g_att (Tcp.Model.gstep (Tcp.Variants.ev_of t k) (snd (Tcp.Variants.tstep t s k)) g)) = Some es /\ In (Some q) es).
Check (C05_tr_no_dropped_answer :
  forall t s g k m,
  Tcp.VariantTheorems.treach t s g -> Tcp.Model.caller_ok g (Tcp.Variants.ev_of t k) = true -> In (Tcp.Model.OMark m) (snd (Tcp.Variants.tstep t s k)) ->
  exists c, m = Tcp.Model.MSilentFailure c Tcp.Model.KInb).
Check (C05_tr_owed_is_pending :
  forall t s g c,
  Tcp.VariantTheorems.treach t s g ->
  (In c (Tcp.Model.g_open g) -> exists f rem, Tcp.Model.lookup f (Tcp.Model.praw s) = Some c /\ Tcp.Model.lookup f (Tcp.Model.attempts s) = Some rem /\
                                    ~ In f (Tcp.Model.aborted s)) /\
  (In c (Tcp.Model.g_neg g) -> exists f k, Tcp.Model.lookup f (Tcp.Model.pconn s) = Some (c, k) /\ Tcp.Model.is_inb k = false)).
Check (C05_tr_progress_open_answer :
  forall t s g f c rem i e q,
  Tcp.VariantTheorems.treach t s g -> Tcp.Model.lookup f (Tcp.Model.praw s) = Some c -> In c (Tcp.Model.g_open g) ->
  Tcp.Model.lookup f (Tcp.Model.attempts s) = Some rem -> Tcp.Model.lookup i rem = Some e -> Tcp.Model.matches e q = true ->
  In (Tcp.Model.OEv (Tcp.Model.TOpened c)) (snd (Tcp.Variants.tstep t s (Tcp.Variants.XEv (Tcp.Model.EAns f i (Some q)))))).
Check (C05_tr_progress_open_last_failure :
  forall t s g f c rem i e ans,
  Tcp.VariantTheorems.treach t s g -> Tcp.Model.lookup f (Tcp.Model.praw s) = Some c -> In c (Tcp.Model.g_open g) ->
  Tcp.Model.lookup f (Tcp.Model.attempts s) = Some rem -> Tcp.Model.lookup i rem = Some e -> Tcp.Model.delk i rem = [] ->
  (forall q, ans = Some q -> Tcp.Model.matches e q = false) ->
  In (Tcp.Model.OEv (Tcp.Model.TOpenFailure c)) (snd (Tcp.Variants.tstep t s (Tcp.Variants.XEv (Tcp.Model.EAns f i ans))))).
Check (C05_tr_progress_open_expire :
  forall t s g f c rem,
  Tcp.Variants.has_deadline t = true ->
  Tcp.VariantTheorems.treach t s g -> Tcp.Model.lookup f (Tcp.Model.praw s) = Some c -> In c (Tcp.Model.g_open g) ->
  Tcp.Model.lookup f (Tcp.Model.attempts s) = Some rem -> rem <> [] ->
  In (Tcp.Model.OEv (Tcp.Model.TOpenFailure c)) (snd (Tcp.Variants.tstep t s (Tcp.Variants.XEv (Tcp.Model.EExpire f))))).
Check (C05_tr_progress_open_no_address :
  forall t s g f c e,
  Tcp.VariantTheorems.treach t s g -> Tcp.Model.lookup f (Tcp.Model.praw s) = Some c -> In c (Tcp.Model.g_open g) -> Tcp.Model.lookup f (Tcp.Model.attempts s) = Some [] ->
  Tcp.Model.polls e = true -> In (Tcp.Model.OEv (Tcp.Model.TOpenFailure c)) (snd (Tcp.Variants.tstep t s (Tcp.Variants.XEv e)))).
Check (C05_tr_progress_dial :
  forall t s g f c i ans,
  Tcp.VariantTheorems.treach t s g -> Tcp.Model.lookup f (Tcp.Model.pconn s) = Some (c, Tcp.Model.KDial) ->
  exists x, Tcp.Model.lookup c (Tcp.Model.g_att g) = Some [x] /\
    In (Tcp.Model.OEv (match ans with
             | Some q => if Tcp.Model.matches x q then Tcp.Model.TEstablished c q false else Tcp.Model.TDialFailure c
             | None => Tcp.Model.TDialFailure c
             end)) (snd (Tcp.Variants.tstep t s (Tcp.Variants.XEv (Tcp.Model.EAns f i ans))))).
Check (C05_tr_progress_negotiate :
  forall t s g f c e,
  Tcp.VariantTheorems.treach t s g -> Tcp.Model.lookup f (Tcp.Model.pconn s) = Some (c, Tcp.Model.KNeg) -> Tcp.Model.polls e = true ->
  exists q, In (Tcp.Model.OEv (Tcp.Model.TEstablished c q false)) (snd (Tcp.Variants.tstep t s (Tcp.Variants.XEv e)))).
Check (C05_tr_progress_inbound :
  forall t s g f c i q,
  Tcp.VariantTheorems.treach t s g -> Tcp.Model.lookup f (Tcp.Model.pconn s) = Some (c, Tcp.Model.KInb) ->
  In (Tcp.Model.OEv (Tcp.Model.TEstablished c q true)) (snd (Tcp.Variants.tstep t s (Tcp.Variants.XEv (Tcp.Model.EAns f i (Some q)))))).
Check (C05_tr_outbound_ids_from_owner :
  forall t s g c,
  Tcp.VariantTheorems.treachU t s g -> In c (Tcp.Model.g_open g) \/ In c (Tcp.Model.g_neg g) \/ In c (Tcp.Model.g_opened g) -> In c (Tcp.Model.g_used g)).
Check (C05_tr_opened_is_unnegotiated :
  forall t s g c,
  Tcp.VariantTheorems.treachU t s g -> (In c (Tcp.Model.opened s) <-> In c (Tcp.Model.g_opened g))).
Check (C05_tr_opened_leaves_by_negotiate :
  forall e os g c,
  In c (Tcp.Model.g_opened g) -> ~ In c (Tcp.Model.g_opened (Tcp.Model.gstep e os g)) -> e = Tcp.Model.ENegotiate c).
Check (C05_tcp_answers_at_most_once :
  forall s g h c,
  Tcp.Once.reachH s g h -> (Tcp.Once.cnt (Tcp.Once.open_ans c) h <= 1)%nat /\ (Tcp.Once.cnt (Tcp.Once.neg_ans c) h <= 1)%nat).
Check (C05_tcp_owed_not_answered :
  forall s g h c,
  Tcp.Once.reachH s g h ->
  (In c (Tcp.Model.g_open g) -> Tcp.Once.cnt (Tcp.Once.open_ans c) h = 0%nat /\ Tcp.Once.cnt (Tcp.Once.neg_ans c) h = 0%nat /\ ~ In c (Tcp.Model.g_neg g) /\ ~ In c (Tcp.Model.g_opened g)) /\
  (In c (Tcp.Model.g_neg g) -> Tcp.Once.cnt (Tcp.Once.neg_ans c) h = 0%nat /\ ~ In c (Tcp.Model.g_open g) /\ ~ In c (Tcp.Model.g_opened g))).
Check (C05_tcp_no_answer_without_call :
  forall s g h c,
  Tcp.Once.reachH s g h -> ~ In c (Tcp.Model.g_used g) -> Tcp.Once.cnt (Tcp.Once.open_ans c) h = 0%nat /\ Tcp.Once.cnt (Tcp.Once.neg_ans c) h = 0%nat).
Check (C05_tr_answers_at_most_once :
  forall t s g h c,
  Tcp.Once.treachH t s g h -> (Tcp.Once.cnt (Tcp.Once.open_ans c) h <= 1)%nat /\ (Tcp.Once.cnt (Tcp.Once.neg_ans c) h <= 1)%nat).
Check (C05_tr_owed_not_answered :
  forall t s g h c,
  Tcp.Once.treachH t s g h ->
  (In c (Tcp.Model.g_open g) -> Tcp.Once.cnt (Tcp.Once.open_ans c) h = 0%nat /\ Tcp.Once.cnt (Tcp.Once.neg_ans c) h = 0%nat /\ ~ In c (Tcp.Model.g_neg g) /\ ~ In c (Tcp.Model.g_opened g)) /\
  (In c (Tcp.Model.g_neg g) -> Tcp.Once.cnt (Tcp.Once.neg_ans c) h = 0%nat /\ ~ In c (Tcp.Model.g_open g) /\ ~ In c (Tcp.Model.g_opened g))).
Check (C05_tr_no_answer_without_call :
  forall t s g h c,
  Tcp.Once.treachH t s g h -> ~ In c (Tcp.Model.g_used g) -> Tcp.Once.cnt (Tcp.Once.open_ans c) h = 0%nat /\ Tcp.Once.cnt (Tcp.Once.neg_ans c) h = 0%nat).
Check (C05_tr_refused_dial_no_effect :
  forall t s g c a,
  Tcp.Variants.expect_of t a = None ->
  Tcp.Variants.tstep t s (Tcp.Variants.XDial c a) = (s, [Tcp.Model.ORet false]) /\
  Tcp.Model.gstep (Tcp.Variants.ev_of t (Tcp.Variants.XDial c a)) (snd (Tcp.Variants.tstep t s (Tcp.Variants.XDial c a))) g = g).
Check (C05_tr_open_unparsable_fails :
  forall t s g c l e,
  Tcp.VariantTheorems.treach t s g -> Tcp.Model.caller_ok g (Tcp.Variants.ev_of t (Tcp.Variants.XOpen c l)) = true -> Tcp.Variants.attempts_of t l = [] -> Tcp.Model.polls e = true ->
  In (Tcp.Model.OEv (Tcp.Model.TOpenFailure c)) (snd (Tcp.Variants.tstep t (fst (Tcp.Variants.tstep t s (Tcp.Variants.XOpen c l))) (Tcp.Variants.XEv e)))).
Check (C05_tcp_can_always_settle :
  forall s g,
  Tcp.Theorems.reach s g ->
  exists es, forallb Tcp.Settle.env_ev es = true /\
             Tcp.Theorems.reach (fst (Tcp.Settle.runG s g es)) (snd (Tcp.Settle.runG s g es)) /\
             Tcp.Model.g_open (snd (Tcp.Settle.runG s g es)) = [] /\ Tcp.Model.g_neg (snd (Tcp.Settle.runG s g es)) = []).
Check (C05_tcp_env_removes_only_by_answer :
  forall s g e c,
  Tcp.Settle.env_ev e = true ->
  (In c (Tcp.Model.g_open g) -> ~ In c (Tcp.Model.g_open (Tcp.Model.gstep e (snd (Tcp.Model.step s e)) g)) ->
   exists o, In o (snd (Tcp.Model.step s e)) /\ Tcp.Settle.answers_open c o) /\
  (In c (Tcp.Model.g_neg g) -> ~ In c (Tcp.Model.g_neg (Tcp.Model.gstep e (snd (Tcp.Model.step s e)) g)) ->
   exists o, In o (snd (Tcp.Model.step s e)) /\ Tcp.Settle.answers_neg c o)).
Check (C05_tr_can_always_settle :
  forall t s g,
  Tcp.VariantTheorems.treach t s g ->
  exists es, forallb Tcp.Settle.env_ev es = true /\
             Tcp.VariantTheorems.treach t (fst (Tcp.Settle.runG s g es)) (snd (Tcp.Settle.runG s g es)) /\
             Tcp.Model.g_open (snd (Tcp.Settle.runG s g es)) = [] /\ Tcp.Model.g_neg (snd (Tcp.Settle.runG s g es)) = []).
Check (C05_sysT_feasible :
  forall (Tg : tr) (L : limits),
  (forall t : tr, installed L t = true <-> t = Tg) ->
  forall xs : list TrCompose.xev,
  TrCompose.xfeasible Tg L TrCompose.sys0 xs ->
  feasible L init g0 (TrCompose.sys_trace Tg L TrCompose.sys0 xs) /\
  (TrCompose.s_m (TrCompose.sys_run Tg L TrCompose.sys0 xs), TrCompose.s_g (TrCompose.sys_run Tg L TrCompose.sys0 xs)) =
  lrun L init g0 (TrCompose.sys_trace Tg L TrCompose.sys0 xs)).
Check (C05_sysT_step :
  forall (Tg : tr) (L : limits),
  (forall t : tr, installed L t = true <-> t = Tg) ->
  forall (st : TrCompose.sys) (x : TrCompose.xev),
  TrCompose.Inv Tg L st ->
  TrCompose.xok L st x ->
  feasible L (TrCompose.s_m st) (TrCompose.s_g st) (TrCompose.sys_evs Tg L st x) /\ TrCompose.Inv Tg L (TrCompose.sys_step Tg L st x)).
Check (C05_sysT_at_most_one_outcome :
  forall (Tg : tr) (L : limits),
  (forall t : tr, installed L t = true <-> t = Tg) ->
  forall xs : list TrCompose.xev,
  TrCompose.xfeasible Tg L TrCompose.sys0 xs -> NoDup (terminals L init (TrCompose.sys_trace Tg L TrCompose.sys0 xs))).
Check (C05_sysT_no_silence :
  forall (Tg : tr) (L : limits),
  (forall t : tr, installed L t = true <-> t = Tg) ->
  forall xs : list TrCompose.xev,
  TrCompose.xfeasible Tg L TrCompose.sys0 xs ->
  let st := TrCompose.sys_run Tg L TrCompose.sys0 xs in
  quiescent (TrCompose.s_m st) (TrCompose.s_g st) ->
  forall (c : N) (p : peer),
  lookup c (g_att (TrCompose.s_g st)) = Some p ->
  In c (g_done (TrCompose.s_g st)) \/ In c (g_super (TrCompose.s_g st)) /\ In p (g_rep (TrCompose.s_g st)) \/ In c (g_limrej (TrCompose.s_g st))).
Check (C05_sysT_no_wedge :
  forall (Tg : tr) (L : limits),
  (forall t : tr, installed L t = true <-> t = Tg) ->
  forall xs : list TrCompose.xev,
  TrCompose.xfeasible Tg L TrCompose.sys0 xs ->
  let st := TrCompose.sys_run Tg L TrCompose.sys0 xs in
  quiescent (TrCompose.s_m st) (TrCompose.s_g st) -> forall p : peer, settled (state_of (TrCompose.s_m st) p)).
Check (C05_sysT_no_stuck :
  forall (Tg : tr) (L : limits),
  (forall t : tr, installed L t = true <-> t = Tg) ->
  forall (xs : list TrCompose.xev) (x : TrCompose.xev) (s : N),
  TrCompose.xfeasible Tg L TrCompose.sys0 (xs ++ [x]) ->
  forall (e : ev) (m : mgr) (g : ghost) (es2 : list ev),
  TrCompose.sys_evs Tg L (TrCompose.sys_run Tg L TrCompose.sys0 xs) x = e :: es2 ->
  (m, g) = (TrCompose.s_m (TrCompose.sys_run Tg L TrCompose.sys0 xs), TrCompose.s_g (TrCompose.sys_run Tg L TrCompose.sys0 xs)) ->
  ~ In (Stuck s) (snd (step L m e))).
Check (C05_sysT_quiescent :
  forall (Tg : tr) (L : limits),
  (forall t : tr, installed L t = true <-> t = Tg) ->
  forall xs : list TrCompose.xev,
  TrCompose.xfeasible Tg L TrCompose.sys0 xs ->
  let st := TrCompose.sys_run Tg L TrCompose.sys0 xs in
  quiescent (TrCompose.s_m st) (TrCompose.s_g st) <->
  TrCompose.TM.g_open (TrCompose.s_tg st) = [] /\ TrCompose.TM.g_neg (TrCompose.s_tg st) = [] /\ accepting (TrCompose.s_m st) = []).
Check (C05_sysT_owed_is_pending :
  forall (Tg : tr) (L : limits),
  (forall t : tr, installed L t = true <-> t = Tg) ->
  forall (xs : list TrCompose.xev) (c : conn),
  TrCompose.xfeasible Tg L TrCompose.sys0 xs ->
  let st := TrCompose.sys_run Tg L TrCompose.sys0 xs in
  owed (TrCompose.s_g st) c ->
  (exists (f : N) (rem : list (N * TrCompose.TM.expect)),
     TrCompose.TM.lookup f (TrCompose.TM.praw (TrCompose.s_t st)) = Some c /\
     TrCompose.TM.lookup f (TrCompose.TM.attempts (TrCompose.s_t st)) = Some rem /\ ~ In f (TrCompose.TM.aborted (TrCompose.s_t st))) \/
  (exists (f : N) (k : TrCompose.TM.kind),
     TrCompose.TM.lookup f (TrCompose.TM.pconn (TrCompose.s_t st)) = Some (c, k) /\ TrCompose.TM.is_inb k = false)).
Check (C05_sysT_progress :
  forall (Tg : tr) (L : limits),
  (forall t : tr, installed L t = true <-> t = Tg) ->
  forall (xs : list TrCompose.xev) (c : conn),
  TrCompose.xfeasible Tg L TrCompose.sys0 xs ->
  let st := TrCompose.sys_run Tg L TrCompose.sys0 xs in
  owed (TrCompose.s_g st) c ->
  exists n : TrCompose.TM.ev,
    TrCompose.TM.polls n = true /\
    TrCompose.xfeasible Tg L TrCompose.sys0 (xs ++ [TrCompose.XNet n]) /\
    (exists e : ev, In e (TrCompose.sys_evs Tg L st (TrCompose.XNet n)) /\ TrCompose.answers c e)).
Check (C05_sysT_calls_are_real :
  forall (Tg : tr) (p : peer) (k : nat) (o : out),
  Tg = TCP \/ Tg = WS -> TrCompose.fwd Tg p k o = map (TrCompose.TV.ev_of (TrCompose.transport_of Tg)) (TrCompose.fwdX Tg p k o)).
Check (C05_sysT_transport_side_is_its_model :
  forall (Tg : tr) (L : limits) (k : nat) (st : TrCompose.sys) (e : ev),
  Tg = TCP \/ Tg = WS ->
  (TrCompose.s_t (TrCompose.deliver Tg L k st e), TrCompose.s_tg (TrCompose.deliver Tg L k st e)) =
  TrCompose.xrun (TrCompose.transport_of Tg) (TrCompose.s_t st) (TrCompose.s_tg st) (TrCompose.real_calls Tg L k st e)).
Check (C05_sys2_feasible :
  forall L : limits,
  installed L TCP = true /\ installed L WS = true ->
  forall xs : list TwoCompose.xev,
  TwoCompose.xfeasible L TwoCompose.sys0 xs ->
  feasible L init g0 (TwoCompose.sys_trace L TwoCompose.sys0 xs) /\
  (TwoCompose.s_m (TwoCompose.sys_run L TwoCompose.sys0 xs), TwoCompose.s_g (TwoCompose.sys_run L TwoCompose.sys0 xs)) =
  lrun L init g0 (TwoCompose.sys_trace L TwoCompose.sys0 xs)).
Check (C05_sys2_step :
  forall L : limits,
  installed L TCP = true /\ installed L WS = true ->
  forall (st : TwoCompose.sys) (x : TwoCompose.xev),
  TwoCompose.Inv L st ->
  TwoCompose.xok L st x ->
  feasible L (TwoCompose.s_m st) (TwoCompose.s_g st) (TwoCompose.sys_evs L st x) /\ TwoCompose.Inv L (TwoCompose.sys_step L st x)).
Check (C05_sys2_at_most_one_outcome :
  forall L : limits,
  installed L TCP = true /\ installed L WS = true ->
  forall xs : list TwoCompose.xev,
  TwoCompose.xfeasible L TwoCompose.sys0 xs -> NoDup (terminals L init (TwoCompose.sys_trace L TwoCompose.sys0 xs))).
Check (C05_sys2_no_silence :
  forall L : limits,
  installed L TCP = true /\ installed L WS = true ->
  forall xs : list TwoCompose.xev,
  TwoCompose.xfeasible L TwoCompose.sys0 xs ->
  let st := TwoCompose.sys_run L TwoCompose.sys0 xs in
  quiescent (TwoCompose.s_m st) (TwoCompose.s_g st) ->
  forall (c : N) (p : peer),
  lookup c (g_att (TwoCompose.s_g st)) = Some p ->
  In c (g_done (TwoCompose.s_g st)) \/ In c (g_super (TwoCompose.s_g st)) /\ In p (g_rep (TwoCompose.s_g st)) \/ In c (g_limrej (TwoCompose.s_g st))).
Check (C05_sys2_no_wedge :
  forall L : limits,
  installed L TCP = true /\ installed L WS = true ->
  forall xs : list TwoCompose.xev,
  TwoCompose.xfeasible L TwoCompose.sys0 xs ->
  let st := TwoCompose.sys_run L TwoCompose.sys0 xs in
  quiescent (TwoCompose.s_m st) (TwoCompose.s_g st) -> forall p : peer, settled (state_of (TwoCompose.s_m st) p)).
Check (C05_sys2_no_stuck :
  forall L : limits,
  installed L TCP = true /\ installed L WS = true ->
  forall (xs : list TwoCompose.xev) (x : TwoCompose.xev) (s : N),
  TwoCompose.xfeasible L TwoCompose.sys0 (xs ++ [x]) ->
  forall (e : ev) (m : mgr) (g : ghost) (es2 : list ev),
  TwoCompose.sys_evs L (TwoCompose.sys_run L TwoCompose.sys0 xs) x = e :: es2 ->
  (m, g) = (TwoCompose.s_m (TwoCompose.sys_run L TwoCompose.sys0 xs), TwoCompose.s_g (TwoCompose.sys_run L TwoCompose.sys0 xs)) ->
  ~ In (Stuck s) (snd (step L m e))).
Check (C05_sys2_quiescent :
  forall L : limits,
  installed L TCP = true /\ installed L WS = true ->
  forall xs : list TwoCompose.xev,
  TwoCompose.xfeasible L TwoCompose.sys0 xs ->
  let st := TwoCompose.sys_run L TwoCompose.sys0 xs in
  quiescent (TwoCompose.s_m st) (TwoCompose.s_g st) <->
  (forall u : tr,
   TwoCompose.tagged u ->
   TwoCompose.TM.g_open (TwoCompose.t_g (TwoCompose.side st u)) = [] /\
   TwoCompose.TM.g_neg (TwoCompose.t_g (TwoCompose.side st u)) = []) /\
  accepting (TwoCompose.s_m st) = []).
Check (C05_sys2_owed_is_pending :
  forall L : limits,
  installed L TCP = true /\ installed L WS = true ->
  forall (xs : list TwoCompose.xev) (c : conn),
  TwoCompose.xfeasible L TwoCompose.sys0 xs ->
  let st := TwoCompose.sys_run L TwoCompose.sys0 xs in
  owed (TwoCompose.s_g st) c ->
  exists u : tr,
    TwoCompose.tagged u /\
    ((exists (f : N) (rem : list (N * TwoCompose.TM.expect)),
        TwoCompose.TM.lookup f (TwoCompose.TM.praw (TwoCompose.t_s (TwoCompose.side st u))) = Some c /\
        TwoCompose.TM.lookup f (TwoCompose.TM.attempts (TwoCompose.t_s (TwoCompose.side st u))) = Some rem /\
        ~ In f (TwoCompose.TM.aborted (TwoCompose.t_s (TwoCompose.side st u)))) \/
     (exists (f : N) (k : TwoCompose.TM.kind),
        TwoCompose.TM.lookup f (TwoCompose.TM.pconn (TwoCompose.t_s (TwoCompose.side st u))) = Some (c, k) /\
        TwoCompose.TM.is_inb k = false))).
Check (C05_sys2_progress :
  forall L : limits,
  installed L TCP = true /\ installed L WS = true ->
  forall (xs : list TwoCompose.xev) (c : conn),
  TwoCompose.xfeasible L TwoCompose.sys0 xs ->
  let st := TwoCompose.sys_run L TwoCompose.sys0 xs in
  owed (TwoCompose.s_g st) c ->
  exists (u : tr) (n : TwoCompose.TM.ev),
    TwoCompose.tagged u /\
    TwoCompose.TM.polls n = true /\
    TwoCompose.xfeasible L TwoCompose.sys0 (xs ++ [TwoCompose.XNet u n]) /\
    (exists e : ev, In e (TwoCompose.sys_evs L st (TwoCompose.XNet u n)) /\ TrCompose.answers c e)).
Check (C05_sys2_counters_in_step :
  forall L : limits,
  installed L TCP = true /\ installed L WS = true ->
  forall xs : list TwoCompose.xev,
  TwoCompose.xfeasible L TwoCompose.sys0 xs ->
  let st := TwoCompose.sys_run L TwoCompose.sys0 xs in
  (forall u : tr, TwoCompose.tagged u -> TwoCompose.TM.ctr (TwoCompose.t_s (TwoCompose.side st u)) = next_conn (TwoCompose.s_m st)) /\
  (forall c : N, In c (TwoCompose.TM.g_neg (TwoCompose.t_g (TwoCompose.side st TCP))) ->
                 ~ In c (TwoCompose.TM.g_neg (TwoCompose.t_g (TwoCompose.side st WS)))) /\
  (forall c : N, In c (TwoCompose.TM.g_inb (TwoCompose.t_g (TwoCompose.side st TCP))) ->
                 ~ In c (TwoCompose.TM.g_inb (TwoCompose.t_g (TwoCompose.side st WS))))).
Check (C05_sys2_sides_are_their_models :
  forall (L : limits) (src : option tr) (k : tr -> nat) (st : TwoCompose.sys) (e : ev) (u : tr),
  TwoCompose.tagged u ->
  TwoCompose.side (TwoCompose.deliver L src k st e) u =
  TwoTheorems.xexec (TrCompose.transport_of u) (TwoCompose.side st u) (TwoTheorems.real_calls L src k u (TwoCompose.s_m st) e)).
