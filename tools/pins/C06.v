From Coq Require Import List NArith Bool.
From V.Mgr Require Import Model Caps.
Import ListNotations.
Open Scope N_scope.
From V.C06 Require Import Properties.
Check (C06_cap_invariant_step :
  forall L m l e, CapInv L m l -> env_ok m l e ->
  CapInv L (fst (step L m e)) (live_step e (snd (step L m e)) l)).
Check (C06_cap_invariant_reachable :
  forall L es, env_trace L init [] es ->
  CapInv L (fst (grun L init [] es)) (snd (grun L init [] es))).
Check (C06_two_per_peer :
  forall L m l p, CapInv L m l -> (length (of_peer p l) <= 2)%nat).
Check (C06_limits :
  forall L m l, CapInv L m l ->
  (forall mx, max_in L = Some mx -> N.of_nat (length (of_dir true l)) <= mx) /\
  (forall mx, max_out L = Some mx -> N.of_nat (length (of_dir false l)) <= mx)).
Check (C06_counted_are_live :
  forall L m l c, CapInv L m l -> (In c (ins m) \/ In c (outs m)) -> In c (keys l)).
Check (C06_release_exact :
  forall m p c d,
  let m' := fst (do_closed m p c) in
  (In d (ins m') <-> In d (ins m) /\ d <> c) /\ (In d (outs m') <-> In d (outs m) /\ d <> c)).
Check (C06_below_limit_accepts :
  forall L m p c t (lst f : bool),
  limit_reached (if lst then max_in L else max_out L) (if lst then ins m else outs m) = false ->
  state_of m p = Disconnected None ->
  (forall q, lookup c (pending m) = Some q -> q = p) ->
  In (CallAccept c t) (snd (do_established L m p c t lst f))).
Check (C06_reject_preserves :
  forall L m p c t (lst f : bool) q d,
  In (CallReject c t) (snd (do_established L m p c t lst f)) ->
  recorded (state_of m q) d -> recorded (state_of (fst (do_established L m p c t lst f)) q) d).
Check (C06_dial_gate :
  forall L m p ts fl a f, limit_reached (max_out L) (outs m) = true ->
  do_dial_peer L m p ts fl = (m, [Ret RET_LIMIT]) /\ do_dial_shape L m a f = (m, [Ret RET_LIMIT])).
