From Coq Require Import List NArith Bool.
From V.gen Require CapsTables.
From V.Mgr Require Import DialShape Model Caps CapsExt Limits LimitsProofs PeerTable PeerTableProofs.
From V.Mgr Require Ledger LedgerInv CapsLedger.
From V.C06 Require Tables TcpReject Compose08.
From V.C07 Require Model Compose.
From V.Link Require C07_C06.
Import ListNotations.
Open Scope N_scope.
From V.C06 Require Import Properties.
Check (C06_cap_invariant_step :
  forall L m l e, CapInv L m l -> env_ok m l e ->
  CapInv L (fst (step L m e)) (live_step e (snd (step L m e)) l)).
Check (C06_cap_invariant_reachable :
  forall L es, env_trace L init [] es ->
  CapInv L (fst (grun L init [] es)) (snd (grun L init [] es))).
Check (C06_two_per_peer :
  forall L m l p, CapInv L m l -> (length (of_peer p l) <= 2)%nat).
Check (C06_limits :
  forall L m l, CapInv L m l ->
  (forall mx, max_in L = Some mx -> N.of_nat (length (of_dir true l)) <= mx) /\
  (forall mx, max_out L = Some mx -> N.of_nat (length (of_dir false l)) <= mx)).
Check (C06_counted_are_live :
  forall L m l c, CapInv L m l -> (In c (ins m) \/ In c (outs m)) -> In c (keys l)).
Check (C06_release_exact :
  forall m p c d,
  let m' := fst (do_closed m p c) in
  (In d (ins m') <-> In d (ins m) /\ d <> c) /\ (In d (outs m') <-> In d (outs m) /\ d <> c)).
Check (C06_below_limit_accepts :
  forall L m p c t (lst f : bool),
  limit_reached (if lst then max_in L else max_out L) (if lst then ins m else outs m) = false ->
  state_of m p = Disconnected None ->
  (forall q, lookup c (pending m) = Some q -> q = p) ->
  In (CallAccept c t) (snd (do_established L m p c t lst f))).
Check (C06_reject_preserves :
  forall L m p c t (lst f : bool) q d,
  In (CallReject c t) (snd (do_established L m p c t lst f)) ->
  recorded (state_of m q) d -> recorded (state_of (fst (do_established L m p c t lst f)) q) d).
Check (C06_dial_gate :
  forall L m p ts fl a f, limit_reached (max_out L) (outs m) = true ->
  do_dial_peer L m p ts fl = (m, [Ret RET_LIMIT]) /\ do_dial_shape L m a f = (m, [Ret RET_LIMIT])).
Check (C06_limits_builder :
  forall ks, cfg_build ks = (last_set true ks None, last_set false ks None)).
Check (C06_limits_object_invariant :
  forall c ops, guarded (lim_new c) ops = true -> LimInv (lim_run (lim_new c) ops)).
Check (C06_limits_object_invariant_step :
  forall ops l, LimInv l -> guarded l ops = true -> LimInv (lim_run l ops)).
Check (C06_limits_checks_pure :
  forall l o, match o with LDial | LIncoming | LCan _ => fst (lim_step l o) = l | _ => True end).
Check (C06_limits_dial_capacity :
  forall l,
  match snd (lim_step l LDial) with
  | LCap (Some k) => exists mx, lmax_out l = Some mx /\ 1 <= k /\ k + card (lout l) = mx
  | LCap None => lmax_out l = None
  | LErrOut => limit_reached (lmax_out l) (lout l) = true
  | _ => False
  end).
Check (C06_limits_closed_exact :
  forall l c d,
  let l' := fst (lim_step l (LClosed c)) in
  (In d (lin l') <-> In d (lin l) /\ d <> c) /\ (In d (lout l') <-> In d (lout l) /\ d <> c)).
Check (C06_limits_unguarded_exceeds :
  exists c ops, let l := lim_run (lim_new c) ops in lmax_in l = Some 1 /\ card (lin l) = 2).
Check (C06_manager_uses_limits_object :
  forall L m e, lim_run (lim_of L m) (lim_ops L m e) = lim_of L (fst (step L m e))).
Check (C06_manager_calls_guarded :
  forall L m e, guarded (lim_of L m) (lim_ops L m e) = true).
Check (C06_dial_refused_iff_object_refuses :
  forall L m p ts fl,
  (snd (lim_step (lim_of L m) LDial) = LErrOut <-> snd (do_dial_peer L m p ts fl) = [Ret RET_LIMIT]) /\
  (snd (lim_step (lim_of L m) LDial) = LErrOut -> fst (do_dial_peer L m p ts fl) = m)).
Check (C06_pending_inbound_gate :
  forall L m c t, installed L t = true ->
  step L m (TrPendingInbound c t) =
    (m, [if match snd (lim_step (lim_of L m) LIncoming) with LOk => true | _ => false end
         then CallAcceptPending c t else CallRejectPending c t])).
Check (C06_peer_table :
  forall s o, (shape_of (fst (pstep s o)), snd (pstep s o)) = table (shape_of s) (classify s o)).
Check (C06_peer_slots_at_most_two :
  forall s, (length (slots s) <= 2)%nat).
Check (C06_peer_established_slots :
  forall s n,
  slots (fst (r_on_established s n)) = if snd (r_on_established s n) then slots s ++ [n] else slots s).
Check (C06_peer_closed_slots :
  forall s c, slots (fst (r_on_closed s c)) = remove_first_rec c (slots s)).
Check (C06_peer_other_methods_keep_slots :
  forall s o, match o with PEstablished _ | PClosed _ => True | _ => slots (fst (pstep s o)) = slots s end).
Check (C06_peer_refused_iff :
  forall s n,
  snd (r_on_established s n) = false <->
  (length (slots s) = 2%nat \/
   (length (slots s) = 1%nat /\ exists d, dial_of s = Some d /\ fst d <> fst n))).
Check (C06_peer_closed_reports_iff :
  forall s c, snd (r_on_closed s c) = true <-> exists r, slots s = [r] /\ fst r = c).
Check (C06_peer_slot_ids_distinct :
  forall s o, NoDup (slot_ids s) -> pop_fresh s o -> NoDup (slot_ids (fst (pstep s o)))).
Check (C06_peer_dial_record :
  forall s,
  (forall n, dial_of (fst (r_on_established s n)) =
             match dial_of s with Some d => if fst d =? fst n then None else Some d | None => None end) /\
  (forall c, dial_of (fst (r_on_dial_failure s c)) =
             match dial_of s with Some d => if fst d =? c then None else Some d | None => None end /\
             snd (r_on_dial_failure s c) = dial_matches s c)).
Check (C06_record_names_peer :
  forall p a c, snd (snd (rec_new p a c)) = Some p /\ fst (rec_new p a c) = c).
Check (C06_peer_erase_refines :
  forall s,
  r_can_dial s = can_dial (erase s) /\
  (forall c, erase (fst (r_on_dial_failure s c)) = st_on_dial_failure (erase s) c) /\
  (forall n, (erase (fst (r_on_established s n)), snd (r_on_established s n)) = st_on_established (erase s) (fst n)) /\
  (forall c, (erase (fst (r_on_closed s c)), snd (r_on_closed s c)) = st_on_closed (erase s) c) /\
  (forall r, erase (fst (r_dial_single s r)) = match can_dial (erase s) with GateOk => Dialing (fst r) | _ => erase s end) /\
  (forall c a ts, erase (fst (r_dial_addresses s c a ts)) = match can_dial (erase s) with GateOk => Opening c ts | _ => erase s end)).
Check (C06_peer_erase_refines_opening :
  forall a c ts t r,
  erase (fst (r_on_open_failure (ROpening a c ts) t)) =
    match remove_tr t ts with [] => Disconnected None | ts' => Opening c ts' end /\
  erase (fst (r_on_opened (ROpening a c ts) r)) = Dialing (fst r)).
Check (C06_per_peer_rule :
  forall s c,
  snd (st_on_established s c) = false <->
  (exists r d, s = Connected r (Some (SecEst d))) \/
  (exists r d, s = Connected r (Some (SecDial d)) /\ d <> c)).
Check (C06_established_decision :
  forall L m p c t (lst f : bool),
  (forall q, lookup c (pending m) = Some q -> q = p) ->
  (forall d ts, state_of m p = Opening d ts -> forallb (installed L) ts = true) ->
  let os := snd (do_established L m p c t lst f) in
  let ok := snd (st_on_established (state_of m p) c) in
  (In (CallAccept c t) os <-> dir_full L m lst = false /\ ok = true) /\
  (In (CallReject c t) os <-> dir_full L m lst = true \/ ok = false)).
Check (C06_reject_reserves_nothing :
  forall L m p c t (lst f : bool),
  (forall q, lookup c (pending m) = Some q -> q = p) ->
  (forall d ts, state_of m p = Opening d ts -> forallb (installed L) ts = true) ->
  In (CallReject c t) (snd (do_established L m p c t lst f)) ->
  ins (fst (do_established L m p c t lst f)) = ins m /\ outs (fst (do_established L m p c t lst f)) = outs m).
Check (C06_decision_reachable :
  forall L m g p c t (lst f : bool),
  LedgerInv.Reach L m g -> LedgerInv.feas L m g (TrEstablished p c t lst f) ->
  let os := snd (do_established L m p c t lst f) in
  let ok := snd (st_on_established (state_of m p) c) in
  (In (CallAccept c t) os <-> dir_full L m lst = false /\ ok = true) /\
  (In (CallReject c t) os <-> dir_full L m lst = true \/ ok = false) /\
  (In (CallReject c t) os ->
   ins (fst (do_established L m p c t lst f)) = ins m /\ outs (fst (do_established L m p c t lst f)) = outs m)).
Check (C06_established_answered_once :
  forall L m g p c t (lst f : bool),
  LedgerInv.Reach L m g -> LedgerInv.feas L m g (TrEstablished p c t lst f) ->
  let os := snd (do_established L m p c t lst f) in
  (In (CallAccept c t) os \/ In (CallReject c t) os) /\ ~ (In (CallAccept c t) os /\ In (CallReject c t) os)).
Check (C06_not_connected_accepted :
  forall L m p c t (lst f : bool),
  (forall q, lookup c (pending m) = Some q -> q = p) ->
  (forall d ts, state_of m p = Opening d ts -> forallb (installed L) ts = true) ->
  dir_full L m lst = false -> can_dial (state_of m p) <> GateConnected ->
  In (CallAccept c t) (snd (do_established L m p c t lst f))).
Check (C06_refuses_iff_full :
  forall L m l lst, CapInv L m l ->
  (dir_full L m lst = true <->
   exists mx, (if lst then max_in L else max_out L) = Some mx /\ N.of_nat (length (of_dir lst l)) = mx)).
Check (C06_closed_frees_slot :
  forall L m l p c q lst, CapInv L m l -> lookup c l = Some (q, lst) ->
  dir_full L (fst (do_closed m p c)) lst = false).
Check (C06_uncounted_close_keeps :
  forall L m l p c, CapInv L m l -> lookup c l = None ->
  ins (fst (do_closed m p c)) = ins m /\ outs (fst (do_closed m p c)) = outs m).
Check (C06_C08_feasible_split :
  forall cap tr e s,
  V.Ts.Model.feasible cap e s tr =
  Compose08.feasible_rest e s tr && Compose08.conn_feasible cap e (filter Compose08.is_conn (map snd tr))).
Check (C06_composed_invariant :
  forall L xs, Compose08.xtrace L Compose08.x0 xs -> Compose08.XInv L (Compose08.xrun L Compose08.x0 xs)).
Check (C06_protocol_holds_at_most_two :
  forall L s p, Compose08.XInv L s ->
  (length (V.Ts.Model.live_of p (V.Ts.Model.e_live (Compose08.x_e s))) <= 2)%nat).
Check (C06_provides_C08_connection_part :
  forall L xs, Compose08.xtrace L Compose08.x0 xs ->
  Compose08.conn_feasible 2 V.Ts.Model.env0 (Compose08.xproj xs) = true).
Check (C06_provides_C08_feasible :
  forall L xs tr ka T0 n0,
  Compose08.xtrace L Compose08.x0 xs ->
  filter Compose08.is_conn (map snd tr) = Compose08.xproj xs ->
  Compose08.feasible_rest V.Ts.Model.env0 (V.Ts.Model.init ka T0 n0) tr = true ->
  V.Ts.Model.feasible 2 V.Ts.Model.env0 (V.Ts.Model.init ka T0 n0) tr = true).
Check (C06_C08_alternation_composed :
  forall L xs tr ka T0 n0 q,
  Compose08.xtrace L Compose08.x0 xs ->
  filter Compose08.is_conn (map snd tr) = Compose08.xproj xs ->
  Compose08.feasible_rest V.Ts.Model.env0 (V.Ts.Model.init ka T0 n0) tr = true ->
  V.Ts.Proofs.alternates false (V.Ts.Proofs.conn_evs q (concat (V.Ts.Model.run (V.Ts.Model.init ka T0 n0) tr)))).
Check (C06_tcp_reject_forgets :
  forall s c,
  let s' := fst (V.Tcp.Model.step s (V.Tcp.Model.EReject c)) in
  let os := snd (V.Tcp.Model.step s (V.Tcp.Model.EReject c)) in
  os = [V.Tcp.Model.ORet (V.Tcp.Model.mem c (V.Tcp.Model.pending_open s))] /\ TcpReject.no_event os /\
  ~ In c (V.Tcp.Model.pending_open s') /\
  (forall d, d <> c -> (In d (V.Tcp.Model.pending_open s') <-> In d (V.Tcp.Model.pending_open s))) /\
  V.Tcp.Model.pconn s' = V.Tcp.Model.pconn s /\ V.Tcp.Model.praw s' = V.Tcp.Model.praw s /\
  V.Tcp.Model.opened s' = V.Tcp.Model.opened s /\
  V.Tcp.Model.pending_inbound s' = V.Tcp.Model.pending_inbound s /\
  V.Tcp.Model.pending_dials s' = V.Tcp.Model.pending_dials s /\ V.Tcp.Model.nfut s' = V.Tcp.Model.nfut s).
Check (C06_tcp_reject_pending_forgets :
  forall s c,
  let s' := fst (V.Tcp.Model.step s (V.Tcp.Model.ERejectPending c)) in
  let os := snd (V.Tcp.Model.step s (V.Tcp.Model.ERejectPending c)) in
  os = [V.Tcp.Model.ORet (V.Tcp.Model.mem c (V.Tcp.Model.pending_inbound s))] /\ TcpReject.no_event os /\
  ~ In c (V.Tcp.Model.pending_inbound s') /\
  V.Tcp.Model.pconn s' = V.Tcp.Model.pconn s /\ V.Tcp.Model.praw s' = V.Tcp.Model.praw s /\
  V.Tcp.Model.pending_open s' = V.Tcp.Model.pending_open s /\ V.Tcp.Model.nfut s' = V.Tcp.Model.nfut s).
Check (C06_tcp_rejected_pending_has_no_future :
  forall s g c, V.Tcp.Theorems.reach s g -> In c (V.Tcp.Model.pending_inbound s) ->
  forall f k, ~ In (f, (c, k)) (V.Tcp.Model.pconn (fst (V.Tcp.Model.step s (V.Tcp.Model.ERejectPending c))))).
Check (C06_tcp_accept_or_reject_once :
  forall s c e,
  e = V.Tcp.Model.EAccept c \/ e = V.Tcp.Model.EReject c ->
  snd (V.Tcp.Model.step s e) = [V.Tcp.Model.ORet true] ->
  snd (V.Tcp.Model.step (fst (V.Tcp.Model.step s e)) (V.Tcp.Model.EAccept c)) = [V.Tcp.Model.ORet false] /\
  snd (V.Tcp.Model.step (fst (V.Tcp.Model.step s e)) (V.Tcp.Model.EReject c)) = [V.Tcp.Model.ORet false]).
Check (C06_api_in_sync :
  CapsTables.limits_api = [0; 1; 2; 3; 4] /\ CapsTables.limits_cfg_api = [0; 1] /\
  CapsTables.peer_api = [0; 1; 2; 3; 4; 5; 6; 7] /\ CapsTables.peer_variants = [0; 1; 2; 3] /\
  CapsTables.sec_variants = [0; 1]).
Check (C06_limits_call_sites :
  (forall L m e o, In o (lim_ops L m e) -> In (Tables.op_site e o) CapsTables.limits_call_sites) /\
  (forall s, In s CapsTables.limits_call_sites -> exists L m e o, In o (lim_ops L m e) /\ Tables.op_site e o = s)).
Check (C06_manager_source_shape :
  CapsTables.est_order_ok = true /\ CapsTables.next_arms = [(0, 0); (1, 1); (2, 0)] /\
  CapsTables.rollback_sites = 2 /\ CapsTables.pending_arms_ok = true).
Check (C06_transports_reject_shape :
  forall t k, t < 3 -> k < 4 -> In (t, k, 1) CapsTables.transport_shapes).
Check (C06_C08_xtrace_on_node :
  forall (i n : nat) (L : limits) (es : list V.C07.Model.nev),
  (i < n)%nat ->
  V.C07.Compose.node_env_trace L (V.C07.Model.node_init n) [] [] es ->
  V.Link.C07_C06.fresh_ids [] es -> V.Link.C07_C06.no_die i es ->
  Compose08.xtrace L Compose08.x0 (V.Link.C07_C06.node_xevs i L (V.C07.Model.node_init n) es)).
Check (C06_C08_feasible_on_node :
  forall (i n : nat) (L : limits) (es : list V.C07.Model.nev) tr ka T0 n0,
  (i < n)%nat ->
  V.C07.Compose.node_env_trace L (V.C07.Model.node_init n) [] [] es ->
  V.Link.C07_C06.fresh_ids [] es -> V.Link.C07_C06.no_die i es ->
  filter Compose08.is_conn (map snd tr) =
    Compose08.xproj (V.Link.C07_C06.node_xevs i L (V.C07.Model.node_init n) es) ->
  Compose08.feasible_rest V.Ts.Model.env0 (V.Ts.Model.init ka T0 n0) tr = true ->
  V.Ts.Model.feasible 2 V.Ts.Model.env0 (V.Ts.Model.init ka T0 n0) tr = true).
Check (C06_C08_node_nonvacuous :
  let L := mkLimits None None [TCP; WS] in
  let es := [V.C07.Model.NMgr AllocConn; V.C07.Model.NMgr (TrEstablished 5 0 TCP true false); V.C07.Model.NAccept 0;
             V.C07.Model.NMgr AllocConn; V.C07.Model.NMgr (TrEstablished 5 1 WS true false); V.C07.Model.NAccept 1;
             V.C07.Model.NProtoDie 1; V.C07.Model.NTask 0 (V.C07.Model.EYamux V.C07.Model.YEof)] in
  Compose08.xproj (V.Link.C07_C06.node_xevs 0 L (V.C07.Model.node_init 2) es) =
    [V.Ts.Model.EEst 5 0; V.Ts.Model.EEst 5 1; V.Ts.Model.EClosed 5 0] /\
  V.Link.C07_C06.fresh_ids [] es /\ V.Link.C07_C06.no_die 0 es).
