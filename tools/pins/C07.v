From Coq Require Import List Arith NArith Bool.
From V.gen Require ConnExits.
From V.Mgr Require Import Model Caps.
From V.Ts Require Import Report ReportProofs.
From V.gen Require ConnSkel.
From V.Ts Require Names.
From V.C07 Require Import Model Proofs Compose Block BlockProofs Skel SkelProofs Loop LoopProofs.
Import ListNotations.
Open Scope N_scope.
From V.C07 Require Import Properties.
Check (C07_exits_match :
  model_exits = ConnExits.conn_exits /\ ConnExits.conn_exits_complete = true).
Check (C07_source_exits_dominated :
  forallb (fun s => if handler_site s then site_closed s && (site_callee s =? 1) else forwards_handler s)
          ConnExits.conn_exits = true).
Check (C07_model_exit_sites_sound :
  forall t e i o, gone t = None -> gone (fst (cstep t e)) = Some (i, o) ->
  let si := nth i ConnExits.conn_exits no_site in
  let so := nth o ConnExits.conn_exits no_site in
  (i < length ConnExits.conn_exits)%nat /\ (o < length ConnExits.conn_exits)%nat /\
  handler_site si = true /\ site_closed si = true /\
  site_fn so = 3 /\ site_callee so = site_fn si + 5 /\
  snd (cstep t e) = closed_part (alive t) (mgr_up t)).
Check (C07_exit_sites_covered :
  forall i, (i < length ConnExits.conn_exits)%nat ->
  handler_site (nth i ConnExits.conn_exits no_site) = true ->
  exists t e o, gone t = None /\ gone (fst (cstep t e)) = Some (i, o)).
Check (C07_ws_exits_match :
  ws_model_exits = ConnExits.ws_exits /\ ConnExits.ws_exits_complete = true).
Check (C07_quic_exits_match :
  quic_model_exits = ConnExits.quic_exits /\ ConnExits.quic_exits_complete = true).
Check (C07_ws_source_exits_dominated :
  forallb reported_site ConnExits.ws_exits = true).
Check (C07_quic_source_exits_dominated :
  forallb reported_site ConnExits.quic_exits = true).
Check (C07_ws_exit_sites_sound :
  forall t e, gone t = None ->
  match ws_site t e with
  | Some i => gone (fst (cstep t e)) <> None /\ site_ok ConnExits.ws_exits t e i
  | None => gone (fst (cstep t e)) = None
  end).
Check (C07_quic_exit_sites_sound :
  forall t e, gone t = None ->
  match quic_site t e with
  | Some i => gone (fst (cstep t e)) <> None /\ site_ok ConnExits.quic_exits t e i
  | None => gone (fst (cstep t e)) = None
  end).
Check (C07_ws_exit_sites_covered :
  forall i, (i < length ConnExits.ws_exits)%nat -> exists t e, gone t = None /\ ws_site t e = Some i).
Check (C07_quic_exit_sites_covered :
  forall i, (i < length ConnExits.quic_exits)%nat -> exists t e, gone t = None /\ quic_site t e = Some i).
Check (C07_exit_reports :
  forall t es, gone t = None -> gone (fst (crun t es)) <> None ->
  let t' := fst (crun t es) in
  let ns := snd (crun t es) in
  cnt is_mgr_closed ns = (if mgr_up t' then 1%nat else 0%nat) /\
  (forall i, cnt (is_closed_of i) ns = if nth i (alive t') false then 1%nat else 0%nat)).
Check (C07_once :
  forall t es, gone t = None ->
  let t' := fst (crun t es) in
  let ns := snd (crun t es) in
  (cnt is_mgr_closed ns <= 1)%nat /\ (forall i, (cnt (is_closed_of i) ns <= 1)%nat) /\
  (gone t' = None -> cnt is_close_note ns = 0%nat)).
Check (C07_order :
  forall t es l1 l2, gone t = None -> snd (crun t es) = l1 ++ NMgrClosed :: l2 ->
  l2 = [] /\ mgr_up (fst (crun t es)) = true /\
  forall i, nth i (alive (fst (crun t es))) false = true -> In (NClosed i) l1).
Check (C07_run_shape :
  forall es t, gone t = None ->
  let t' := fst (crun t es) in
  let ns := snd (crun t es) in
  (forall i, nth i (alive t') false = true -> nth i (alive t) false = true) /\
  length (alive t') = length (alive t) /\
  ((gone t' = None /\ forall x, In x ns -> is_sub_note x = true)
   \/
   (gone t' <> None /\
    exists pre, ns = pre ++ closed_part (alive t') (mgr_up t') /\
                forall x, In x pre -> is_sub_note x = true))).
Check (C07_lifecycle :
  forall al mup es t' ns,
  conn_run al mup es = (Some t', ns) -> gone t' <> None ->
  (exists rest, ns = map NEst (alive_idx 0 al) ++ rest /\ (forall i, cnt (is_est_of i) rest = 0%nat)) /\
  (forall i, cnt (is_est_of i) ns = if nth i al false then 1%nat else 0%nat) /\
  cnt is_mgr_closed ns = (if mgr_up t' then 1%nat else 0%nat) /\
  (forall i, cnt (is_closed_of i) ns = if nth i (alive t') false then 1%nat else 0%nat) /\
  (forall i, nth i (alive t') false = true -> nth i al false = true)).
Check (C07_connection_always_started :
  forall al mup es, exists t' ns, conn_run al mup es = (Some t', ns)).
Check (C07_exit_only_on_cause :
  forall t e, gone t = None -> gone (fst (cstep t e)) <> None -> is_cause e = true).
Check (C07_cause_exits :
  forall t e, gone t = None -> is_cause e = true -> gone (fst (cstep t e)) <> None).
Check (C07_live_protocol_served :
  forall t i ob, gone t = None -> nth i (alive t) false = true ->
  cstep t (ENeg (NegOk i ob)) = (t, [NSubOpen i ob]) /\
  cstep t (ENeg (NegFail i)) = (t, [NSubFail i])).
Check (C07_dead_protocol_ignored :
  forall t i ob, gone t = None -> nth i (alive t) false = false ->
  cstep t (ENeg (NegOk i ob)) = (t, []) /\ cstep t (ENeg (NegFail i)) = (t, [])).
Check (C07_accept_serves_live :
  forall al mup, accept al mup = (Some (mkTask al mup None), map NEst (alive_idx 0 al))).
Check (C07_accept_each_once :
  forall al i, cnt (is_est_of i) (map NEst (alive_idx 0 al)) = if nth i al false then 1%nat else 0%nat).
Check (C07_unfixed_accept_refuted :
  fst (accept_unfixed [true; false; true] true [0%nat]) = None /\
  accept [true; false; true] true = (Some (mkTask [true; false; true] true None), [NEst 0; NEst 2])).
Check (C07_unfixed_loop_refuted :
  let t := mkTask [true; false] true None in
  let r := cstep_unfixed t (ENeg (NegOk 1 false)) in
  gone (fst r) <> None /\ snd r = [] /\ cstep t (ENeg (NegOk 1 false)) = (t, [])).
Check (C07_manager_invariant :
  forall L es m l ann, Inv L m l ann -> env_trace L m l es ->
  let r := arun L m l ann es in Inv L (fst r) (fst (snd r)) (snd (snd r))).
Check (C07_manager_invariant_init :
  forall L, Inv L init [] []).
Check (C07_app_closed_iff_last :
  forall L m l ann p c b,
  Inv L m l ann -> env_ok m l (Closed p c) -> lookup c l = Some (p, b) ->
  (In (EvClosed p c) (snd (step L m (Closed p c))) <-> of_peer p (remove_key c l) = [])).
Check (C07_app_closed_was_announced :
  forall L m l ann p c b,
  Inv L m l ann -> env_ok m l (Closed p c) -> lookup c l = Some (p, b) -> In c ann).
Check (C07_stale_closed_ignored :
  forall L m l ann p c, Inv L m l ann -> lookup c l = None ->
  snd (step L m (Closed p c)) = [] /\ forall q, state_of (fst (step L m (Closed p c))) q = state_of m q).
Check (C07_closed_then_dialable :
  forall L m p c, In (EvClosed p c) (snd (step L m (Closed p c))) ->
  let m' := fst (step L m (Closed p c)) in
  (exists d, state_of m' p = Disconnected d) /\
  forall ts fl, ~ In (Ret RET_CONNECTED) (snd (do_dial_peer L m' p ts fl))).
Check (C07_rollback_silent_refuted :
  let L := mkLimits None None [TCP; WS] in
  let es := [TrEstablished 5 0 TCP true false; AcceptDone 0 true; TrEstablished 5 1 WS true false;
             Closed 5 0; AcceptDone 1 false] in
  env_trace L init [] es /\
  concat (snd (run L init es)) = [CallAccept 0 TCP; EvEstablished 5 0; CallAccept 1 WS] /\
  state_of (fst (run L init es)) 5 = Disconnected None).
Check (C07_node_feeds_manager :
  forall L es nd l ann, NodeInv L nd l ann -> node_env_trace L nd l ann es ->
  let r := node_run L nd es in
  let fed := snd (snd r) in
  let g := arun L (nd_mgr nd) l ann fed in
  env_trace L (nd_mgr nd) l fed /\ nd_mgr (fst r) = fst g /\ NodeInv L (fst r) (fst (snd g)) (snd (snd g))).
Check (C07_node_no_rollback :
  forall L es nd c ok, In (AcceptDone c ok) (snd (snd (node_run L nd es))) -> ok = true).
Check (C07_node_init :
  forall L n, NodeInv L (node_init n) [] []).
Check (C07_block_invariant :
  forall me n cap es, Binv me (fst (brun (binit n cap) es))).
Check (C07_block_manager_told_once :
  forall me es s, (cnt_out (is_mgr me) (snd (brun s es)) <= 1)%nat).
Check (C07_block_told_after_protocols :
  forall me s e, Binv me s -> In (OMgrClosed me) (snd (bstep s e)) ->
  let s' := fst (bstep s e) in
  busy_in me (s_ch s') = false /\
  exists bc, find_c me (s_conns s') = Some bc /\ b_ph bc = PDone /\
    forall p, nth p (alive (b_task bc)) false = true -> In (IClosed me) (racc_at (s_ch s') p)).
Check (C07_block_closed_once_per_channel :
  forall me s p, Binv me s ->
  (cntc me (racc_at (s_ch s) p) <= 1)%nat /\
  ((forall bc, find_c me (s_conns s) = Some bc -> is_gone (b_task bc) = false) -> cntc me (racc_at (s_ch s) p) = 0%nat)).
Check (C07_block_parked_report_completes :
  forall me s bc, Binv me s -> (1 <= s_cap s)%nat -> find_c me (s_conns s) = Some bc ->
  let s1 := fst (brun s (flush s)) in
  snd (brun s (flush s)) = [] /\
  match b_ph bc with
  | PWaitClosed => snd (bstep s1 (BResume me)) = [OMgrClosed me] /\
                   ph_of me (fst (bstep s1 (BResume me))) = Some PDone
  | PWaitEst => snd (bstep s1 (BResume me)) = [OAccepted me] /\
                ph_of me (fst (bstep s1 (BResume me))) = Some PRun
  | PWaitSub => ph_of me (fst (bstep s1 (BResume me))) = Some PRun
  | _ => True
  end).
Check (C07_block_delivered_exactly_once :
  forall me s bc p ch, Binv me s -> (1 <= s_cap s)%nat ->
  find_c me (s_conns s) = Some bc -> is_gone (b_task bc) = true ->
  nth p (alive (b_task bc)) false = true -> nth p (s_alive s) false = true ->
  nth_error (s_ch (fst (brun s (flush s)))) p = Some ch ->
  cntc me (rdel ch) = 1%nat).
Check (C07_block_waits_until_drained :
  forall me p es s, forallb (leaves_alone p) es = true -> busy_at me (s_ch s) p = true ->
  busy_at me (s_ch (fst (brun s es))) p = true /\ cnt_out (is_mgr me) (snd (brun s es)) = 0%nat).
Check (C07_tcp_skeleton_is_model :
  forall t e, gone t = None -> in_range t e = true ->
  agrees (skel_step ConnSkel.tcp_start ConnSkel.tcp_handlers t e) t e).
Check (C07_ws_skeleton_is_model :
  forall t e, gone t = None -> in_range t e = true -> agrees (skel_step ConnSkel.ws_start [] t e) t e).
Check (C07_quic_skeleton_is_model :
  forall t e, gone t = None -> in_range t e = true -> agrees (skel_step ConnSkel.quic_start [] t e) t e).
Check (C07_skeleton_shape :
  guards_ok ConnSkel.tcp_start = true /\ guards_ok ConnSkel.ws_start = true /\ guards_ok ConnSkel.quic_start = true /\
  map fst ConnSkel.tcp_start = [1; 2; 3] /\ map fst ConnSkel.ws_start = [1; 2; 3] /\ map fst ConnSkel.quic_start = [1; 2; 3] /\
  ConnSkel.tcp_skel_complete = true /\ ConnSkel.ws_skel_complete = true /\ ConnSkel.quic_skel_complete = true).
Check (C07_codec_panic_site :
  forall t i ob, (i <? length (alive t))%nat = false ->
  snd (skel_step ConnSkel.tcp_start ConnSkel.tcp_handlers t (ENeg (NegOk i ob))) = Some RPanic /\
  snd (skel_step ConnSkel.ws_start [] t (ENeg (NegOk i ob))) = Some RPanic /\
  snd (skel_step ConnSkel.quic_start [] t (ENeg (NegOk i ob))) = Some RPanic).
Check (C07_codec_total :
  forall tbl nm, NoDup (Names.all_names tbl) -> Names.classify tbl nm <> None ->
  exists i, proto_index tbl nm = Some i /\ (i < length tbl)%nat).
Check (C07_advertised_in_range :
  forall tbl nm t ob, NoDup (Names.all_names tbl) -> Names.classify tbl nm <> None -> length (alive t) = length tbl ->
  exists i, proto_index tbl nm = Some i /\ in_range t (ENeg (NegOk i ob)) = true).
Check (C07_accept_skeleton :
  forall a al mup,
  a = ConnSkel.tcp_accept \/ a = ConnSkel.ws_accept \/ a = ConnSkel.quic_accept \/ a = ConnSkel.webrtc_accept ->
  accept_skel a al = (snd (accept al mup), Some true) /\ fst (accept al mup) = Some (mkTask al mup None)).
Check (C07_report_closed_skeleton :
  forall al mup, pset_result al mup ConnSkel.pset_report_connection_closed = Some (report_closed al mup)).
Check (C07_report_established_skeleton :
  forall al mup, pset_result al mup ConnSkel.pset_report_connection_established = Some (report_established al)).
Check (C07_webrtc_exits_report :
  ConnSkel.webrtc_loop_found = true /\ ConnSkel.webrtc_loop_exits <> [] /\
  forallb webrtc_exit_ok ConnSkel.webrtc_loop_exits = true /\
  ends_with_closed_report ConnSkel.webrtc_on_connection_closed = true).
Check (C07_app_event_map :
  app_map ConnSkel.TEV_CLOSED = Some ConnSkel.APP_CLOSED /\ app_map ConnSkel.TEV_ESTABLISHED = Some ConnSkel.APP_ESTABLISHED /\
  (forall v, In v ConnSkel.transport_event_variants -> app_map v = Some ConnSkel.APP_CLOSED -> v = ConnSkel.TEV_CLOSED) /\
  (forall v, In v ConnSkel.transport_event_variants -> app_map v = Some ConnSkel.APP_ESTABLISHED -> v = ConnSkel.TEV_ESTABLISHED) /\
  In ConnSkel.TEV_CLOSED ConnSkel.transport_event_variants /\ In ConnSkel.TEV_ESTABLISHED ConnSkel.transport_event_variants /\
  In ConnSkel.APP_CLOSED ConnSkel.app_event_variants /\ In ConnSkel.APP_ESTABLISHED ConnSkel.app_event_variants /\
  NoDup (map fst ConnSkel.app_map_arms)).
Check (C07_loop_is_model_run :
  forall ops s,
  l_task (fst (lrun s ops)) = fst (crun (l_task s) (all_events s ops)) /\
  snd (lrun s ops) = snd (crun (l_task s) (all_events s ops))).
Check (C07_loop_lifecycle :
  forall al fb ops,
  let r := whole_run al fb ops in
  let t' := l_task (fst r) in
  gone t' <> None ->
  (forall i, cnt (is_est_of i) (snd r) = if nth i al false then 1%nat else 0%nat) /\
  cnt is_mgr_closed (snd r) = (if mgr_up t' then 1%nat else 0%nat) /\
  (forall i, cnt (is_closed_of i) (snd r) = if nth i (alive t') false then 1%nat else 0%nat) /\
  (forall i, nth i (alive t') false = true -> nth i al false = true)).
Check (C07_loop_silent_while_running :
  forall al fb ops, let r := whole_run al fb ops in
  gone (l_task (fst r)) = None -> cnt is_close_note (snd r) = 0%nat).
Check (C07_loop_running_is_held :
  forall al fb ops, let s := fst (whole_run al fb ops) in running s = true -> any_strong (l_handle s) (l_pend s) = true).
Check (C07_loop_ends_iff_cause :
  forall s o, running s = true -> (running (fst (lstep s o)) = false <-> ends_conn s o = true)).
Check (C07_loop_events_in_range :
  forall s o e fb, l_tbl s = mk_tbl (nprot s) fb -> In e (events_of s o) -> is_loop_event e = true ->
  forall t, length (alive t) = nprot s -> in_range t e = true).
Check (C07_tcp_arm_site :
  forall t e i o, gone t = None -> gone (fst (cstep t e)) = Some (i, o) ->
  let ok := all_alive (alive t) && mgr_up t in
  (1 <= arm_of e)%N /\ i = (2 * (N.to_nat (arm_of e) - 1) + (if ok then 1 else 0))%nat /\
  state_code (fst (cstep t e)) = (if ok then 1 else 2)).
