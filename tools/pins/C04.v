From Coq Require Import List NArith Bool.
From V.gen Require Consts.
From V.C04 Require Import Model Proofs.
Import ListNotations.
Open Scope N_scope.
From V.C04 Require Import Properties.
Check (C04_receiver_total :
  forall (c : codec) (wire : list N) (script : list rdev) (polls : nat),
  let '(outs, st', _, _) := run_reader polls c (init_r c) wire script in
  ~ In RPanic outs /\ Alloc c st').
Check (C04_receiver_rejects :
  forall (mx : option N) (st : rstate) (b : N),
  cur st = None ->
  match read_payload_size (filled st ++ [b]) with
  | RpsDecodeErr | RpsOverflow =>
      on_data (Varint mx) st [b] = (mkR (buf_len st) [] None, Some RFail)
  | RpsOk size nb =>
      nb = lenN (filled st ++ [b]) -> (exists m, mx = Some m /\ m < size) ->
      on_data (Varint mx) st [b] = (mkR (buf_len st) [] None, Some RFail)
  | RpsNotEnough => True
  end).
Check (C04_reader_roundtrip :
  forall (c : codec) (msgs : list (list N)) (wire tail : list N) (script : list rdev) (polls : nat)
         outs st' wire' script',
  Fits c msgs -> wire ++ tail = wire_of c msgs ->
  run_reader polls c (init_r c) wire script = (outs, st', wire', script') ->
  ~ In RPanic outs /\ ~ In RFail outs /\
  exists rest, msgs = frames_of outs ++ rest /\
               (c <> Identity 0 -> tail = [] -> wire' = [] -> rest = [])).
Check (C04_sender_refuses :
  forall (c : codec) (w : wstate) (m : list N) (script : list wev) (sent0 : list N) r np w' sent' script',
  fitsb c m = false ->
  start_send c w m = (WDenied, w) /\
  (send_framed c script w m sent0 = (r, np, w', sent', script') -> pbytes w = lenN (qbytes w) ->
   r <> WOk /\ sent' ++ qbytes w' = sent0 ++ qbytes w /\
   (queue_nonempty w = false -> r = WDenied /\ sent' = sent0 /\ script' = script /\ w' = w))).
Check (C04_flush_complete :
  forall (script : list wev) (w : wstate) (sent0 : list N) r w' sent' script',
  flush script w sent0 = (r, w', sent', script') ->
  pbytes w = lenN (qbytes w) ->
  (exists d, sent' = sent0 ++ d) /\
  pbytes w' = lenN (qbytes w') /\ sent' ++ qbytes w' = sent0 ++ qbytes w /\
  (r = WOk -> frames w' = [] /\ curf w' = None /\ pbytes w' = 0)).
Check (C04_mixed_paths_in_order :
  forall (bp : N) (c : codec) (script : list wev) (ops : list op) rs s',
  run_ops bp c (init_sys script) ops = (rs, s') ->
  Forall2 good ops rs ->
  pbytes (ws s') = lenN (qbytes (ws s')) /\
  sent s' ++ qbytes (ws s') = wire_of c (accepted c ops)).
Check (C04_hist_flush_complete :
  forall (bp : N) (c : codec) (script : list wev) (ops : list op) rs r s',
  run_ops bp c (init_sys script) (ops ++ [OFlush]) = (rs ++ [r], s') ->
  Forall2 good ops rs -> fst r = WOk ->
  sent s' = wire_of c (accepted c ops) /\
  frames (ws s') = [] /\ curf (ws s') = None /\ pbytes (ws s') = 0).
Check (C04_send_framed_complete :
  forall (c : codec) (script : list wev) (w : wstate) (m : list N) (sent0 : list N) r np w' sent' script',
  send_framed c script w m sent0 = (r, np, w', sent', script') ->
  pbytes w = lenN (qbytes w) ->
  pbytes w' = lenN (qbytes w') /\
  (exists d e, sent' ++ qbytes w' = sent0 ++ qbytes w ++ d /\ frame c m = d ++ e /\
               (r = WOk -> e = [] /\ qbytes w' = []) /\ (fitsb c m = false -> d = [])) /\
  (r = WOk -> fitsb c m = true) /\ (r = WDenied -> fitsb c m = false)).
Check (C04_close_sends_nothing :
  forall (script : list wev) (w : wstate) (sent0 : list N),
  (forall r w' sent' script' sh,
     poll_close script w sent0 = (r, w', sent', script', sh) ->
     w' = w /\ sent' = sent0 /\ (r = WOk <-> sh = true)) /\
  (forall r np w' sent' script' sh,
     close_all script w sent0 = (r, np, w', sent', script', sh) ->
     w' = w /\ sent' = sent0 /\ (r = WOk -> Forall clean_ev script -> sh = true))).
Check (C04_close_after_flush_complete :
  forall (bp : N) (c : codec) (script : list wev) (ops : list op) rs rf rc s',
  run_ops bp c (init_sys script) (ops ++ [OFlush; OClose]) = (rs ++ [rf; rc], s') ->
  Forall2 good ops rs -> fst rf = WOk -> fst rc = WOk ->
  sent s' = wire_of c (accepted c ops) /\ qbytes (ws s') = [] /\ shut s' = true).
Check (C04_close_all_after_flush_complete :
  forall (bp : N) (c : codec) (script : list wev) (ops : list op) rs rf s1 np w' sent' script' sh,
  run_ops bp c (init_sys script) (ops ++ [OFlush]) = (rs ++ [rf], s1) ->
  Forall2 good ops rs -> fst rf = WOk ->
  close_all (wscript s1) (ws s1) (sent s1) = (WOk, np, w', sent', script', sh) ->
  Forall clean_ev (wscript s1) ->
  sent' = wire_of c (accepted c ops) /\ qbytes w' = [] /\ sh = true).
Check (C04_backpressure :
  forall (bp : N) (script : list wev) (w : wstate) (sent0 : list N) w' sent' script',
  0 < bp -> pbytes w = lenN (qbytes w) ->
  poll_ready bp script w sent0 = (WOk, w', sent', script') -> pbytes w' < bp).
Check (C04_roundtrip :
  forall (bp : N) (c : codec) (wscript : list wev) (ops : list op) rs s'
         (rscript : list rdev) (polls : nat) outs st' wire' script',
  Forall small_op ops ->
  run_ops bp c (init_sys wscript) ops = (rs, s') ->
  Forall2 good ops rs ->
  run_reader polls c (init_r c) (sent s') rscript = (outs, st', wire', script') ->
  ~ In RPanic outs /\ ~ In RFail outs /\
  exists rest, accepted c ops = frames_of outs ++ rest /\
               (c <> Identity 0 -> qbytes (ws s') = [] -> wire' = [] -> rest = [])).
Check (C04_write_error_reported :
  forall (script : list wev) (w : wstate) (sent0 : list N) r w' sent' script',
  flush script w sent0 = (r, w', sent', script') -> r <> WIo ->
  exists pre, script = pre ++ script' /\ Forall (fun e => e <> WErr) pre).
Check (C04_send_framed_error_reported :
  forall (ident : bool) (script : list wev) (bufs : list (list N)) (sent0 : list N) np r np' sent' script',
  sf_run ident script bufs sent0 np = (r, np', sent', script') -> r = WOk \/ r = WPend ->
  exists pre, script = pre ++ script' /\ Forall (fun e => e <> WErr) pre).
Check (C04_pending_has_waker_write :
  forall (script : list wev) (w : wstate) (sent0 : list N) w' sent' script',
  flush script w sent0 = (WPend, w', sent', script') ->
  (exists pre, script = pre ++ WPending :: script') \/ script' = []).
Check (C04_pending_has_waker_read :
  forall (c : codec) (script : list rdev) (st : rstate) (wire : list N) st' wire' script',
  poll_next c st wire script = (RPend, st', wire', script') ->
  (exists pre, script = pre ++ EvPending :: script') \/ script' = []).
Check (C04_identity_zero :
  forall (polls : nat) (wire : list N) (script : list rdev) outs st' wire' script',
  run_reader polls (Identity 0) (init_r (Identity 0)) wire script = (outs, st', wire', script') ->
  frames_of outs = [] /\ Forall (fun o => o = RPend \/ o = RClosed \/ o = RIoErr) outs /\ wire' = wire).
Check (C04_varint_none_unbounded_alloc :
  forall n, 0 < n -> n < USIZE_MOD ->
  let e := varint_enc n in
  let '(outs, st', _, _) := run_reader 1 (Varint None) (init_r (Varint None)) e (repeat (EvChunk 1) (length e)) in
  outs = [RPend] /\ buf_len st' = n /\ filled st' = []).
Check (C04_flush_all_fuel_adequate :
  forall fuel fuel' (script : list wev) (w : wstate) (sent0 : list N) np,
  (length script < fuel)%nat -> (length script < fuel')%nat ->
  flush_all fuel script w sent0 np = flush_all fuel' script w sent0 np).
Check (C04_varint_roundtrip :
  forall n, n < USIZE_MOD -> read_payload_size (varint_enc n) = RpsOk n (lenN (varint_enc n))).
