From Coq Require Import List NArith Bool.
From V.gen Require Consts C04Tables.
From V.C04 Require Import Model Proofs Codec CodecProofs Carrier CarrierProofs Yamux YamuxProofs WebRtc WebRtcProofs.
Import ListNotations.
Open Scope N_scope.
From V.C04 Require Import Properties.
Check (C04_receiver_total :
  forall (c : codec) (wire : list N) (script : list rdev) (polls : nat),
  let '(outs, st', _, _) := run_reader polls c (init_r c) wire script in
  ~ In RPanic outs /\ Alloc c st').
Check (C04_receiver_rejects :
  forall (mx : option N) (st : rstate) (b : N),
  cur st = None ->
  match read_payload_size (filled st ++ [b]) with
  | RpsDecodeErr | RpsOverflow =>
      on_data (Varint mx) st [b] = (mkR (buf_len st) [] None, Some RFail)
  | RpsOk size nb =>
      nb = lenN (filled st ++ [b]) -> (exists m, mx = Some m /\ m < size) ->
      on_data (Varint mx) st [b] = (mkR (buf_len st) [] None, Some RFail)
  | RpsNotEnough => True
  end).
Check (C04_reader_roundtrip :
  forall (c : codec) (msgs : list (list N)) (wire tail : list N) (script : list rdev) (polls : nat)
         outs st' wire' script',
  Fits c msgs -> wire ++ tail = wire_of c msgs ->
  run_reader polls c (init_r c) wire script = (outs, st', wire', script') ->
  ~ In RPanic outs /\ ~ In RFail outs /\
  exists rest, msgs = frames_of outs ++ rest /\
               (c <> Identity 0 -> tail = [] -> wire' = [] -> rest = [])).
Check (C04_sender_refuses :
  forall (c : codec) (w : wstate) (m : list N) (script : list wev) (sent0 : list N) r np w' sent' script',
  fitsb c m = false ->
  start_send c w m = (WDenied, w) /\
  (send_framed c script w m sent0 = (r, np, w', sent', script') -> pbytes w = lenN (qbytes w) ->
   r <> WOk /\ sent' ++ qbytes w' = sent0 ++ qbytes w /\
   (queue_nonempty w = false -> r = WDenied /\ sent' = sent0 /\ script' = script /\ w' = w))).
Check (C04_flush_complete :
  forall (script : list wev) (w : wstate) (sent0 : list N) r w' sent' script',
  flush script w sent0 = (r, w', sent', script') ->
  pbytes w = lenN (qbytes w) ->
  (exists d, sent' = sent0 ++ d) /\
  pbytes w' = lenN (qbytes w') /\ sent' ++ qbytes w' = sent0 ++ qbytes w /\
  (r = WOk -> frames w' = [] /\ curf w' = None /\ pbytes w' = 0)).
Check (C04_mixed_paths_in_order :
  forall (bp : N) (c : codec) (script : list wev) (ops : list op) rs s',
  run_ops bp c (init_sys script) ops = (rs, s') ->
  Forall2 good ops rs ->
  pbytes (ws s') = lenN (qbytes (ws s')) /\
  sent s' ++ qbytes (ws s') = wire_of c (accepted c ops)).
Check (C04_hist_flush_complete :
  forall (bp : N) (c : codec) (script : list wev) (ops : list op) rs r s',
  run_ops bp c (init_sys script) (ops ++ [OFlush]) = (rs ++ [r], s') ->
  Forall2 good ops rs -> fst r = WOk ->
  sent s' = wire_of c (accepted c ops) /\
  frames (ws s') = [] /\ curf (ws s') = None /\ pbytes (ws s') = 0).
Check (C04_send_framed_complete :
  forall (c : codec) (script : list wev) (w : wstate) (m : list N) (sent0 : list N) r np w' sent' script',
  send_framed c script w m sent0 = (r, np, w', sent', script') ->
  pbytes w = lenN (qbytes w) ->
  pbytes w' = lenN (qbytes w') /\
  (exists d e, sent' ++ qbytes w' = sent0 ++ qbytes w ++ d /\ frame c m = d ++ e /\
               (r = WOk -> e = [] /\ qbytes w' = []) /\ (fitsb c m = false -> d = [])) /\
  (r = WOk -> fitsb c m = true) /\ (r = WDenied -> fitsb c m = false)).
Check (C04_close_sends_nothing :
  forall (script : list wev) (w : wstate) (sent0 : list N),
  (forall r w' sent' script' sh,
     poll_close script w sent0 = (r, w', sent', script', sh) ->
     w' = w /\ sent' = sent0 /\ (r = WOk <-> sh = true)) /\
  (forall r np w' sent' script' sh,
     close_all script w sent0 = (r, np, w', sent', script', sh) ->
     w' = w /\ sent' = sent0 /\ (r = WOk -> Forall clean_ev script -> sh = true))).
Check (C04_close_after_flush_complete :
  forall (bp : N) (c : codec) (script : list wev) (ops : list op) rs rf rc s',
  run_ops bp c (init_sys script) (ops ++ [OFlush; OClose]) = (rs ++ [rf; rc], s') ->
  Forall2 good ops rs -> fst rf = WOk -> fst rc = WOk ->
  sent s' = wire_of c (accepted c ops) /\ qbytes (ws s') = [] /\ shut s' = true).
Check (C04_close_all_after_flush_complete :
  forall (bp : N) (c : codec) (script : list wev) (ops : list op) rs rf s1 np w' sent' script' sh,
  run_ops bp c (init_sys script) (ops ++ [OFlush]) = (rs ++ [rf], s1) ->
  Forall2 good ops rs -> fst rf = WOk ->
  close_all (wscript s1) (ws s1) (sent s1) = (WOk, np, w', sent', script', sh) ->
  Forall clean_ev (wscript s1) ->
  sent' = wire_of c (accepted c ops) /\ qbytes w' = [] /\ sh = true).
Check (C04_backpressure :
  forall (bp : N) (script : list wev) (w : wstate) (sent0 : list N) w' sent' script',
  0 < bp -> pbytes w = lenN (qbytes w) ->
  poll_ready bp script w sent0 = (WOk, w', sent', script') -> pbytes w' < bp).
Check (C04_roundtrip :
  forall (bp : N) (c : codec) (wscript : list wev) (ops : list op) rs s'
         (rscript : list rdev) (polls : nat) outs st' wire' script',
  Forall small_op ops ->
  run_ops bp c (init_sys wscript) ops = (rs, s') ->
  Forall2 good ops rs ->
  run_reader polls c (init_r c) (sent s') rscript = (outs, st', wire', script') ->
  ~ In RPanic outs /\ ~ In RFail outs /\
  exists rest, accepted c ops = frames_of outs ++ rest /\
               (c <> Identity 0 -> qbytes (ws s') = [] -> wire' = [] -> rest = [])).
Check (C04_write_error_reported :
  forall (script : list wev) (w : wstate) (sent0 : list N) r w' sent' script',
  flush script w sent0 = (r, w', sent', script') -> r <> WIo ->
  exists pre, script = pre ++ script' /\ Forall (fun e => e <> WErr) pre).
Check (C04_send_framed_error_reported :
  forall (ident : bool) (script : list wev) (bufs : list (list N)) (sent0 : list N) np r np' sent' script',
  sf_run ident script bufs sent0 np = (r, np', sent', script') -> r = WOk \/ r = WPend ->
  exists pre, script = pre ++ script' /\ Forall (fun e => e <> WErr) pre).
Check (C04_pending_has_waker_write :
  forall (script : list wev) (w : wstate) (sent0 : list N) w' sent' script',
  flush script w sent0 = (WPend, w', sent', script') ->
  (exists pre, script = pre ++ WPending :: script') \/ script' = []).
Check (C04_pending_has_waker_read :
  forall (c : codec) (script : list rdev) (st : rstate) (wire : list N) st' wire' script',
  poll_next c st wire script = (RPend, st', wire', script') ->
  (exists pre, script = pre ++ EvPending :: script') \/ script' = []).
Check (C04_identity_zero :
  forall (polls : nat) (wire : list N) (script : list rdev) outs st' wire' script',
  run_reader polls (Identity 0) (init_r (Identity 0)) wire script = (outs, st', wire', script') ->
  frames_of outs = [] /\ Forall (fun o => o = RPend \/ o = RClosed \/ o = RIoErr) outs /\ wire' = wire).
Check (C04_varint_none_unbounded_alloc :
  forall n, 0 < n -> n < USIZE_MOD ->
  let e := varint_enc n in
  let '(outs, st', _, _) := run_reader 1 (Varint None) (init_r (Varint None)) e (repeat (EvChunk 1) (length e)) in
  outs = [RPend] /\ buf_len st' = n /\ filled st' = []).
Check (C04_flush_all_fuel_adequate :
  forall fuel fuel' (script : list wev) (w : wstate) (sent0 : list N) np,
  (length script < fuel)%nat -> (length script < fuel')%nat ->
  flush_all fuel script w sent0 np = flush_all fuel' script w sent0 np).
Check (C04_varint_roundtrip :
  forall n, n < USIZE_MOD -> read_payload_size (varint_enc n) = RpsOk n (lenN (varint_enc n))).
Check (C04_codec_roundtrip :
  forall (cd : tcodec) (msgs : list (list N)) (chunks : list (list N)) (tail : list N) rs dl' src',
  cd_ok cd -> CFits cd msgs -> concat chunks ++ tail = twire cd msgs ->
  feed cd None [] chunks = (rs, dl', src') ->
  existsb is_derr rs = false /\
  exists rest, msgs = dframes rs ++ rest /\ (chunks <> [] -> tail = [] -> rest = [] /\ src' = [])).
Check (C04_codec_encode_refuses :
  (forall mx m, mx < lenN m -> tencode (TUvi mx) m = (EDenied, [])) /\
  (forall n m, lenN m <> n -> tencode (TIdentity n) m = (EInvalid, [])) /\
  (forall cd m r out, tencode cd m = (r, out) -> r <> EOk -> out = []) /\
  (forall cd msgs, twire cd msgs = twire cd (filter (tfits cd) msgs))).
Check (C04_codec_decode_rejects :
  (forall mx n x, mx < n -> n < USIZE_MOD -> tdecode (TUvi mx) None (varint_enc n ++ x) = (DDenied, None, x)) /\
  (forall mx src, match read_payload_size src with
                  | RpsDecodeErr | RpsOverflow => tdecode (TUvi mx) None src = (DOther, None, src)
                  | _ => True
                  end) /\
  (forall mx dl src r dl' src' k,
     (forall k0, dl = Some k0 -> k0 <= mx) -> tdecode (TUvi mx) dl src = (r, dl', src') -> dl' = Some k -> k <= mx)).
Check (C04_codec_same_wire :
  forall (cd : tcodec) (m : list N), cd_ok cd ->
  tfits cd m = fitsb (codec_of cd) m /\
  (tfits cd m = true -> tencode cd m = (EOk, frame (codec_of cd) m))).
Check (C04_substream_to_codec :
  forall (bp : N) (cd : tcodec) (script : list wev) (ops : list op) rs s' (chunks : list (list N)) rs' dl src,
  cd_ok cd -> Forall small_op ops ->
  run_ops bp (codec_of cd) (init_sys script) ops = (rs, s') -> Forall2 good ops rs ->
  concat chunks = sent s' ->
  feed cd None [] chunks = (rs', dl, src) ->
  existsb is_derr rs' = false /\
  exists rest, accepted (codec_of cd) ops = dframes rs' ++ rest /\
               (chunks <> [] -> qbytes (ws s') = [] -> rest = [] /\ src = [])).
Check (C04_codec_to_substream :
  forall (cd : tcodec) (msgs : list (list N)) (wire tail : list N) (script : list rdev) (polls : nat)
         outs st' wire' script',
  cd_ok cd -> CFits cd msgs -> wire ++ tail = twire cd msgs ->
  run_reader polls (codec_of cd) (init_r (codec_of cd)) wire script = (outs, st', wire', script') ->
  ~ In RPanic outs /\ ~ In RFail outs /\
  exists rest, msgs = frames_of outs ++ rest /\ (tail = [] -> wire' = [] -> rest = [])).
Check (C04_carrier_refines_script :
  forall (S E : Type) (K : carrier S) (env : S -> E -> S) (fuel : nat) (bp : N) (c : codec)
         (ops : list (gop E)) (g : @gsys S) rs g' L ab,
  grun K env fuel bp c g ops = Some (rs, g', L, ab) ->
  forall T, (ab = true -> T = []) ->
  run_ops bp c (mkSys (g_ws g) (g_sent g) (L ++ T) (g_shut g)) (firstn (length rs) (gops ops)) =
  (rs, mkSys (g_ws g') (g_sent g') T (g_shut g'))).
Check (C04_carrier_poll_total :
  forall (S : Type) (K : carrier S) (s : S) (w : wstate) (sent : list N),
  gflush K (flush_fuel w) s w sent <> None).
Check (C04_carrier_in_order :
  forall (S E : Type) (K : carrier S) (env : S -> E -> S) (fuel : nat) (bp : N) (c : codec)
         (ops : list (gop E)) (s0 : S) rs g' L ab,
  grun K env fuel bp c (ginit s0) ops = Some (rs, g', L, ab) ->
  Forall2 good (firstn (length rs) (gops ops)) rs ->
  pbytes (g_ws g') = lenN (qbytes (g_ws g')) /\
  g_sent g' ++ qbytes (g_ws g') = wire_of c (accepted c (firstn (length rs) (gops ops)))).
Check (C04_carrier_complete :
  forall (S : Type) (K : carrier S),
  (forall fuel s w sent w' sent' s' L,
     gflush K fuel s w sent = Some (WOk, w', sent', s', L) -> pbytes w = lenN (qbytes w) ->
     sent' = sent ++ qbytes w /\ qbytes w' = [] /\ frames w' = [] /\ curf w' = None /\ pbytes w' = 0) /\
  (forall fuel c s w m sent np w' sent' s' L ab,
     gsend_framed K fuel c s w m sent = Some (WOk, np, w', sent', s', L, ab) -> pbytes w = lenN (qbytes w) ->
     sent' = sent ++ qbytes w ++ frame c m /\ qbytes w' = [] /\ fitsb c m = true)).
Check (C04_yamux_write_discipline :
  forall (s : ystate) (len : N) a s',
  y_write s len = (a, s') ->
  y_wakes s' = y_wakes s /\
  match a with
  | CAcc k => k <= len /\ k <= y_credit s /\ k <= Y_SPLIT /\ (0 < len -> 0 < k) /\
              y_credit s' + k = y_credit s /\ y_open s' = true /\ y_open s = true /\ y_out s' = y_out s ++ [k]
  | CPend => s' = s /\ (y_credit s = 0 \/ Y_PARK <= y_q s)
  | CErr => s' = s /\ y_open s = false
  end).
Check (C04_yamux_credit_respected :
  forall (fuel : nat) (bp : N) (c : codec) (ops : list (gop yenv)) (g : @gsys ystate) rs g' L ab,
  grun YK y_apply fuel bp c g ops = Some (rs, g', L, ab) ->
  lenN (g_sent g') + y_credit (g_car g') + grants (g_car g') <=
  lenN (g_sent g) + y_credit (g_car g) + grants (g_car g) + genv_grants ops ye_grant).
Check (C04_yamux_stalls_only_for_credit :
  forall (fuel : nat) (bp : N) (c : codec) (ops : list (gop yenv)) (g : @gsys ystate) rs g' L ab,
  grun YK y_apply fuel bp c g ops = Some (rs, g', L, ab) ->
  yclean (g_car g) -> genv_all (fun e => ye_rst e = false) ops ->
  Forall (fun r => fst r <> WIo /\ fst r <> WClosed) rs /\ (ab = true -> ystalled (g_car g'))).
Check (C04_yamux_reader_refines_script :
  forall (fuel : nat) (c : codec) (st : rstate) (rbuf : list N) (fin : bool) o st' rbuf',
  (length rbuf < fuel)%nat ->
  ypoll fuel c st rbuf fin = (o, st', rbuf') ->
  poll_next c st rbuf (yscript fuel c st rbuf fin) = (o, st', rbuf', [])).
Check (C04_yamux_end_to_end :
  forall (fuel : nat) (bp : N) (c : codec) (wakes : list yenv) (sched : list ystep) (y : ysys),
  Forall small_step sched ->
  yrun fuel bp c (ys_init c wakes) sched = Some y -> ys_bad y = false ->
  ~ In RPanic (ys_outs y) /\ ~ In RFail (ys_outs y) /\
  exists rest, accepted c (ys_ops y) = frames_of (ys_outs y) ++ rest /\
    (c <> Identity 0 -> qbytes (g_ws (ys_g y)) = [] -> ys_arr y = lenN (g_sent (ys_g y)) -> ys_rbuf y = [] -> rest = [])).
Check (C04_webrtc_write_discipline :
  forall (s : rtc) (len : N) a s',
  rtc_write s len = (a, s') ->
  match a with
  | CAcc k => k <= len /\ k <= RTC_MAX_FRAME /\ (0 < len -> 0 < k) /\ r_out s' = r_out s ++ [k] /\
              r_q s' = r_q s + 1 /\ r_q s < RTC_CAP
  | CPend => s' = s /\ RTC_CAP <= r_q s
  | CErr => r_out s' = r_out s /\ r_q s' = r_q s /\ (r_tx s = false \/ r_rxclosed s = true)
  end).
Check (C04_webrtc_reader_refines_script :
  (forall s p fin, rr_ok s -> rr_reset s = false -> rr_eof s = false -> lenN (rr_inq s) < RTC_CAP ->
                   lenN p <= RTC_MAX_FRAME ->
                   rr_ok (rr_message s p fin) /\ rr_bytes (rr_message s p fin) = rr_bytes s ++ p /\
                   rr_reset (rr_message s p fin) = false) /\
  (forall fuel c st s o st' s',
     rr_ok s -> (length (rr_bytes s) < fuel)%nat ->
     wpoll fuel c st s = (o, st', s') ->
     rr_ok s' /\ poll_next c st (rr_bytes s) (rtc_script fuel c st s) = (o, st', rr_bytes s', []))).
