From Coq Require Import List NArith Bool.
From V.gen Require Consts.
From V.C04 Require Import Model Proofs.
Import ListNotations.
Open Scope N_scope.
From V.C04 Require Import Properties.
Check (C04_receiver_total :
  forall (c : codec) (wire : list N) (script : list rdev) (polls : nat),
  let '(outs, st', _, _) := run_reader polls c (init_r c) wire script in
  ~ In RPanic outs /\ Alloc c st').
Check (C04_receiver_rejects :
  forall (mx : option N) (st : rstate) (b : N),
  cur st = None ->
  match read_payload_size (filled st ++ [b]) with
  | RpsDecodeErr | RpsOverflow =>
      on_data (Varint mx) st [b] = (mkR (buf_len st) [] None, Some RFail)
  | RpsOk size nb =>
      nb = lenN (filled st ++ [b]) -> (exists m, mx = Some m /\ m < size) ->
      on_data (Varint mx) st [b] = (mkR (buf_len st) [] None, Some RFail)
  | RpsNotEnough => True
  end).
Check (C04_reader_roundtrip :
  forall (c : codec) (msgs : list (list N)) (wire tail : list N) (script : list rdev) (polls : nat)
         outs st' wire' script',
  Fits c msgs -> wire ++ tail = wire_of c msgs ->
  run_reader polls c (init_r c) wire script = (outs, st', wire', script') ->
  ~ In RPanic outs /\ ~ In RFail outs /\
  exists rest, msgs = frames_of outs ++ rest /\
               (c <> Identity 0 -> tail = [] -> wire' = [] -> rest = [])).
Check (C04_sender_refuses :
  forall (c : codec) (w : wstate) (m : list N) (script : list wev) (sent0 : list N),
  fitsb c m = false ->
  start_send c w m = (WDenied, w) /\ send_framed c script m sent0 = (WDenied, 0, sent0, script)).
Check (C04_flush_complete :
  forall (script : list wev) (w : wstate) (sent0 : list N) r w' sent' script',
  flush script w sent0 = (r, w', sent', script') ->
  pbytes w = lenN (qbytes w) ->
  (exists d, sent' = sent0 ++ d) /\
  (r <> WIo -> pbytes w' = lenN (qbytes w') /\ sent' ++ qbytes w' = sent0 ++ qbytes w) /\
  (r = WOk -> frames w' = [] /\ curf w' = None /\ pbytes w' = 0)).
Check (C04_sink_stream :
  forall (bp : N) (c : codec) (script : list wev) (ops : list op) rs s',
  forallb sink_op ops = true ->
  run_ops bp c (init_sys script) ops = (rs, s') ->
  Forall (fun r => fst r <> WIo) rs ->
  pbytes (ws s') = lenN (qbytes (ws s')) /\
  sent s' ++ qbytes (ws s') = wire_of c (accepted c ops)).
Check (C04_sink_flush_complete :
  forall (bp : N) (c : codec) (script : list wev) (ops : list op) rs r s',
  run_ops bp c (init_sys script) (ops ++ [OFlush]) = (rs ++ [r], s') ->
  length rs = length ops ->
  forallb sink_op ops = true -> Forall (fun x => fst x <> WIo) rs -> fst r = WOk ->
  sent s' = wire_of c (accepted c ops) /\
  frames (ws s') = [] /\ curf (ws s') = None /\ pbytes (ws s') = 0).
Check (C04_send_framed_complete :
  forall (c : codec) (script : list wev) (m : list N) (sent0 : list N) r np sent' script',
  send_framed c script m sent0 = (r, np, sent', script') ->
  (fitsb c m = false -> r = WDenied /\ sent' = sent0 /\ script' = script) /\
  (fitsb c m = true ->
     r <> WDenied /\ exists d e, sent' = sent0 ++ d /\ frame c m = d ++ e /\ (r = WOk -> e = []))).
Check (C04_backpressure :
  forall (bp : N) (script : list wev) (w : wstate) (sent0 : list N) w' sent' script',
  0 < bp -> pbytes w = lenN (qbytes w) ->
  poll_ready bp script w sent0 = (WOk, w', sent', script') -> pbytes w' < bp).
Check (C04_roundtrip_sink :
  forall (bp : N) (c : codec) (wscript : list wev) (ops : list op) rs s'
         (rscript : list rdev) (polls : nat) outs st' wire' script',
  forallb sink_op ops = true -> Forall small_op ops ->
  run_ops bp c (init_sys wscript) ops = (rs, s') ->
  Forall (fun r => fst r <> WIo) rs ->
  run_reader polls c (init_r c) (sent s') rscript = (outs, st', wire', script') ->
  ~ In RPanic outs /\ ~ In RFail outs /\
  exists rest, accepted c ops = frames_of outs ++ rest /\
               (c <> Identity 0 -> qbytes (ws s') = [] -> wire' = [] -> rest = [])).
Check (C04_roundtrip_framed :
  forall (bp : N) (c : codec) (wscript : list wev) (ops : list op) rs s'
         (rscript : list rdev) (polls : nat) outs st' wire' script',
  forallb framed_op ops = true -> Forall small_op ops ->
  run_ops bp c (init_sys wscript) ops = (rs, s') ->
  Forall (fun r => fst r = WOk \/ fst r = WDenied) rs ->
  run_reader polls c (init_r c) (sent s') rscript = (outs, st', wire', script') ->
  ~ In RPanic outs /\ ~ In RFail outs /\
  exists rest, accepted c ops = frames_of outs ++ rest /\
               (c <> Identity 0 -> wire' = [] -> rest = [])).
Check (C04_varint_roundtrip :
  forall n, n < USIZE_MOD -> read_payload_size (varint_enc n) = RpsOk n (lenN (varint_enc n))).
