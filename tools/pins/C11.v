From Coq Require Import List NArith Bool.
From V.C11 Require Import Model Proofs.
From V.C11 Require HSModel HSProofs.
Import ListNotations.
Open Scope N_scope.
From V.C11 Require Import Properties.
Check (C11_alternation :
  forall (c : cfg) (ops : list op),
    exists h, grammar (fun _ => false) (events (fst (run c init ops))) = Some h).
Check (C11_alternation_before_fix_refuted :
  Before.events (fst (Before.run cfg_w_before Before.init w_slow_close_before)) =
    [Before.UOpened 0 Before.DOut; Before.UValidate 0; Before.UOpened 0 Before.DIn; Before.UClosed 0; Before.UClosed 0] /\
  Before.grammar (fun _ => false) (Before.events (fst (Before.run cfg_w_before Before.init w_slow_close_before))) = None /\
  events (fst (run cfg_w init w_slow_close)) = [UOpened 0 DOut; UClosed 0; UValidate 0; UOpened 0 DIn]).
Check (C11_user_view_is_protocol_view :
  forall (c : cfg) (s : st), reachable c s ->
    (forall p, hopen s p = is_open (ps s p)) /\ (forall p k, ps s p = Some (Open k) -> hsink s p = Some k)).
Check (C11_opened_needs_accepted_inbound :
  forall (c : cfg) (s : st) (o : op) (s' : st) (ev : list uev) (calls : list call) (p : peer) (d : dir),
    step c s o = Some (s', ev, calls) -> In (UOpened p d) ev -> accepted_in (ps s p) d).
Check (C11_closed_on_disconnect :
  forall (c : cfg) (s : st) (p : peer) (k : N) (s' : st) (ev : list uev) (calls : list call),
    reachable c s -> conn s p = true -> ps s p = Some (Open k) ->
    step c s (ConnClosed p) = Some (s', ev, calls) -> In (UClosed p) ev).
Check (C11_closed_on_user_close :
  forall (c : cfg) (s : st) (p : peer) (k : N) (s' : st) (ev : list uev) (calls : list call),
    reachable c s -> ps s p = Some (Open k) ->
    step c s (CmdClose p) = Some (s', ev, calls) -> In (UClosed p) ev).
Check (C11_delivered_close_kills_nothing :
  forall (c : cfg) (s : st) (o : op) (s1 : st) (ev : list uev) (cl : list call) (s2 : st) (dr : list peer) (ks : list N),
    reachable c s -> main_handler c s o = Some (s1, ev, cl) -> drain s1 ev = (s2, dr, ks) -> ks = []).
Check (C11_no_stuck :
  forall (c : cfg) (ops : list op), snd (run c init ops) = true).
Check (C11_no_stuck_feasible :
  forall (c : cfg) (ops : list op), feasible c init ops = true -> snd (run c init ops) = true).
Check (C11_guards_are_the_environment :
  forall (c : cfg) (s : st) (o : op), enabled s o = false -> main_handler c s o = Some (s, [], [])).
Check (C11_no_stuck_needs_environment_refuted :
  exists (c : cfg) (ops : list op) (p : peer),
    conn (last_state c ops) p = true /\ on_established c (last_state c ops) p = None).
Check (C11_isolation :
  forall (c : cfg) (s : st) (o : op) (s' : st) (ev : list uev) (cl : list call),
    reachable c s -> step c s o = Some (s', ev, cl) -> iso s s' (op_peer o) ev cl).
Check (C11_runs_are_reachable :
  forall (c : cfg) (ops : list op) (x : st * list uev * list call),
    In x (fst (run c init ops)) -> reachable c (fst (fst x))).
Check (C11_accepted_only_by_accept :
  forall (c : cfg) (s : st) (o : op) (s' : st) (ev : list uev) (cl : list call) (q : peer),
    step c s o = Some (s', ev, cl) -> acc_inb (ps s' q) = true -> acc_inb (ps s q) = false ->
    is_accept c s o q = true).
Check (C11_inbound_needs_accept :
  forall (c : cfg) (pre : list op) (s : st) (o : op) (s' : st) (ev : list uev) (cl : list call)
         (p : peer) (d : dir),
    exec c init pre = Some s -> step c s o = Some (s', ev, cl) -> In (UOpened p d) ev ->
    exists pre1 a pre2 s1,
      pre = pre1 ++ a :: pre2 /\ exec c init pre1 = Some s1 /\ is_accept c s1 a p = true).
Check (C11_open_answered :
  forall (c : cfg) (ops : list op) (s : st) (owed : peer -> bool),
    ledger_env c init ops = true -> ledger c init (fun _ => false) ops = Some (s, owed) ->
    forall p, owed p = true -> in_progress (ps s p) = true /\ obligation s p = true).
Check (C11_quiescent_nothing_owed :
  forall (c : cfg) (ops : list op) (s : st) (owed : peer -> bool) (p : peer),
    ledger_env c init ops = true -> ledger c init (fun _ => false) ops = Some (s, owed) ->
    obligation s p = false -> owed p = false).
Check (C11_at_most_one_answer :
  forall (c : cfg) (s : st) (o : op) (s' : st) (ev : list uev) (cl : list call) (q : peer),
    step c s o = Some (s', ev, cl) -> (length (answers q ev) <= 1)%nat).
Check (C11_no_dead_substream_id :
  forall (c : cfg) (s : st), reachable c s ->
    (forall p x, (ps s p = Some (OutInit x) \/ exists d i, ps s p = Some (Validating d (OInit x) i)) -> In (x, p) (spend s)) /\
    (forall x q, In (x, q) (pend s) -> In (x, q) (spend s))).
Check (C11_open_answered_before_fix_refuted :
  exists (c : cfg) (pre : list op) (s s' : st),
    exec c init pre = Some s /\ ledger_env c init pre = true /\ hopen s 0 = false /\
    ps s 0 = Some (Closed (Some 0)) /\ pend_find 0 (pend s) = None /\ spend s = [] /\
    on_open_old c s 0 = Some (s', [], []) /\ in_progress (ps s' 0) = true /\ obligation s' 0 = false /\
    exists s2, on_open c s 0 = Some (s2, [], [COpen 0 1]) /\ obligation s2 0 = true).
Check (C11_open_answered_class3_refuted :
  exists (c : cfg) (ops : list op) (s : st) (owed : peer -> bool),
    ledger c init (fun _ => false) ops = Some (s, owed) /\ owed 0 = true /\ in_progress (ps s 0) = false).
Check (C11_send_gate :
  forall (c : cfg) (s : st) (o : op) (s' : st) (ev : list uev) (cl : list call) (q : peer) (k m : N),
    reachable c s -> step c s o = Some (s', ev, cl) -> In (CWire q k m) cl ->
    send_sink s o = Some (q, k, m) /\ running s k = true /\
    (exists t, find_task k (tasks s) = Some t /\ t_peer t = q) /\
    match o with
    | SendSync _ _ | SendAsync _ _ => hopen s q = true /\ hsink s q = Some k
    | _ => usink s q = Some k
    end).
Check (C11_send_gate_closed :
  forall (c : cfg) (s : st) (p : peer) (m : N) (a : bool) (s' : st) (ev : list uev) (cl : list call),
    reachable c s -> hopen s p = false ->
    step c s (if a then SendAsync p m else SendSync p m) = Some (s', ev, cl) ->
    cl = [CRet p (if a then R_NOPEER else R_OK)] /\ ev = [] /\ ps s' = ps s /\ tasks s' = tasks s).
Check (C11_stale_sink_errors :
  forall (c : cfg) (s : st) (p : peer) (k m : N) (a : bool) (s' : st) (ev : list uev) (cl : list call),
    usink s p = Some k -> find_task k (tasks s) = None ->
    step c s (if a then SinkAsync p m else SinkSync p m) = Some (s', ev, cl) ->
    cl = [CRet p (if a then R_NOPEER else R_NOCONN)] /\ ev = [] /\ ps s' = ps s /\ tasks s' = tasks s).
Check (C11_timers_fire_once :
  forall (c : cfg) (s : st) (o : op) (s' : st) (ev : list uev) (cl : list call),
    step c s o = Some (s', ev, cl) -> timers_spec s o s').
Check (C11_waiting_attempt_has_timer :
  forall (c : cfg) (s : st) (p : peer),
    reachable c s -> waiting (ps s p) = true -> existsb (N.eqb p) (timers s) = true).
Check (C11_timer_only_cancels_waiting :
  forall (c : cfg) (s : st) (p : peer) (s' : st) (ev : list uev) (cl : list call),
    waiting (ps s p) = false -> step c s (Timer p) = Some (s', ev, cl) ->
    ev = [] /\ cl = [] /\ ps s' = ps s /\ tasks s' = tasks s /\ hopen s' = hopen s).
Check (C11_no_stale_timer_kill :
  forall (c : cfg) (s : st) (p : peer) (k : N) (s' : st) (ev : list uev) (cl : list call),
    ps s p = Some (Open k) -> step c s (Timer p) = Some (s', ev, cl) ->
    ev = [] /\ cl = [] /\ ps s' = ps s /\ tasks s' = tasks s /\ hopen s' = hopen s).
Check (C11_stale_timer_cancels_newer_attempt_refuted :
  exists s1 s2 s3 ev cl,
    exec cfg_wt init w_stale_pre = Some s1 /\ ps s1 0 = Some (Closed None) /\ timers s1 = [0] /\
    exec cfg_wt s1 w_stale_post = Some s2 /\ waiting (ps s2 0) = true /\ timers s2 = [0; 0] /\
    step cfg_wt s2 (Timer 0) = Some (s3, ev, cl) /\ ev = [UFail 0 E_REJECTED] /\ cl = [CForce 0] /\
    timers s3 = [0]).
Check (C11_lazy_no_stuck :
  forall (c : cfg) (cap : nat) (gs : list lop), snd (lrun c cap linit gs) = true).
Check (C11_lazy_alternation :
  forall (c : cfg) (cap : nat) (gs : list lop),
    exists h, grammar (fun _ => false) (levents (fst (lrun c cap linit gs))) = Some h).
Check (C11_event_channel_no_loss :
  forall (c : cfg) (cap : nat) (gs : list lop),
    ltaken_run c cap linit gs ++ lq (lfinal c cap linit gs) = lemitted_run c cap linit gs).
Check (C11_event_channel_step :
  forall (c : cfg) (cap : nat) (l : lst) (g : lop) (l' : lst) (ev : list uev) (cl : list call),
    lstep c cap l g = Some (l', ev, cl) ->
    ltaken cap l g ++ lq l' = lq l ++ lemitted c cap l g /\
    (snd (fst (poll_events cap (ls l) (lq l))) <> None \/ g <> LPoll -> ev = delivered (ls l) (ltaken cap l g))).
Check (C11_poll_delivers_oldest :
  forall (c : cfg) (cap : nat) (l : lst) (dd : list uev) (e : uev) (rest : list uev),
    poll_events cap (ls l) (lq l) = (dd, Some e, rest) ->
    exists l' cl, lstep c cap l LPoll = Some (l', delivered (ls l) [e], cl)).
Check (C11_capacity_only_delays :
  forall (c : cfg) (cap1 cap2 : nat) (gs : list lop),
    never_blocked c cap1 linit gs = true -> never_blocked c cap2 linit gs = true ->
    map (fun x => (lcore (fst (fst x)), snd (fst x))) (fst (lrun c cap1 linit gs)) =
    map (fun x => (lcore (fst (fst x)), snd (fst x))) (fst (lrun c cap2 linit gs)) /\
    snd (lrun c cap1 linit gs) = snd (lrun c cap2 linit gs)).
Check (C11_gate_is_newest_sink :
  forall (c : cfg) (s : st) (p : peer),
    reachable c s -> hopen s p = true -> hsink s p = lastt s p /\ lastt s p <> None).
Check (C11_lazy_queue_lifecycle_only :
  forall (c : cfg) (cap : nat) (gs : list lop) (x : lst * list uev * list call),
    In x (fst (lrun c cap linit gs)) -> Forall not_notif (lq (fst (fst x)))).
Check (C11_lazy_notification_in_its_period :
  forall (c : cfg) (cap : nat) (l l' : lst) (ev : list uev) (cl : list call) (p : peer),
    Forall not_notif (lq l) -> lstep c cap l LPoll = Some (l', ev, cl) -> In (UNotif p) ev ->
    snd (fst (poll_events cap (ls l) (lq l))) = None /\
    exists k, In (p, k) (lnf l) /\ hopen (ls l) p = true /\ hsink (ls l) p = Some k).
Check (C11_hs_events_only_for_held_substreams :
  forall (h : HSModel.hs) (ord : list HSModel.key) (h' : HSModel.hs) (k : HSModel.key),
    (exists rd, HSModel.poll h ord = (h', HSModel.PNeg k rd)) \/ HSModel.poll h ord = (h', HSModel.PErr k) ->
    HSModel.has k h = true).
Check (C11_hs_negotiated_hands_out :
  forall (h : HSModel.hs) (ord : list HSModel.key) (h' : HSModel.hs) (k : HSModel.key) (rd : bool),
    HSModel.poll h ord = (h', HSModel.PNeg k rd) -> HSModel.has k h' = false).
Check (C11_hs_error_keeps_substream :
  forall (h : HSModel.hs) (ord : list HSModel.key) (h' : HSModel.hs) (k : HSModel.key),
    HSModel.poll h ord = (h', HSModel.PErr k) -> HSModel.has k h' = true).
Check (C11_hs_timeout_fails :
  forall (e : HSModel.hent), HSModel.e_timed e = true -> HSModel.visit1 e = HSModel.VErr).
Check (C11_hs_keys_unique :
  forall (h : HSModel.hs) (o : HSModel.hop),
    HSProofs.uniq (HSModel.ents h) -> HSProofs.uniq (HSModel.ents (fst (HSModel.hstep h o)))).
Check (C11_hs_removed_is_silent :
  forall (h : HSModel.hs) (ord : list HSModel.key) (h' : HSModel.hs) (k : HSModel.key),
    HSModel.has k h = false -> (forall rd, ~ In (k, rd) (HSModel.ready h)) ->
    (forall rd, HSModel.poll h ord <> (h', HSModel.PNeg k rd)) /\ HSModel.poll h ord <> (h', HSModel.PErr k)).
Check (C11_hs_stale_ready_refuted :
  map snd (HSModel.hrun0 HSModel.hs0 HSProofs.w_stale) =
  [HSModel.PPending; HSModel.PPending; HSModel.PPending; HSModel.PPending; HSModel.PErr 1;
   HSModel.PPending; HSModel.PPending; HSModel.PPending; HSModel.PNeg 0 true]).
Check (C11_hs_stale_ready_repaired :
  map snd (HSModel.hrun HSModel.hs0 HSProofs.w_stale) =
  [HSModel.PPending; HSModel.PPending; HSModel.PPending; HSModel.PPending; HSModel.PErr 1;
   HSModel.PPending; HSModel.PPending; HSModel.PPending; HSModel.PPending]).
Check (C11_hs_calls_forget :
  forall (h : HSModel.hs) (c : HSModel.hcall),
    let k := match c with
             | HSModel.NegOut p | HSModel.RemOut p => HSModel.mkkey p true
             | HSModel.ReadIn p | HSModel.SendIn p | HSModel.RemIn p => HSModel.mkkey p false
             end in
    forall rd, ~ In (k, rd) (HSModel.ready (HSModel.call h c))).
Check (C11_hs_removed_stays_silent :
  forall (h : HSModel.hs) (p : HSModel.peer) (out : bool) (ord : list HSModel.key) (h' : HSModel.hs),
    (forall rd, HSModel.poll (HSModel.call h (if out then HSModel.RemOut p else HSModel.RemIn p)) ord <>
                (h', HSModel.PNeg (HSModel.mkkey p out) rd)) /\
    HSModel.poll (HSModel.call h (if out then HSModel.RemOut p else HSModel.RemIn p)) ord <>
    (h', HSModel.PErr (HSModel.mkkey p out))).
