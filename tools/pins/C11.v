
From V.C11 Require Import Properties.
