From Coq Require Import List NArith Bool.
From V.C11 Require Import Model Proofs.
Import ListNotations.
Open Scope N_scope.
From V.C11 Require Import Properties.
Check (C11_alternation :
  forall (c : cfg) (ops : list op),
    forallb prompt_op ops = true ->
    exists h, grammar (fun _ => false) (events (fst (run c init ops))) = Some h).
Check (C11_alternation_refuted :
  exists (c : cfg) (ops : list op),
    grammar (fun _ => false) (events (fst (run c init ops))) = None).
Check (C11_opened_needs_accepted_inbound :
  forall (c : cfg) (s : st) (o : op) (s' : st) (ev : list uev) (calls : list call) (p : peer) (d : dir),
    step c s o = Some (s', ev, calls) -> In (UOpened p d) ev -> accepted_in (ps s p) d).
Check (C11_closed_on_disconnect :
  forall (c : cfg) (ops : list op) (x : st * list uev * list call) (p : peer) (k : N)
         (s' : st) (ev : list uev) (calls : list call),
    forallb prompt_op ops = true -> In x (fst (run c init ops)) ->
    conn (fst (fst x)) p = true -> ps (fst (fst x)) p = Some (Open k) ->
    step c (fst (fst x)) (ConnClosed p) = Some (s', ev, calls) -> In (UClosed p) ev).
Check (C11_closed_on_user_close :
  forall (c : cfg) (ops : list op) (x : st * list uev * list call) (p : peer) (k : N)
         (s' : st) (ev : list uev) (calls : list call),
    forallb prompt_op ops = true -> In x (fst (run c init ops)) ->
    ps (fst (fst x)) p = Some (Open k) ->
    step c (fst (fst x)) (CmdClose p) = Some (s', ev, calls) -> In (UClosed p) ev).
Check (C11_open_answered_refuted :
  exists (c : cfg) (ops : list op),
    ps (last_state c ops) 0 = Some (OutInit 0) /\ spend (last_state c ops) = [] /\
    last ops (Timer 0) = CmdOpen 0).
