From Coq Require Import List NArith ZArith Bool Sorted Permutation.
From V.gen Require Consts.
From V.C10 Require Import Model Proofs.
Import ListNotations.
From V.C10 Require Import Properties.
Check (C10_bound :
  forall c k h p s, get p (bk (final c k h)) = Some s ->
    (length s <= cap k)%nat /\ NoDup (keys s)).
Check (C10_bound_default :
  forall c h p s, get p (bk (final c default_scores h)) = Some s ->
    (N.of_nat (length s) <= Consts.MAX_ADDRESSES)%N).
Check (C10_accept_implies_dialable :
  forall c a, supported c a = true ->
    exists q, last a (Other 0) = P2p q /\
      enabled c (route c a) = true /\
      exists ho port, parse (route c a) a = Some (ho, port, Some q) /\
                      host_unspecified ho = false).
Check (C10_offer_filter :
  forall c ls peer l a, In a (accepted c ls peer l) ->
    In a l /\ supported c a = true /\ is_local c ls a = false /\ last a (Other 0) = P2p peer).
Check (C10_listen_monotone :
  forall c l1 l2 a, incl l1 l2 -> is_local c l2 a = false -> is_local c l1 a = false).
Check (C10_remembered_acceptable :
  forall c k L0 h p s a z,
    Forall (op_wf (acceptable c L0)) h ->
    get p (bk (fst (run c k (mkState [] L0 0) h))) = Some s -> In (a, z) s ->
    (supported c a = true /\ is_local c L0 a = false /\ last a (Other 0) = P2p p) /\
    (enabled c (route c a) = true /\
     exists ho port, parse (route c a) a = Some (ho, port, Some p) /\
                     host_unspecified ho = false)).
Check (C10_step_preserves :
  forall c k L0 st o,
    StInv k L0 (acceptable c L0) st -> op_wf (acceptable c L0) o ->
    StInv k L0 (acceptable c L0) (fst (step c k st o))).
Check (C10_evict_min :
  forall k s a sc v w,
  NoDup (keys s) ->
  snd (insert k s a sc v) = Evicted w ->
  let s' := fst (insert k s a sc v) in
  exists m,
    find a s = None /\ (cap k <= length s)%nat /\
    find w s = Some m /\ (forall b z, In (b, z) s -> (m <= z)%Z) /\ (m <= new_score k a sc)%Z /\
    find w s' = None /\ find a s' = Some (new_score k a sc) /\
    length s' = length s /\
    forall b, b <> w -> b <> a -> find b s' = find b s).
Check (C10_drop_only_below_min :
  forall k s a sc v,
  snd (insert k s a sc v) = Dropped ->
  fst (insert k s a sc v) = s /\ find a s = None /\ (cap k <= length s)%nat /\
  forall b z, In (b, z) s -> (new_score k a sc < z)%Z).
Check (C10_insert_frame :
  forall k s a sc v b,
  NoDup (keys s) -> b <> a ->
  find b (fst (insert k s a sc v)) = find b s \/
  (snd (insert k s a sc v) = Evicted b /\ find b (fst (insert k s a sc v)) = None)).
Check (C10_rescore_exact :
  forall k s a sc v z0,
  find a s = Some z0 -> sc <> 0%Z ->
  let s' := fst (insert k s a sc v) in
  snd (insert k s a sc v) = Updated /\
  find a s' = Some sc /\ keys s' = keys s /\
  forall b, b <> a -> find b s' = find b s).
Check (C10_rediscovery_keeps :
  forall k s l victims,
  (forall a, In a l -> find a s <> None) -> insert_all k s l victims = (s, false)).
Check (C10_dial_order :
  forall limit s,
  let r := addresses limit s in
  length r = Nat.min limit (length s) /\
  StronglySorted ge_score r /\
  (forall x, In x r -> In x s) /\
  (forall x y, In x r -> In y s -> ~ In y r -> (snd y <= snd x)%Z)).
Check (C10_dial_order_validator_sound :
  forall limit s obs,
  addresses_ok limit s obs = true ->
  length obs = Nat.min limit (length s) /\
  (forall a z, In (a, z) obs -> find a s = Some z) /\
  NoDup (map fst obs) /\
  StronglySorted (fun x y => (y <= x)%Z) (map snd obs) /\
  (forall b y, In (b, y) s -> ~ In b (map fst obs) -> forall a z, In (a, z) obs -> (y <= z)%Z)).
Check (C10_dial_order_validator_complete :
  forall limit s, NoDup (keys s) -> addresses_ok limit s (addresses limit s) = true).
Check (C10_dial_tries :
  forall c k st peer outcome tcp ws t w st',
  step c k st (ODial peer outcome tcp ws) = (st', RDial (DTried t w)) ->
  let s := get_or_empty peer (bk st) in
  exists limit,
    free_capacity c st (length s) = Some limit /\
    peer <> local_peer c /\
    t = with_scores s tcp /\ w = with_scores s ws /\
    addresses_ok limit s (merge_desc t w) = true /\
    Permutation (merge_desc t w) (t ++ w) /\
    Forall (fun a => In a (keys s) /\ names peer a = true /\ route c a = TTcp /\ enabled c TTcp = true) tcp /\
    Forall (fun a => In a (keys s) /\ names peer a = true /\ route c a = TWs /\ enabled c TWs = true) ws /\
    st' = set_bk st (put peer (dial_outcome k s peer outcome tcp ws) (bk st))).
Check (C10_free_capacity :
  forall c st n limit,
  free_capacity c st n = Some limit ->
  match max_out c with
  | Some m => (held st < m)%nat /\ limit = (m - held st)%nat
  | None => limit = n
  end).
Check (C10_dial_all_fail :
  forall k s peer tcp ws b,
  NoDup (keys s) -> (forall a, In a (tcp ++ ws) -> In a (keys s)) -> sc_failure k <> 0%Z ->
  find b (dial_outcome k s peer 0 tcp ws) =
    if existsb (maddr_eqb b) (tcp ++ ws) then Some (sc_failure k) else find b s).
Check (C10_dial_success :
  forall k s peer l j a b,
  NoDup (keys s) -> (forall x, In x l -> In x (keys s)) ->
  nth_error l j = Some a -> names peer a = true ->
  sc_failure k <> 0%Z -> sc_established k <> 0%Z ->
  find b (succeed_at k s peer l j) =
    if maddr_eqb b a then Some (sc_established k)
    else if existsb (maddr_eqb b) (firstn j l) then Some (sc_failure k) else find b s).
Check (C10_choice_resolvable :
  forall k s a sc, NoDup (keys s) -> (1 <= cap k)%nat ->
  snd (insert k s a sc (pick_min s)) <> BadChoice).
