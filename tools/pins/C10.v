From Coq Require Import List NArith ZArith Bool Sorted Permutation.
From V.gen Require Consts DialErrors.
From V.C10 Require Import Model IpClass Proofs.
From V.C10 Require ErrNames KadStore.
From V.C14 Require AddrModel.
Import ListNotations.
From V.C10 Require Import Properties.
Check (C10_bound :
  forall c k h p s, get p (bk (final c k h)) = Some s ->
    (length s <= cap k)%nat /\ NoDup (keys s)).
Check (C10_bound_default :
  forall c h p s, get p (bk (final c default_scores h)) = Some s ->
    (N.of_nat (length s) <= Consts.MAX_ADDRESSES)%N).
Check (C10_accept_implies_dialable :
  forall c a, supported c a = true ->
    exists q, last a (Other 0) = P2p q /\
      enabled c (route c a) = true /\
      exists ho port, parse (route c a) a = Some (ho, port, Some q) /\
                      host_unspecified ho = false).
Check (C10_offer_filter :
  forall c ls peer l a, In a (accepted c ls peer l) ->
    In a l /\ supported c a = true /\ is_local c ls a = false /\ last a (Other 0) = P2p peer).
Check (C10_service_offer_filter :
  forall c ls peer l a, In a (accepted c ls peer (ts_prepare peer l)) ->
    (exists a0, In a0 l /\
       ((last a0 (Other 0) = P2p peer /\ a = a0) \/
        ((forall q, last a0 (Other 0) <> P2p q) /\ a = a0 ++ [P2p peer]))) /\
    supported c a = true /\ is_local c ls a = false /\ last a (Other 0) = P2p peer).
Check (C10_litep2p_level :
  forall c k ls h p s a z,
    only_adds h ->
    get p (bk (fst (run c k (mkState [] ls 0 []) h))) = Some s -> In (a, z) s ->
    (supported c a = true /\ is_local c ls a = false /\ last a (Other 0) = P2p p) /\
    (enabled c (route c a) = true /\
     exists ho port, parse (route c a) a = Some (ho, port, Some p) /\
                     host_unspecified ho = false)).
Check (C10_listen_monotone :
  forall c l1 l2 a, incl l1 l2 -> is_local c l2 a = false -> is_local c l1 a = false).
Check (C10_remembered_acceptable :
  forall c k L0 h p s a z,
    Forall (op_ok c L0) h ->
    get p (bk (fst (run c k (mkState [] L0 0 []) h))) = Some s -> In (a, z) s ->
    (supported c a = true /\ is_local c L0 a = false /\ last a (Other 0) = P2p p) /\
    (enabled c (route c a) = true /\
     exists ho port, parse (route c a) a = Some (ho, port, Some p) /\
                     host_unspecified ho = false)).
Check (C10_remembered_dialable :
  forall c k L0 h p s a z,
    Forall (op_weak c) h ->
    get p (bk (fst (run c k (mkState [] L0 0 []) h))) = Some s -> In (a, z) s ->
    last a (Other 0) = P2p p /\ enabled c (route c a) = true /\
    exists ho port, parse (route c a) a = Some (ho, port, Some p)).
Check (C10_remembered_not_own_listen :
  forall c k L0 h p s a z,
    Forall (op_strict c L0) h ->
    get p (bk (fst (run c k (mkState [] L0 0 []) h))) = Some s -> In (a, z) s ->
    (last a (Other 0) = P2p p /\ enabled c (route c a) = true /\
     exists ho port, parse (route c a) a = Some (ho, port, Some p)) /\
    forall l, In l L0 -> strip_p2p a <> l /\ strip_p2p a <> l ++ [P2p (local_peer c)]).
Check (C10_api_histories :
  forall c k L0 h p s a z,
    Forall api_op h ->
    get p (bk (fst (run c k (mkState [] L0 0 []) h))) = Some s -> In (a, z) s ->
    (last a (Other 0) = P2p p /\ enabled c (route c a) = true /\
     exists ho port, parse (route c a) a = Some (ho, port, Some p)) /\
    forall l, In l L0 -> strip_p2p a <> l /\ strip_p2p a <> l ++ [P2p (local_peer c)]).
Check (C10_dial_address_filter :
  forall c st a t q,
    dial_addr_check c st a = DAOk t q ->
    free_capacity c st 0 <> None /\
    (existsb (maddr_eqb a) (listen_set c (lst st)) = false /\
     existsb (maddr_eqb (strip_p2p a)) (listen_set c (lst st)) = false) /\
    route c a = t /\
    (last a (Other 0) = P2p q /\ enabled c (route c a) = true /\
     exists ho port, parse (route c a) a = Some (ho, port, Some q))).
Check (C10_supported_implies_dial_address :
  forall c st a,
    supported c a = true -> free_capacity c st 0 <> None ->
    own_listen c (lst st) a = false ->
    exists q, last a (Other 0) = P2p q /\ dial_addr_check c st a = DAOk (route c a) q).
Check (C10_step_preserves :
  forall c k L0 st o,
    StInv k L0 (acceptable c L0) st -> op_ok c L0 o ->
    StInv k L0 (acceptable c L0) (fst (step c k st o))).
Check (C10_evict_min :
  forall k s a sc v w,
  NoDup (keys s) ->
  snd (insert k s a sc v) = Evicted w ->
  let s' := fst (insert k s a sc v) in
  exists m,
    find a s = None /\ (cap k <= length s)%nat /\
    find w s = Some m /\ (forall b z, In (b, z) s -> (m <= z)%Z) /\ (m <= new_score k a sc)%Z /\
    find w s' = None /\ find a s' = Some (new_score k a sc) /\
    length s' = length s /\
    forall b, b <> w -> b <> a -> find b s' = find b s).
Check (C10_drop_only_below_min :
  forall k s a sc v,
  snd (insert k s a sc v) = Dropped ->
  fst (insert k s a sc v) = s /\ find a s = None /\ (cap k <= length s)%nat /\
  forall b z, In (b, z) s -> (new_score k a sc < z)%Z).
Check (C10_insert_frame :
  forall k s a sc v b,
  NoDup (keys s) -> b <> a ->
  find b (fst (insert k s a sc v)) = find b s \/
  (snd (insert k s a sc v) = Evicted b /\ find b (fst (insert k s a sc v)) = None)).
Check (C10_rescore_exact :
  forall k s a sc v z0,
  find a s = Some z0 -> sc <> 0%Z ->
  let s' := fst (insert k s a sc v) in
  snd (insert k s a sc v) = Updated /\
  find a s' = Some sc /\ keys s' = keys s /\
  forall b, b <> a -> find b s' = find b s).
Check (C10_rediscovery_keeps :
  forall k s l victims,
  (forall a, In a l -> find a s <> None) -> insert_all k s l victims = (s, false)).
Check (C10_additions_keep_scores :
  forall k s l vs b z,
  NoDup (keys s) -> (length s + length l <= cap k)%nat -> find b s = Some z ->
  find b (fst (insert_all k s l vs)) = Some z /\ snd (insert_all k s l vs) = false).
Check (C10_dial_order :
  forall limit s,
  let r := addresses limit s in
  length r = Nat.min limit (length s) /\
  StronglySorted ge_score r /\
  (forall x, In x r -> In x s) /\
  (forall x y, In x r -> In y s -> ~ In y r -> (snd y <= snd x)%Z)).
Check (C10_dial_order_validator_sound :
  forall limit s obs,
  addresses_ok limit s obs = true ->
  length obs = Nat.min limit (length s) /\
  (forall a z, In (a, z) obs -> find a s = Some z) /\
  NoDup (map fst obs) /\
  StronglySorted (fun x y => (y <= x)%Z) (map snd obs) /\
  (forall b y, In (b, y) s -> ~ In b (map fst obs) -> forall a z, In (a, z) obs -> (y <= z)%Z)).
Check (C10_dial_order_validator_complete :
  forall limit s, NoDup (keys s) -> addresses_ok limit s (addresses limit s) = true).
Check (C10_dial_tries :
  forall c k st peer outcome errs tcp ws qu t w q st',
  step c k st (ODial peer outcome errs tcp ws qu) = (st', RDial (DTried t w q)) ->
  let s := get_or_empty peer (bk st) in
  exists limit,
    free_capacity c st (length s) = Some limit /\
    peer <> local_peer c /\
    t = with_scores s tcp /\ w = with_scores s ws /\ q = with_scores s qu /\
    addresses_ok limit s (merge_desc (merge_desc t w) q) = true /\
    Permutation (merge_desc (merge_desc t w) q) (t ++ w ++ q) /\
    Forall (fun a => In a (keys s) /\ names peer a = true /\ route c a = TTcp /\ enabled c TTcp = true) tcp /\
    Forall (fun a => In a (keys s) /\ names peer a = true /\ route c a = TWs /\ enabled c TWs = true) ws /\
    Forall (fun a => In a (keys s) /\ names peer a = true /\ route c a = TQuic /\ enabled c TQuic = true) qu /\
    st' = set_bk st (put peer (dial_outcome k s peer outcome errs tcp ws qu) (bk st))).
Check (C10_free_capacity :
  forall c st n limit,
  free_capacity c st n = Some limit ->
  match max_out c with
  | Some m => (held st < m)%nat /\ limit = (m - held st)%nat
  | None => limit = n
  end).
Check (C10_dial_all_fail :
  forall k s peer errs tcp ws qu b,
  NoDup (keys s) -> NoDup (tcp ++ ws ++ qu) -> (forall a, In a (tcp ++ ws ++ qu) -> In a (keys s)) ->
  (forall e, error_score k e <> 0%Z) ->
  find b (dial_outcome k s peer 0 errs tcp ws qu) =
    match lookup_err b (tag_errs errs 0 tcp ++ tag_errs errs (length tcp) ws ++
                        tag_errs errs (length tcp + length ws) qu) with
    | Some e => Some (error_score k e)
    | None => find b s
    end).
Check (C10_dial_success :
  forall k s peer l j a e0 b,
  NoDup (keys s) -> NoDup (map fst l) -> (forall x, In x (map fst l) -> In x (keys s)) ->
  nth_error l j = Some (a, e0) -> names peer a = true ->
  (forall e, error_score k e <> 0%Z) -> sc_established k <> 0%Z ->
  find b (succeed_at k s peer l j) =
    if maddr_eqb b a then Some (sc_established k)
    else match lookup_err b (firstn j l) with
         | Some e => Some (error_score k e)
         | None => find b s
         end).
Check (C10_dial_mixed_outcome :
  forall k s peer before l j after a e0 b,
  NoDup (keys s) -> NoDup (map fst (before ++ l ++ after)) ->
  (forall x, In x (map fst (before ++ l ++ after)) -> In x (keys s)) ->
  nth_error l j = Some (a, e0) -> names peer a = true ->
  (forall e, error_score k e <> 0%Z) -> sc_established k <> 0%Z ->
  find b (mixed_outcome k s peer before l j after) =
    if maddr_eqb b a then Some (sc_established k)
    else match lookup_err b (before ++ firstn j l ++ after) with
         | Some e => Some (error_score k e)
         | None => find b s
         end).
Check (C10_dial_outcome_is_mixed :
  forall k s peer j0 errs tcp ws qu,
  NoDup (tcp ++ ws ++ qu) -> (0 < length tcp + length ws + length qu)%nat ->
  exists before l j after,
    dial_outcome k s peer (S j0) errs tcp ws qu = mixed_outcome k s peer before l j after /\
    NoDup (map fst (before ++ l ++ after)) /\
    (forall x, In x (map fst (before ++ l ++ after)) -> In x (tcp ++ ws ++ qu)) /\
    (forall x, In x (before ++ l ++ after) -> In x (attempts errs tcp ws qu)) /\
    (j < length l)%nat /\
    (l = tag_errs errs 0 tcp \/ l = tag_errs errs (length tcp) ws \/
     l = tag_errs errs (length tcp + length ws) qu)).
Check (C10_dial_first_transport_failure_counts :
  forall k s peer errs a w ws b,
  NoDup (keys s) -> NoDup (a :: w :: ws) -> (forall x, In x (a :: w :: ws) -> In x (keys s)) ->
  names peer w = true -> (forall e, error_score k e <> 0%Z) -> sc_established k <> 0%Z ->
  (* outcome: position 1 (the first WebSocket address) wins, first other transport (TCP) reports
     its failure before the ConnectionOpened event: j0 = 1 + n * 1 with n = 2 + |ws| *)
  find b (dial_outcome k s peer (S (3 + length ws)) errs [a] (w :: ws) []) =
    if maddr_eqb b w then Some (sc_established k)
    else if maddr_eqb a b then Some (error_score k (err_at errs 0))
    else find b s).
Check (C10_error_variants_in_sync :
  ErrNames.model_variants = DialErrors.variants /\ ErrNames.model_gates = DialErrors.gates).
Check (C10_store_sites_in_sync :
  ErrNames.model_store_sites = DialErrors.store_sites).
Check (C10_entry_sites_in_sync :
  ErrNames.model_entry_sites = DialErrors.entry_sites /\
  ErrNames.listen_before_known DialErrors.new_call_order = true).
Check (C10_error_kinds_enumerated :
  forall e, In e all_dial_errors /\ err_of_code (err_code e) = Some e).
Check (C10_error_score_negative :
  forall e, (error_score default_scores e < 0)%Z /\ in_i32 (error_score default_scores e)).
Check (C10_address_error_only_banned :
  forall e, error_score default_scores e = I32_MIN <-> exists ae, e = EAddress ae).
Check (C10_error_score_table :
  forall e, error_score default_scores e =
    if is_address_error e then (- Z.of_N Consts.SCORE_ADDRESS_FAILURE_NEG)%Z
    else (- Z.of_N Consts.SCORE_CONNECTION_FAILURE_NEG)%Z).
Check (C10_success_score_positive :
  (0 < sc_established default_scores)%Z /\ in_i32 (sc_established default_scores) /\
  (0 <= bonus default_scores)%Z).
Check (C10_failure_rescores_any_kind :
  forall s a e v z0,
  find a s = Some z0 ->
  let sc := error_score default_scores e in
  let s' := fst (insert default_scores s a sc v) in
  (sc < 0)%Z /\ snd (insert default_scores s a sc v) = Updated /\
  find a s' = Some sc /\ keys s' = keys s /\ forall b, b <> a -> find b s' = find b s).
Check (C10_dial_failure_step :
  forall c k st a e v p z0,
  last a (Other 0) = P2p p -> find a (get_or_empty p (bk st)) = Some z0 -> error_score k e <> 0%Z ->
  let s := get_or_empty p (bk st) in
  let st' := fst (step c k st (ODialFailure a e v)) in
  (exists s', get p (bk st') = Some s' /\ find a s' = Some (error_score k e) /\ keys s' = keys s /\
              forall b, b <> a -> find b s' = find b s) /\
  (forall q, q <> p -> get q (bk st') = get q (bk st)) /\
  lst st' = lst st /\ held st' = held st /\ pubs st' = pubs st).
Check (C10_established_step :
  forall c k st peer a v z0,
  find (with_peer peer a) (get_or_empty peer (bk st)) = Some z0 -> sc_established k <> 0%Z ->
  let s := get_or_empty peer (bk st) in
  let st' := fst (step c k st (OEstablished peer a false v)) in
  (exists s', get peer (bk st') = Some s' /\ find (with_peer peer a) s' = Some (sc_established k) /\
              keys s' = keys s /\ forall b, b <> with_peer peer a -> find b s' = find b s) /\
  (forall q, q <> peer -> get q (bk st') = get q (bk st)) /\
  lst st' = lst st /\ held st' = held st /\ pubs st' = pubs st).
Check (C10_dial_address_known_step :
  forall c k st a res vs t q z0,
  dial_addr_check c st a = DAOk t q -> find a (get_or_empty q (bk st)) = Some z0 ->
  let sc := match res with Some e => error_score k e | None => sc_established k end in
  sc <> 0%Z ->
  let s := get_or_empty q (bk st) in
  let st' := fst (step c k st (ODialAddr a res vs)) in
  (exists s', get q (bk st') = Some s' /\ find a s' = Some sc /\ keys s' = keys s /\
              forall b, b <> a -> find b s' = find b s) /\
  (forall p, p <> q -> get p (bk st') = get p (bk st)) /\
  lst st' = lst st /\ held st' = held st /\ pubs st' = pubs st).
Check (C10_dial_address_new_step :
  forall c k st a res vs t q,
  dial_addr_check c st a = DAOk t q -> find a (get_or_empty q (bk st)) = None ->
  (length (get_or_empty q (bk st)) < cap k)%nat ->
  let sc := match res with Some e => error_score k e | None => sc_established k end in
  sc <> 0%Z ->
  let s := get_or_empty q (bk st) in
  let st' := fst (step c k st (ODialAddr a res vs)) in
  (exists s', get q (bk st') = Some s' /\ find a s' = Some sc /\ keys s' = keys s ++ [a] /\
              forall b, b <> a -> find b s' = find b s) /\
  (forall p, p <> q -> get p (bk st') = get p (bk st))).
Check (C10_dial_address_refused_step :
  forall c k st a vs t q,
  dial_addr_check c st a = DAOk t q ->
  let s := get_or_empty q (bk st) in
  let st' := fst (step c k st (ODialAddrRefused a vs)) in
  (forall z0, find a s = Some z0 -> get q (bk st') = Some s) /\
  (find a s = None -> (length s < cap k)%nat ->
     get q (bk st') = Some (s ++ [(a, new_score k a 0%Z)])) /\
  (forall p, p <> q -> get p (bk st') = get p (bk st)) /\
  lst st' = lst st /\ held st' = held st /\ pubs st' = pubs st).
Check (C10_saturation :
  forall a b,
  in_i32 (sat_add a b) /\
  ((a + b <= I32_MIN)%Z -> sat_add a b = I32_MIN) /\
  ((I32_MAX <= a + b)%Z -> sat_add a b = I32_MAX) /\
  ((I32_MIN <= a + b <= I32_MAX)%Z -> sat_add a b = (a + b)%Z)).
Check (C10_scores_in_i32 :
  forall c h p s a z,
  Forall op_i32 h -> get p (bk (final c default_scores h)) = Some s -> In (a, z) s -> in_i32 z).
Check (C10_ip_classes_exact :
  (forall ip, is_unspec (classify4 ip) = v4_unspecified ip /\ is_loop (classify4 ip) = v4_loopback ip /\
              is_glob (classify4 ip) = v4_global ip) /\
  (forall ip, is_unspec (classify6 ip) = v6_unspecified ip /\ is_loop (classify6 ip) = v6_loopback ip /\
              is_glob (classify6 ip) = v6_global ip)).
Check (C10_ip_predicates_concrete :
  (forall ip, first_ok (comp_of_ip4 ip) = negb (v4_unspecified ip)) /\
  (forall ip, first_ok (comp_of_ip6 ip) = negb (v6_unspecified ip)) /\
  (forall ip rest, is_global (comp_of_ip4 ip :: rest) = v4_global ip) /\
  (forall ip rest, is_global (comp_of_ip6 ip :: rest) = v6_global ip) /\
  (forall v a port w l lport rest,
     local_match (ipaddr_of v a) port (ip_comp w l :: Tcp lport :: rest) =
       N.eqb port lport &&
       ((Bool.eqb w v && N.eqb l a) ||
        (conc_unspecified w l && conc_loopback v a) ||
        (conc_loopback w l && conc_loopback v a)))).
Check (C10_mapped_ranges :
  forall c id, (id < 65536)%N -> classify4 (mapped4 c id) = c /\ classify6 (mapped6 c id) = c).
Check (C10_ip_network_version :
  DialErrors.ip_network_version = ErrNames.ip_network_0_4_1).
Check (C10_kad_embedding :
  forall p,
    (forall a b, KadStore.emb p a = KadStore.emb p b -> a = b) /\
    (forall a, is_global (KadStore.emb p a) = AddrModel.is_global a) /\
    (forall a, with_peer p (KadStore.emb p a) = KadStore.emb p (AddrModel.with_p2p a))).
Check (C10_kad_store_is_instance :
  forall p n s a sc v,
    (I32_MIN <= sc + AddrModel.S_BONUS <= I32_MAX)%Z ->
    insert (KadStore.kad_scores n) (KadStore.emb_store p s) (KadStore.emb p a) sc (option_map (KadStore.emb p) v) =
      (KadStore.emb_store p (fst (AddrModel.sinsert n s a sc v)),
       KadStore.emb_res p (snd (AddrModel.sinsert n s a sc v)))).
Check (C10_kad_addresses_is_instance :
  KadStore.kad_scores AddrModel.CAP = default_scores /\
  forall p limit s,
    addresses limit (KadStore.emb_store p s) = KadStore.emb_store p (AddrModel.reported limit s)).
Check (C10_kad_evict_min :
  forall (p : N) n s a sc v w,
    (I32_MIN <= sc + AddrModel.S_BONUS <= I32_MAX)%Z -> NoDup (map fst s) ->
    snd (AddrModel.sinsert n s a sc v) = AddrModel.IEvicted w ->
    exists m, AddrModel.sfind a s = None /\ (n <= length s)%nat /\ AddrModel.sfind w s = Some m /\
              (forall b z, In (b, z) s -> (m <= z)%Z) /\
              AddrModel.sfind w (fst (AddrModel.sinsert n s a sc v)) = None /\
              length (fst (AddrModel.sinsert n s a sc v)) = length s).
Check (C10_kad_rescore_exact :
  forall (p : N) n s a sc v z0,
    (I32_MIN <= sc + AddrModel.S_BONUS <= I32_MAX)%Z -> AddrModel.sfind a s = Some z0 -> sc <> 0%Z ->
    snd (AddrModel.sinsert n s a sc v) = AddrModel.IUpdated /\
    AddrModel.sfind a (fst (AddrModel.sinsert n s a sc v)) = Some sc /\
    forall b, b <> a -> AddrModel.sfind b (fst (AddrModel.sinsert n s a sc v)) = AddrModel.sfind b s).
Check (C10_public_addresses_local :
  forall c k h a, In a (pubs (final c k h)) ->
    a <> [] /\ last a (Other 0) = P2p (local_peer c)).
Check (C10_public_add :
  forall c ps a,
  match snd (public_add c ps a) with
  | PubEmpty => a = [] /\ fst (public_add c ps a) = ps
  | PubDifferent => (exists q, last a (Other 0) = P2p q /\ q <> local_peer c) /\ fst (public_add c ps a) = ps
  | PubAdded new =>
      a <> [] /\ pub_ok c (public_form c a) /\
      new = negb (existsb (maddr_eqb (public_form c a)) ps) /\
      fst (public_add c ps a) = if new then ps ++ [public_form c a] else ps
  end).
Check (C10_public_remove :
  forall a l x, NoDup l -> (In x (remove_addr a l) <-> In x l /\ x <> a)).
Check (C10_listen_set :
  forall c ls a,
  In a (listen_set c ls) <-> exists l, In l ls /\ (a = l \/ a = l ++ [P2p (local_peer c)])).
Check (C10_choice_resolvable :
  forall k s a sc, NoDup (keys s) -> (1 <= cap k)%nat ->
  snd (insert k s a sc (pick_min s)) <> BadChoice).
