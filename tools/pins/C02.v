From Coq Require Import List NArith Bool.
From V.gen Require Consts.
From V.gen Require NoiseKinds.
From V.C02 Require Import Model Proofs Tamper Duplex Buffer Kinds.
Import ListNotations.
Open Scope N_scope.
From V.C02 Require Import Properties.
Check (C02_read_exact :
  forall e, wf_env e -> forall bufs sc,
  pieces_ok 0 bufs sc (run_reader e bufs sc (reader_init (e_cfg e)))).
Check (C02_read_invariant :
  forall e, wf_env e -> forall bufs sc D r, Inv e D r -> run_ok e D bufs sc (run_reader e bufs sc r)).
Check (C02_poll_read_step :
  forall e b, wf_env e -> forall sc D r x r' sc',
  Inv e D r -> poll_read e b sc r = (x, r', sc') -> res_ok e b D sc x r').
Check (C02_fail_stop :
  forall e bufs sc r, fail_stop (is_failed r) (run_reader e bufs sc r)).
Check (C02_failed_repoll :
  forall e b sc r, r_state r = Failed -> poll_read e b sc r = (RErr E_INVALID, set_lp r false, sc)).
Check (C02_read_honest :
  forall c plains, 1 <= c_factor c -> c_mfl c + TAG <= SNOW_MAX -> plains_ok c plains ->
  forall bufs sc,
  let tr := run_reader (honest_env c plains) bufs sc (reader_init c) in
  pieces_ok 0 bufs sc tr /\ honest_ok (wire_len (honest plains)) (sum plains) 0 tr).
Check (C02_read_tamper :
  forall e j, wf_env e -> not_auth e j -> forall bufs sc,
  delivered (run_reader e bufs sc (reader_init (e_cfg e))) <= pstart (e_plains e) j).
Check (C02_read_clean_prefix :
  forall e, wf_env e -> forall bufs sc,
  delivered (run_reader e bufs sc (reader_init (e_cfg e))) <=
  clean_prefix (e_items e) (e_plains e) 0 (e_avail e)).
Check (C02_tamper_wf :
  forall c plains ts, 1 <= c_factor c -> c_mfl c + TAG <= SNOW_MAX -> plains_ok c plains ->
  wf_env (env_of c plains ts)).
Check (C02_nonce_discipline :
  forall e D r, wf_env e -> Inv2 e D r -> forall j, j < r_ctr r ->
  exists it p, nthI (e_items e) j = Some it /\ nthP (e_plains e) j = Some p /\
               i_hdr it = i_blen it /\ i_blen it = p + TAG /\ i_auth it = Some j).
Check (C02_nonce_step :
  forall e b sc r x r' sc', poll_read e b sc r = (x, r', sc') ->
  r_ctr r' = r_ctr r \/ (r_ctr r' = r_ctr r + 1 /\ exists n pos, x = RReady n pos)).
Check (C02_wire_grows :
  forall e e' D r, wf_env e -> ext e e' -> Inv2 e D r -> Inv2 e' D r).
Check (C02_read_pending_has_waker :
  forall e b sc r r' sc', poll_read e b sc r = (RPending, r', sc') -> r_lp r' = true).
Check (C02_buffer_window :
  forall e bufs sc r bf r' bf', Win bf r -> run_buf e bufs sc r bf = (r', bf') -> Win bf' r').
Check (C02_buffer_window_step :
  forall e b sc r bf x r' sc',
  Win bf r -> poll_read e b sc r = (x, r', sc') -> Win (poll_read_buf e b sc r bf) r').
Check (C02_buffer_slice :
  forall bf r fs, Win bf r -> r_offset r + fs <= r_nread r ->
  forall i, i < fs -> bf (r_offset r + i) = Some (r_wbase r + r_offset r + i)).
Check (C02_write_frames :
  forall c, 1 <= c_mfl c -> c_mfl c + TAG <= SNOW_MAX -> 1 <= c_wbuf c ->
  forall ops sc w tr wf ok, WInv c w -> run_writer c ops sc w = (tr, wf, ok) ->
  ok = true /\ WInv c wf /\ sum (w_frames wf) = sum (w_frames w) + accepted ops tr /\
  wrun_ok ops sc (w_cclosed w) tr /\ (w_cclosed w = true -> w_cclosed wf = true /\ w_sent wf = w_sent w)).
Check (C02_poll_write_step :
  forall c len sc w x w' sc',
  1 <= c_mfl c -> c_mfl c + TAG <= SNOW_MAX -> 1 <= c_wbuf c ->
  WInv c w -> poll_write c len sc w = (x, w', sc') ->
  wres_ok c len sc w x w' /\ w_cclosed w' = w_cclosed w /\ incl sc' sc).
Check (C02_write_progress :
  forall c len sc w x w' sc',
  1 <= c_mfl c -> c_mfl c + TAG <= SNOW_MAX -> 1 <= c_wbuf c -> 1 <= len ->
  w_state w = WIdle -> poll_write c len sc w = (x, w', sc') -> exists n, x = WReady n /\ 1 <= n).
Check (C02_write_empty :
  forall c sc w x w' sc', poll_write c 0 sc w = (x, w', sc') ->
  x = WReady 0 \/ (exists e, x = WErr e) \/ x = WPanic).
Check (C02_writer_monotone :
  forall c ops sc w tr wf ok, run_writer c ops sc w = (tr, wf, ok) -> wmono w wf).
Check (C02_flush_complete :
  forall c sc w x w' sc', WInv c w -> poll_flush c sc w = (x, w', sc') ->
  wres_ok c 0 sc w x w' /\ w_frames w' = w_frames w /\ w_cclosed w' = w_cclosed w /\
  (forall n, x = WReady n -> n = 0 /\ w_state w' = WIdle /\ w_sent w' = frames_wire (w_frames w')) /\
  incl sc' sc).
Check (C02_close_flushes :
  forall c, 1 <= c_mfl c -> c_mfl c + TAG <= SNOW_MAX -> 1 <= c_wbuf c ->
  forall sc w x w' sc', WInv c w -> poll_close c sc w = (x, w', sc') ->
  forall n, x = WReady n ->
  w_state w' = WIdle /\ w_frames w' = w_frames w /\ w_sent w' = frames_wire (w_frames w) /\
  w_cclosed w' = true /\
  forall ops sc2 tr wf ok, run_writer c ops sc2 w' = (tr, wf, ok) ->
    w_sent wf = frames_wire (w_frames w) /\ w_cclosed wf = true).
Check (C02_close_step :
  forall c sc w x w' sc', WInv c w -> poll_close c sc w = (x, w', sc') ->
  wres_ok c 0 sc w x w' /\ w_frames w' = w_frames w /\
  (w_cclosed w = true -> w_cclosed w' = true) /\
  (forall n, x = WReady n ->
     n = 0 /\ w_state w' = WIdle /\ w_sent w' = frames_wire (w_frames w') /\ w_cclosed w' = true) /\
  (w_cclosed w' = true -> w_cclosed w = false -> exists n, x = WReady n) /\
  incl sc' sc).
Check (C02_end_to_end :
  forall c, 1 <= c_factor c -> 1 <= c_mfl c -> c_mfl c + TAG <= SNOW_MAX -> 1 <= c_wbuf c ->
  forall ops wsc tr w ok, run_writer c ops wsc writer_init = (tr, w, ok) ->
  forall bufs rsc,
  let plains := w_frames w in
  let rt := run_reader (honest_env c plains) bufs rsc (reader_init c) in
  ok = true /\ sum plains = accepted ops tr /\
  (w_state w = WIdle -> sent_frames plains (w_sent w) = plains) /\
  pieces_ok 0 bufs rsc rt /\
  honest_ok (wire_len (honest plains)) (accepted ops tr) 0 rt).
Check (C02_halves_independent :
  forall c e ops rsc wsc r w recs r' w',
  run_mixed c e ops rsc wsc r w = (recs, r', w', true) ->
  rrecs_of recs = run_reader e (reads_of ops) rsc r /\
  wrecs_of recs = fst (fst (run_writer c (wops_of ops) wsc w)) /\
  w' = snd (fst (run_writer c (wops_of ops) wsc w))).
Check (C02_duplex_round :
  forall c rd F G tr F' G' ok,
  1 <= c_factor c -> 1 <= c_mfl c -> c_mfl c + TAG <= SNOW_MAX -> 1 <= c_wbuf c ->
  FInv c F -> FInv c G -> run_round c rd F G = (tr, F', G', ok) ->
  ok = true /\ FInv c F' /\ FInv c G' /\ round_ok c rd F tr /\
  f_D F' = f_D F + mdelivered (rt_mixed tr) /\ f_D G' = f_D G /\
  f_plains F' = f_plains F ++ rt_new tr /\
  (forall n, fst (rt_flush tr) = WReady n -> f_plains F' = w_frames (snd (rt_flush tr))) /\
  (forall hon : bool, (hon = true -> Clean F /\ no_tamper (rd_tampers rd)) ->
     mixed_ok hon (wire_len (f_items F')) (sum (f_plains F')) (f_D F) (rt_mixed tr)) /\
  (Clean F -> no_tamper (rd_tampers rd) -> Clean F') /\ (Clean G -> Clean G')).
Check (C02_duplex_rounds :
  forall c, 1 <= c_factor c -> 1 <= c_mfl c -> c_mfl c + TAG <= SNOW_MAX -> 1 <= c_wbuf c ->
  forall rds F0 F1 trs A B ok, GInv c F0 F1 -> run_rounds c rds F0 F1 = (trs, A, B, ok) ->
  ok = true /\ GInv c A B /\ length trs = length rds).
Check (C02_rounds_compose :
  forall c pre post F0 F1,
  run_rounds c (pre ++ post) F0 F1 =
  let '(t1, A, B, ok1) := run_rounds c pre F0 F1 in
  if ok1 then let '(t2, A', B', ok2) := run_rounds c post A B in (t1 ++ t2, A', B', ok2)
  else (t1, A, B, false)).
Check (C02_connection :
  forall c, 1 <= c_factor c -> 1 <= c_mfl c -> c_mfl c + TAG <= SNOW_MAX -> 1 <= c_wbuf c ->
  forall rds trs A B ok, run_rounds c rds (flow_init c) (flow_init c) = (trs, A, B, ok) ->
  ok = true /\ GInv c A B /\
  f_D A <= clean_prefix (f_items A) (f_plains A) 0 (f_avail A) /\
  f_D B <= clean_prefix (f_items B) (f_plains B) 0 (f_avail B)).
Check (C02_error_kinds :
  (V.gen.NoiseKinds.noise_kind_codes = table_codes /\
   forallb (fun k => ecode k =? k) V.gen.NoiseKinds.noise_kind_codes = true) /\
  V.gen.NoiseKinds.noise_read_kinds = [E_EOF; E_INVALID; E_PERM] /\
  V.gen.NoiseKinds.noise_write_kinds = [E_INVALID; E_WRITEZERO]).
Check (C02_constants :
  1 <= V.gen.Consts.MAX_FRAME_LEN /\ V.gen.Consts.MAX_FRAME_LEN + TAG <= SNOW_MAX /\
  1 <= V.gen.Consts.MAX_READ_AHEAD_FACTOR /\ 1 <= V.gen.Consts.MAX_WRITE_BUFFER_SIZE /\
  1 <= V.gen.Consts.TCP_NOISE_READ_AHEAD_DEFAULT /\ 1 <= V.gen.Consts.TCP_NOISE_WRITE_BUFFER_DEFAULT /\
  1 <= V.gen.Consts.WS_NOISE_READ_AHEAD_DEFAULT /\ 1 <= V.gen.Consts.WS_NOISE_WRITE_BUFFER_DEFAULT).
Check (C02_unfixed_refuted :
  exists len sc, fst (fst (poll_write (mkCfg 5 2 65520) len sc writer_init)) = WErr E_INVALID).
