From Coq Require Import List NArith Bool.
From V.gen Require Consts.
From V.C02 Require Import Model Proofs.
Import ListNotations.
Open Scope N_scope.
From V.C02 Require Import Properties.
Check (C02_read_exact :
  forall e, wf_env e -> forall bufs sc,
  pieces_ok 0 bufs (run_reader e bufs sc (reader_init (e_cfg e)))).
Check (C02_read_invariant :
  forall e, wf_env e -> forall bufs sc D r, Inv e D r -> run_ok e D bufs (run_reader e bufs sc r)).
Check (C02_poll_read_step :
  forall e b, wf_env e -> forall sc D r x r' sc',
  Inv e D r -> poll_read e b sc r = (x, r', sc') -> res_ok e b D x r').
Check (C02_fail_stop :
  forall e bufs sc r,
  fail_stop (match r_state r with Failed => true | _ => false end) (run_reader e bufs sc r)).
Check (C02_failed_repoll :
  forall e b sc r, r_state r = Failed -> poll_read e b sc r = (RErr E_INVALID, set_lp r false, sc)).
Check (C02_read_honest :
  forall c plains, 1 <= c_factor c -> c_mfl c + TAG <= SNOW_MAX -> plains_ok c plains ->
  forall bufs sc,
  let tr := run_reader (honest_env c plains) bufs sc (reader_init c) in
  pieces_ok 0 bufs tr /\ honest_ok (wire_len (honest plains)) (sum plains) 0 tr).
Check (C02_read_tamper :
  forall e j, wf_env e -> not_auth e j -> forall bufs sc,
  delivered (run_reader e bufs sc (reader_init (e_cfg e))) <= pstart (e_plains e) j).
Check (C02_read_pending_has_waker :
  forall e b sc r r' sc', poll_read e b sc r = (RPending, r', sc') -> r_lp r' = true).
Check (C02_write_frames :
  forall c, 1 <= c_mfl c -> c_mfl c + TAG <= SNOW_MAX -> 1 <= c_wbuf c ->
  forall ops sc w tr wf ok, WInv c w -> run_writer c ops sc w = (tr, wf, ok) ->
  ok = true /\ WInv c wf /\ sum (w_frames wf) = sum (w_frames w) + accepted ops tr /\
  wrun_ok ops tr /\ (w_cclosed w = true -> w_cclosed wf = true /\ w_sent wf = w_sent w)).
Check (C02_poll_write_step :
  forall c len sc w x w' sc',
  1 <= c_mfl c -> c_mfl c + TAG <= SNOW_MAX -> 1 <= c_wbuf c ->
  WInv c w -> poll_write c len sc w = (x, w', sc') ->
  wres_ok c len w x w' /\ w_cclosed w' = w_cclosed w).
Check (C02_write_progress :
  forall c len sc w x w' sc',
  1 <= c_mfl c -> c_mfl c + TAG <= SNOW_MAX -> 1 <= c_wbuf c -> 1 <= len ->
  w_state w = WIdle -> poll_write c len sc w = (x, w', sc') -> exists n, x = WReady n /\ 1 <= n).
Check (C02_write_empty :
  forall c sc w x w' sc', poll_write c 0 sc w = (x, w', sc') ->
  x = WReady 0 \/ (exists e, x = WErr e) \/ x = WPanic).
Check (C02_flush_complete :
  forall c sc w x w' sc', WInv c w -> poll_flush c sc w = (x, w', sc') ->
  wres_ok c 0 w x w' /\ w_frames w' = w_frames w /\ w_cclosed w' = w_cclosed w /\
  (forall n, x = WReady n -> n = 0 /\ w_state w' = WIdle /\ w_sent w' = frames_wire (w_frames w'))).
Check (C02_close_flushes :
  forall c, 1 <= c_mfl c -> c_mfl c + TAG <= SNOW_MAX -> 1 <= c_wbuf c ->
  forall sc w x w' sc', WInv c w -> poll_close c sc w = (x, w', sc') ->
  forall n, x = WReady n ->
  w_state w' = WIdle /\ w_frames w' = w_frames w /\ w_sent w' = frames_wire (w_frames w) /\
  w_cclosed w' = true /\
  forall ops sc2 tr wf ok, run_writer c ops sc2 w' = (tr, wf, ok) ->
    w_sent wf = frames_wire (w_frames w) /\ w_cclosed wf = true).
Check (C02_close_step :
  forall c sc w x w' sc', WInv c w -> poll_close c sc w = (x, w', sc') ->
  wres_ok c 0 w x w' /\ w_frames w' = w_frames w /\
  (w_cclosed w = true -> w_cclosed w' = true) /\
  (forall n, x = WReady n ->
     n = 0 /\ w_state w' = WIdle /\ w_sent w' = frames_wire (w_frames w') /\ w_cclosed w' = true) /\
  (w_cclosed w' = true -> w_cclosed w = false -> exists n, x = WReady n)).
Check (C02_end_to_end :
  forall c, 1 <= c_factor c -> 1 <= c_mfl c -> c_mfl c + TAG <= SNOW_MAX -> 1 <= c_wbuf c ->
  forall ops wsc tr w ok, run_writer c ops wsc writer_init = (tr, w, ok) ->
  forall bufs rsc,
  let plains := w_frames w in
  let rt := run_reader (honest_env c plains) bufs rsc (reader_init c) in
  ok = true /\ sum plains = accepted ops tr /\
  (w_state w = WIdle -> sent_frames plains (w_sent w) = plains) /\
  pieces_ok 0 bufs rt /\
  honest_ok (wire_len (honest plains)) (accepted ops tr) 0 rt).
Check (C02_constants :
  1 <= V.gen.Consts.MAX_FRAME_LEN /\ V.gen.Consts.MAX_FRAME_LEN + TAG <= SNOW_MAX /\
  1 <= V.gen.Consts.MAX_READ_AHEAD_FACTOR /\ 1 <= V.gen.Consts.MAX_WRITE_BUFFER_SIZE).
Check (C02_unfixed_refuted :
  exists len sc, fst (fst (poll_write (mkCfg 5 2 65520) len sc writer_init)) = WErr E_INVALID).
