From Coq Require Import List NArith Bool.
From V.gen Require Consts.
From V.common Require Import Varint.
Require V.C18.Model.
Require V.C02.Model V.C02.Proofs.
From V.C01 Require Import Model Proofs Early Symbolic.
Import ListNotations.
Open Scope N_scope.
From V.C01 Require Import Properties.
Check (C01_accept_sound :
  forall (on_curve : bytes -> bool) (verify : bytes -> bytes -> bytes -> bool)
         (pb rs : bytes) (dialed : option pid) (p : pid),
    accept on_curve verify pb rs dialed = Accept p ->
    exists pl kb sg k,
      decode_payload pb = Some pl /\ p_key pl = Some kb /\ p_sig pl = Some sg /\
      decode_pubkey on_curve kb = KeyOk k /\
      verify k (DOMAIN ++ rs) sg = true /\
      p = peer_id_of_key k /\ (dialed = None \/ dialed = Some p)).
Check (C01_key_admission :
  forall (on_curve : bytes -> bool) (kb k : bytes),
    decode_pubkey on_curve kb = KeyOk k ->
    exists m, decode_keymsg kb = Some m /\ k_type m = 1 /\ k_data m = k /\
              length k = 32%nat /\ on_curve k = true).
Check (C01_accept_complete :
  forall (on_curve : bytes -> bool) (verify : bytes -> bytes -> bytes -> bool)
         (pb rs : bytes) (dialed : option pid) (pl : payload) (kb sg k : bytes),
    decode_payload pb = Some pl -> p_key pl = Some kb -> p_sig pl = Some sg ->
    decode_pubkey on_curve kb = KeyOk k -> verify k (DOMAIN ++ rs) sg = true ->
    (dialed = None \/ dialed = Some (peer_id_of_key k)) ->
    accept on_curve verify pb rs dialed = Accept (peer_id_of_key k)).
Check (C01_reject_payload_undecodable :
  forall on_curve verify pb rs dialed,
    decode_payload pb = None -> accept on_curve verify pb rs dialed = Reject EPayload).
Check (C01_reject_key_missing :
  forall on_curve verify pb rs dialed pl,
    decode_payload pb = Some pl -> p_key pl = None ->
    accept on_curve verify pb rs dialed = Reject EKeyMissing).
Check (C01_reject_key_undecodable :
  forall on_curve verify pb rs dialed pl kb,
    decode_payload pb = Some pl -> p_key pl = Some kb -> decode_keymsg kb = None ->
    accept on_curve verify pb rs dialed = Reject EKeyProto).
Check (C01_reject_unknown_key_type :
  forall on_curve verify pb rs dialed pl kb m,
    decode_payload pb = Some pl -> p_key pl = Some kb -> decode_keymsg kb = Some m ->
    k_type m <> 1 -> accept on_curve verify pb rs dialed = Reject EKeyType).
Check (C01_reject_wrong_key_length :
  forall on_curve verify pb rs dialed pl kb m,
    decode_payload pb = Some pl -> p_key pl = Some kb -> decode_keymsg kb = Some m ->
    k_type m = 1 -> length (k_data m) <> 32%nat ->
    accept on_curve verify pb rs dialed = Reject EKeyInvalid).
Check (C01_reject_key_not_on_curve :
  forall on_curve verify pb rs dialed pl kb m,
    decode_payload pb = Some pl -> p_key pl = Some kb -> decode_keymsg kb = Some m ->
    k_type m = 1 -> on_curve (k_data m) = false ->
    accept on_curve verify pb rs dialed = Reject EKeyInvalid).
Check (C01_reject_sig_missing :
  forall on_curve verify pb rs dialed pl kb k,
    decode_payload pb = Some pl -> p_key pl = Some kb -> decode_pubkey on_curve kb = KeyOk k ->
    p_sig pl = None -> accept on_curve verify pb rs dialed = Reject ESigMissing).
Check (C01_reject_bad_signature :
  forall on_curve verify pb rs dialed pl kb k sg,
    decode_payload pb = Some pl -> p_key pl = Some kb -> decode_pubkey on_curve kb = KeyOk k ->
    p_sig pl = Some sg -> verify k (DOMAIN ++ rs) sg = false ->
    accept on_curve verify pb rs dialed = Reject ESigBad).
Check (C01_reject_dialed_mismatch :
  forall on_curve verify pb rs p q,
    verify_identity on_curve verify pb rs = Accept p -> q <> p ->
    accept on_curve verify pb rs (Some q) = Reject EMismatch).
Check (C01_reject_regardless_of_dialed :
  forall on_curve verify pb rs e dialed,
    verify_identity on_curve verify pb rs = Reject e ->
    accept on_curve verify pb rs dialed = Reject e).
Check (C01_payload_last_key_wins :
  forall k1 k2 sg,
    len k1 < 128 -> len k2 < 128 -> len sg < 128 ->
    decode_payload ([10; len k1] ++ k1 ++ [10; len k2] ++ k2 ++ [18; len sg] ++ sg)
    = Some (mkPayload (Some k2) (Some sg))).
Check (C01_payload_unknown_field_skipped :
  forall key v sg,
    len key < 128 -> v < 128 -> len sg < 128 ->
    decode_payload ([10; len key] ++ key ++ [24; v] ++ [18; len sg] ++ sg)
    = Some (mkPayload (Some key) (Some sg))).
Check (C01_tls_accept_sound :
  forall on_curve verify l spki expected p,
    tls_accept on_curve verify l spki expected = Accept p ->
    exists l1 kb sg l2 k,
      l = l1 ++ XP2p (Some (kb, sg)) :: l2 /\ Forall ignorable l1 /\ Forall ignorable l2 /\
      decode_pubkey on_curve kb = KeyOk k /\
      verify k (TLS_PREFIX ++ spki) sg = true /\
      p = peer_id_of_key k /\ (expected = None \/ expected = Some p)).
Check (C01_tls_accept_complete :
  forall on_curve verify l1 kb sg l2 k spki expected,
    Forall ignorable l1 -> Forall ignorable l2 ->
    decode_pubkey on_curve kb = KeyOk k -> verify k (TLS_PREFIX ++ spki) sg = true ->
    (expected = None \/ expected = Some (peer_id_of_key k)) ->
    tls_accept on_curve verify (l1 ++ XP2p (Some (kb, sg)) :: l2) spki expected = Accept (peer_id_of_key k)).
Check (C01_tls_dialed_mismatch :
  forall on_curve verify l spki p q,
    tls_verify on_curve verify l spki = Accept p -> q <> p ->
    tls_accept on_curve verify l spki (Some q) = Reject EMismatch).
Check (C01_tls_critical_or_duplicate_refused :
  forall on_curve verify spki expected p,
    (forall l, In (XOther true) l -> tls_accept on_curve verify l spki expected <> Accept p) /\
    (forall la c1 lb c2 lc,
       tls_accept on_curve verify (la ++ XP2p c1 :: lb ++ XP2p c2 :: lc) spki expected <> Accept p)).
Check (C01_non_ed25519_never_accepted :
  forall on_curve verify kb m,
    decode_keymsg kb = Some m -> k_type m <> 1 ->
    (forall pb pl rs d p, decode_payload pb = Some pl -> p_key pl = Some kb ->
       accept on_curve verify pb rs d <> Accept p) /\
    (forall l sg spki e p, In (XP2p (Some (kb, sg))) l -> tls_accept on_curve verify l spki e <> Accept p)).
Check (C01_tls_binding :
  forall (on_curve : bytes -> bool) (verify : bytes -> bytes -> bytes -> bool),
    (forall pk m m' sg, verify pk m sg = true -> verify pk m' sg = true -> m = m') ->
    forall l spki spki' e' p',
      tls_accept on_curve verify l spki' e' = Accept p' -> spki <> spki' ->
      forall e, tls_accept on_curve verify l spki e = Reject ETlsIssuer).
Check (C01_every_dial_checked :
  forall on_curve verify t addr_peer dialed ev p,
    dial_outcome on_curve verify t addr_peer dialed ev = Some (Accept p) ->
    p = dialed /\ authentic on_curve verify ev p).
Check (C01_transport_and_manager_checks :
  forall on_curve verify,
    (forall t dialed ev, t <> TWebRtc ->
       dial_outcome on_curve verify t (Some dialed) dialed ev =
       transport_verdict on_curve verify t (Some dialed) ev) /\
    (forall pb rs p dialed,
       verify_identity on_curve verify pb rs = Accept p -> dialed <> p ->
       transport_verdict on_curve verify TTcp None (EvNoise pb rs) = Some (Accept p) /\
       dial_outcome on_curve verify TTcp None dialed (EvNoise pb rs) = Some (Reject EMismatch)) /\
    (forall t addr_peer dialed ev r,
       dial_outcome on_curve verify t addr_peer dialed ev = Some r ->
       t = TTcp \/ (addr_peer <> None /\ (t = TWebSocket \/ t = TQuic)))).
Check (C01_inbound_authentic :
  forall on_curve verify t ev p,
    inbound_outcome on_curve verify t ev = Some (Accept p) -> authentic on_curve verify ev p).
Check (C01_handshake_framing :
  (forall b rest, len b < 65536 -> read_frame (frame b ++ rest) = Some (b, rest)) /\
  (forall s b r, bytes_ok s = true -> read_frame s = Some (b, r) -> s = frame b ++ r /\ len b < 65536) /\
  (forall s m1 m3 rest, bytes_ok s = true -> listener_reads s = Some (m1, m3, rest) ->
     s = frame m1 ++ frame m3 ++ rest) /\
  (forall m1 m3 rest, len m1 < 65536 -> len m3 < 65536 ->
     listener_reads (frame m1 ++ frame m3 ++ rest) = Some (m1, m3, rest))).
Check (C01_honest_message_sizes :
  forall sign idk static,
    length idk = 32%nat -> length (sign idk (DOMAIN ++ static)) = 64%nat ->
    length (honest_payload sign idk static) = 104%nat /\
    msg1_len = 32 /\ msg2_len 104 = 200 /\ msg3_len 104 = 168).
Check (C01_binding :
  forall (on_curve : bytes -> bool) (verify : bytes -> bytes -> bytes -> bool),
    (forall pk m m' sg, verify pk m sg = true -> verify pk m' sg = true -> m = m') ->
    forall pb rs rs' d' p',
      accept on_curve verify pb rs' d' = Accept p' -> rs <> rs' ->
      forall d, accept on_curve verify pb rs d = Reject ESigBad).
Check (C01_binding_needs_hypothesis :
  exists rs rs' p,
    rs <> rs' /\
    accept (fun _ => true) weak_verify weak_payload rs None = Accept p /\
    accept (fun _ => true) weak_verify weak_payload rs' None = Accept p).
Check (C01_accepted_id_determines_key :
  forall on_curve verify pb1 pb2 rs1 rs2 d1 d2 p,
    accept on_curve verify pb1 rs1 d1 = Accept p -> accept on_curve verify pb2 rs2 d2 = Accept p ->
    exists k pl1 pl2 kb1 kb2,
      decode_payload pb1 = Some pl1 /\ p_key pl1 = Some kb1 /\ decode_pubkey on_curve kb1 = KeyOk k /\
      decode_payload pb2 = Some pl2 /\ p_key pl2 = Some kb2 /\ decode_pubkey on_curve kb2 = KeyOk k).
Check (C01_verdict_from_decoded_fields :
  forall on_curve verify pb1 pb2 rs dialed pl1 pl2,
    decode_payload pb1 = Some pl1 -> decode_payload pb2 = Some pl2 ->
    p_key pl1 = p_key pl2 -> p_sig pl1 = p_sig pl2 ->
    accept on_curve verify pb1 rs dialed = accept on_curve verify pb2 rs dialed).
Check (C01_honest_accept :
  forall on_curve verify k sg rs,
    length k = 32%nat -> on_curve k = true -> len sg < 128 ->
    verify k (DOMAIN ++ rs) sg = true ->
    accept on_curve verify (encode_payload (V.C18.Model.encode_ed25519 k) sg) rs None
    = Accept (peer_id_of_key k)).
Check (C01_decoder_fuel_adequate :
  forall (l : bytes) (f s : nat),
    (fuel_for l <= f)%nat -> (fuel_for l <= s)%nat ->
    dec_payload f s (mkPayload None None) l = decode_payload l /\
    dec_keymsg f s (mkKeyMsg 0 []) l = decode_keymsg l).
Check (C01_transcript_dialer_partial :
  forall on_curve verify (H : list item -> bytes) (KDF : list bytes -> bytes)
         (pubk : N -> bytes) (dh : N -> bytes -> bytes),
    (forall a b, H a = H b -> a = b) ->
    forall D L a p,
      no_forgery on_curve verify H KDF pubk dh D L a ->
      snd (run_d on_curve verify H KDF pubk dh D a) = OAccept p ->
      a1 a = DMsg (d_msg1 pubk D) /\
      a2 a = DMsg (l_msg2 H KDF pubk dh L (d_msg1 pubk D)) /\
      check_dialed (dialed_of D) (verify_identity on_curve verify (pay L) (pubk (sta L))) = Accept p).
Check (C01_transcript_listener_partial :
  forall on_curve verify (H : list item -> bytes) (KDF : list bytes -> bytes)
         (pubk : N -> bytes) (dh : N -> bytes -> bytes),
    (forall a b, H a = H b -> a = b) ->
    forall D L a p,
      no_forgery on_curve verify H KDF pubk dh D L a ->
      run_l on_curve verify H KDF pubk dh L a = OAccept p ->
      let m2 := l_msg2 H KDF pubk dh L (d_msg1 pubk D) in
      a1 a = DMsg (d_msg1 pubk D) /\ a2 a = DMsg m2 /\
      a3 a = DMsg (mkM3 (d_cs3 H KDF pubk dh D m2 (pubk (sta L)))
                        (d_cp3 H KDF pubk dh D m2 (pubk (sta L)))) /\
      check_dialed (dialed_of L) (verify_identity on_curve verify (pay D) (pubk (sta D))) = Accept p).
Check (C01_transcript_identity_partial :
  forall on_curve verify (H : list item -> bytes) (KDF : list bytes -> bytes)
         (pubk : N -> bytes) (dh : N -> bytes -> bytes),
    (forall a b, H a = H b -> a = b) ->
    forall D L a p,
      no_forgery on_curve verify H KDF pubk dh D L a ->
      (snd (run_d on_curve verify H KDF pubk dh D a) = OAccept p ->
       exists pl kb sg k,
         decode_payload (pay L) = Some pl /\ p_key pl = Some kb /\ p_sig pl = Some sg /\
         decode_pubkey on_curve kb = KeyOk k /\ verify k (DOMAIN ++ pubk (sta L)) sg = true /\
         p = peer_id_of_key k /\ (dialed_of D = None \/ dialed_of D = Some p)) /\
      (run_l on_curve verify H KDF pubk dh L a = OAccept p ->
       exists pl kb sg k,
         decode_payload (pay D) = Some pl /\ p_key pl = Some kb /\ p_sig pl = Some sg /\
         decode_pubkey on_curve kb = KeyOk k /\ verify k (DOMAIN ++ pubk (sta D)) sg = true /\
         p = peer_id_of_key k /\ (dialed_of L = None \/ dialed_of L = Some p))).
Check (C01_transcript_tamper_partial :
  forall on_curve verify (H : list item -> bytes) (KDF : list bytes -> bytes)
         (pubk : N -> bytes) (dh : N -> bytes -> bytes),
    (forall a b, H a = H b -> a = b) ->
    forall D L a,
      no_forgery on_curve verify H KDF pubk dh D L a ->
      let m1 := d_msg1 pubk D in
      let m2 := l_msg2 H KDF pubk dh L m1 in
      let m3 := mkM3 (d_cs3 H KDF pubk dh D m2 (pubk (sta L))) (d_cp3 H KDF pubk dh D m2 (pubk (sta L))) in
      (a1 a <> DMsg m1 \/ a2 a <> DMsg m2 ->
         forall p, snd (run_d on_curve verify H KDF pubk dh D a) <> OAccept p) /\
      (a1 a <> DMsg m1 \/ a2 a <> DMsg m2 \/ a3 a <> DMsg m3 ->
         forall p, run_l on_curve verify H KDF pubk dh L a <> OAccept p)).
Check (C01_transcript_honest_partial :
  forall on_curve verify (H : list item -> bytes) (KDF : list bytes -> bytes)
         (pubk : N -> bytes) (dh : N -> bytes -> bytes),
    (forall x y, dh x (pubk y) = dh y (pubk x)) ->
    forall D L, pro D = pro L ->
      let a := forward on_curve verify H KDF pubk dh D L in
      no_forgery on_curve verify H KDF pubk dh D L a /\
      snd (run_d on_curve verify H KDF pubk dh D a) =
        outcome_of (check_dialed (dialed_of D) (verify_identity on_curve verify (pay L) (pubk (sta L)))) /\
      (decode_payload (pay L) <> None ->
       run_l on_curve verify H KDF pubk dh L a =
        outcome_of (check_dialed (dialed_of L) (verify_identity on_curve verify (pay D) (pubk (sta D)))))).
Check (C01_transcript_hash_instance :
  forall a b, H_inst a = H_inst b -> a = b).
Check (C01_webrtc_prologue_binds :
  forall on_curve verify (H : list item -> bytes) (KDF : list bytes -> bytes)
         (pubk : N -> bytes) (dh : N -> bytes -> bytes),
    (forall a b, H a = H b -> a = b) ->
    forall D L a,
      no_forgery on_curve verify H KDF pubk dh D L a ->
      (pro D <> pro L ->
       (forall p, snd (run_d on_curve verify H KDF pubk dh D a) <> OAccept p) /\
       (forall p, run_l on_curve verify H KDF pubk dh L a <> OAccept p)) /\
      (forall p, snd (run_d on_curve verify H KDF pubk dh D a) = OAccept p -> pro D = pro L) /\
      (forall p, run_l on_curve verify H KDF pubk dh L a = OAccept p -> pro D = pro L)).
Check (C01_xx_order :
  forall on_curve verify (H : list item -> bytes) (KDF : list bytes -> bytes)
         (pubk : N -> bytes) (dh : N -> bytes -> bytes),
    (forall a b, H a = H b -> a = b) ->
    (forall x y, dh x (pubk y) = dh y (pubk x)) ->
    forall D L,
      (pro D = pro L ->
       let a := withhold3 H KDF pubk dh D L in
       no_forgery on_curve verify H KDF pubk dh D L a /\
       snd (run_d on_curve verify H KDF pubk dh D a) =
         outcome_of (check_dialed (dialed_of D) (verify_identity on_curve verify (pay L) (pubk (sta L)))) /\
       run_l on_curve verify H KDF pubk dh L a = OIo) /\
      (forall a p, no_forgery on_curve verify H KDF pubk dh D L a ->
         run_l on_curve verify H KDF pubk dh L a = OAccept p ->
         fst (run_d on_curve verify H KDF pubk dh D a) <> None) /\
      (forall D', d_msg1 pubk D = d_msg1 pubk D' ->
         l_msg2 H KDF pubk dh L (d_msg1 pubk D) = l_msg2 H KDF pubk dh L (d_msg1 pubk D')) /\
      (forall m s pl pp,
         dec (KDF (d_ks1 dh D m)) (H (d_tr1 pubk D m)) (m2_s m) = Some s ->
         dec (KDF (d_ks2 dh D m s)) (H (d_tr2 pubk D m)) (m2_p m) = Some pl ->
         decode_payload pl = Some pp ->
         d_run on_curve verify H KDF pubk dh D (DMsg m) =
           (Some (mkM3 (d_cs3 H KDF pubk dh D m s) (d_cp3 H KDF pubk dh D m s)),
            outcome_of (check_dialed (dialed_of D) (verify_payload on_curve verify pp s))))).
Check (C01_early_data :
  forall on_curve verify (H : list item -> bytes) (KDF : list bytes -> bytes)
         (pubk : N -> bytes) (dh : N -> bytes -> bytes)
         (L : party) (a : attack) (e : V.C02.Model.renv) (bufs sc : list N),
    ((forall p, run_l on_curve verify H KDF pubk dh L a <> OAccept p) ->
     listener_app_bytes on_curve verify H KDF pubk dh L a e bufs sc = 0) /\
    (forall j, V.C02.Proofs.wf_env e -> V.C02.Proofs.not_auth e j ->
     listener_app_bytes on_curve verify H KDF pubk dh L a e bufs sc
       <= V.C02.Model.pstart (V.C02.Model.e_plains e) j)).
Check (C01_dy_attacker_knows_only_public :
  forall (pro : N -> list N) (asec bad : N -> Prop) tr t,
    DY.valid pro asec bad tr -> DY.knows asec bad tr t -> DY.pub asec bad t).
Check (C01_dy_knowledge_monotone :
  forall (asec bad : N -> Prop) tr tr' t,
    incl tr tr' -> DY.knows asec bad tr t -> DY.knows asec bad tr' t).
Check (C01_dy_secrets_never_leak :
  forall (pro : N -> list N) (asec bad : N -> Prop) tr,
    DY.valid pro asec bad tr ->
    (forall a e s, In (DY.NewD a e s) tr \/ In (DY.NewL a e s) tr ->
       ~ DY.knows asec bad tr (DY.TSk e) /\ ~ DY.knows asec bad tr (DY.TSk s)) /\
    (forall a, ~ bad a -> ~ DY.knows asec bad tr (DY.TIdSk a))).
Check (C01_dy_dialer_authenticates :
  forall (pro : N -> list N) (asec bad : N -> Prop) tr a e s P rs K,
    DY.valid pro asec bad tr -> In (DY.AcceptD a e s P rs K) tr -> ~ bad P ->
    In (DY.Signed P (DY.signed_part rs)) tr /\
    (exists e', In (DY.NewD P e' rs) tr \/ In (DY.NewL P e' rs) tr) /\
    ~ asec e /\ ~ asec rs /\
    (exists k y, K = DY.TMix (DY.TMix k (DY.dh e rs)) (DY.dh s y)) /\
    ~ DY.knows asec bad tr K).
Check (C01_dy_listener_authenticates :
  forall (pro : N -> list N) (asec bad : N -> Prop) tr a e s P rs K,
    DY.valid pro asec bad tr -> In (DY.AcceptL a e s P rs K) tr -> ~ bad P ->
    In (DY.Signed P (DY.signed_part rs)) tr /\
    (exists e', In (DY.NewD P e' rs) tr \/ In (DY.NewL P e' rs) tr) /\
    ~ asec e /\ ~ asec rs /\
    (exists k, K = DY.TMix k (DY.dh e rs)) /\
    ~ DY.knows asec bad tr K).
Check (C01_dy_dialer_agreement :
  forall (pro : N -> list N) (asec bad : N -> Prop) tr a e s P rs K,
    DY.valid pro asec bad tr -> In (DY.AcceptD a e s P rs K) tr -> ~ bad P ->
    exists y, K = DY.d_key e s y rs /\ In (DY.NewL P y rs) tr /\ In (DY.Answered P y rs e) tr /\
              pro e = pro y /\ DY.msg2_expected pro e y rs P = DY.msg2 pro P y rs e).
Check (C01_dy_listener_agreement :
  forall (pro : N -> list N) (asec bad : N -> Prop) tr a e s P rs K,
    DY.valid pro asec bad tr -> In (DY.AcceptL a e s P rs K) tr -> ~ bad P ->
    exists y, K = DY.l_key e s y rs /\ In (DY.NewD P y rs) tr /\ In (DY.AcceptD P y rs a s K) tr /\
              pro e = pro y).
Check (C01_dy_matching_sessions :
  forall (pro : N -> list N) (asec bad : N -> Prop) tr a e s P rs a' e' s' P' rs' K,
    DY.valid pro asec bad tr -> In (DY.AcceptD a e s P rs K) tr -> In (DY.AcceptL a' e' s' P' rs' K) tr ->
    rs = s' /\ rs' = s /\ (~ bad P -> a' = P) /\ (~ bad P' -> a = P')).
Check (C01_dy_secret_owner_unique :
  forall (pro : N -> list N) (asec bad : N -> Prop) tr ev1 ev2 x,
    DY.valid pro asec bad tr -> In ev1 tr -> In ev2 tr -> In x (DY.names ev1) -> In x (DY.names ev2) -> ev1 = ev2).
Check (C01_dy_honest_run :
  forall pro : N -> list N, pro 1 = pro 3 ->
  DY.valid pro DY.nobody DY.nobody (DY.honest_trace pro) /\
  In (DY.AcceptD 10 1 2 20 4 (DY.d_key 1 2 3 4)) (DY.honest_trace pro) /\
  In (DY.AcceptL 20 3 4 10 2 (DY.l_key 3 4 1 2)) (DY.honest_trace pro) /\
  DY.d_key 1 2 3 4 = DY.l_key 3 4 1 2).
