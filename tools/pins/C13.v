From Coq Require Import List NArith Bool.
From V.C13 Require Import Model Proofs.
Import ListNotations.
Open Scope N_scope.
From V.C13 Require Import Properties.
Check (C13_at_most_one :
  forall (cf : cfg) (evs : list ev) (r : N),
    (terms r (snd (run cf (init_pst, init_env) evs)) <= 1)%nat).
