From Coq Require Import List NArith Bool.
From V.C13 Require Import Model Proofs.
Import ListNotations.
Open Scope N_scope.
From V.C13 Require Import Properties.
Check (C13_at_most_one :
  forall (cf : cfg) (evs : list ev) (r : N),
    (terms r (snd (run cf (init_pst, init_env) evs)) <= 1)%nat).
Check (C13_exactly_one_settled_partial :
  forall (cf : cfg) (evs : list ev) (r : N),
    let res := run cf (init_pst, init_env) evs in
    settled (fst (fst res)) ->
    In (OSent r) (snd res) ->
    terms r (snd res) = 1%nat \/ In r (cancel_reqs evs)).
Check (C13_inbound_bound :
  forall (cf : cfg) (evs : list ev),
    match max_inb cf with
    | Some m => inbound_load (fst (fst (run cf (init_pst, init_env) evs))) <= m
    | None => True
    end).
Check (C13_unrepaired_refuted :
  exists s o,
    (let '(s1, o1) := h_send_unrepaired init_pst 0 true 3 10 false true 0 in
     let '(s2, o2) := h_send_unrepaired s1 0 true 2 20 false true 0 in
     let '(s3, o3) := h_established s2 0 true 0 in (s3, o1 ++ o2 ++ o3)) = (s, o) /\
    In (OSent 0) o /\ dials s = [] /\ active s = [(0, 1)] /\ terms 0 o = 0%nat).
