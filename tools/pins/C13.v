From Coq Require Import List NArith Bool.
From V.C13 Require Import Model Proofs Flush.
Import ListNotations.
Open Scope N_scope.
From V.C13 Require Import Properties.
Check (C13_at_most_one :
  forall (cf : cfg) (evs : list ev) (r : N),
    (terms r (snd (run cf (init_pst, init_env) evs)) <= 1)%nat).
Check (C13_exactly_one :
  forall (cf : cfg) (evs : list ev) (r : N),
    let res := run cf (init_pst, init_env) evs in
    quiescent (fst (fst res)) ->
    In (OSent r) (snd res) ->
    terms r (snd res) = 1%nat \/ In r (cancel_reqs evs)).
Check (C13_exactly_one_contract :
  forall (cf : cfg) (evs : list ev) (r : N),
    0 < tmo cf ->
    let res := run cf (init_pst, init_env) evs in
    discharged (grun cf g0 (run_steps cf (init_pst, init_env) evs)) ->
    In (OSent r) (snd res) ->
    terms r (snd res) = 1%nat \/ In r (cancel_reqs evs)).
Check (C13_exactly_one_flushed :
  forall (cf : cfg) (evs : list ev) (r : N),
    0 < tmo cf ->
    let g := grun cf g0 (run_steps cf (init_pst, init_env) evs) in
    let res := run cf (init_pst, init_env) (evs ++ flush_evs cf g) in
    In (OSent r) (snd res) ->
    terms r (snd res) = 1%nat \/ In r (cancel_reqs evs)).
Check (C13_flush_discharges :
  forall (cf : cfg) (evs : list ev) (ds cs : list N) (dt : N),
    0 < tmo cf -> tmo cf < dt ->
    let g := grun cf g0 (run_steps cf (init_pst, init_env) evs) in
    (forall p, In p (g_dials g) -> In p ds) -> (forall p, In p (g_conn g) -> In p cs) ->
    discharged (grun cf g0 (run_steps cf (init_pst, init_env) (evs ++ flush_of ds cs dt)))).
Check (C13_opens_on_connections :
  forall (cf : cfg) (evs : list ev) (sid p : N),
    0 < tmo cf ->
    let g := grun cf g0 (run_steps cf (init_pst, init_env) evs) in
    In (sid, p) (g_opens g) -> In p (g_conn g)).
Check (C13_exactly_one_settled :
  forall (cf : cfg) (evs : list ev) (r : N),
    let res := run cf (init_pst, init_env) evs in
    settled (fst (fst res)) ->
    In (OSent r) (snd res) ->
    terms r (snd res) = 1%nat \/ In r (cancel_reqs evs)).
Check (C13_inbound_bound :
  forall (cf : cfg) (evs : list ev),
    match max_inb cf with
    | Some m => inbound_load (fst (fst (run cf (init_pst, init_env) evs))) <= m
    | None => True
    end).
Check (C13_steps_flatten :
  forall (cf : cfg) (evs : list ev),
    snd (run cf (init_pst, init_env) evs) = outs_of (run_steps cf (init_pst, init_env) evs)).
Check (C13_payload :
  forall (cf : cfg) (evs : list ev) pre e o tg post (rid len tag : N),
    run_steps cf (init_pst, init_env) evs = pre ++ (e, o, tg) :: post ->
    In (OResp rid len tag) o ->
    exists k c,
      e = ERespond k len tag /\ tg = Some c /\
      In (OBind c rid) (outs_of pre) /\
      (forall rid', In (OBind c rid') (outs_of (run_steps cf (init_pst, init_env) evs)) -> rid' = rid) /\
      (forall c', In (OBind c' rid) (outs_of (run_steps cf (init_pst, init_env) evs)) -> c' = c)).
Check (C13_request_wire :
  forall (cf : cfg) (evs : list ev) pre p d (len tag : N) fb o tg post (rid c l t : N),
    run_steps cf (init_pst, init_env) evs = pre ++ (ESend p d len tag fb, o, tg) :: post ->
    In (OSent rid) o ->
    In (OBind c rid) (outs_of (run_steps cf (init_pst, init_env) evs)) ->
    In (OWire c l t) (outs_of (run_steps cf (init_pst, init_env) evs)) ->
    (l, t) = (len, tag) \/ exists n fl ft, fb = Some (n, fl, ft) /\ (l, t) = (fl, ft)).
Check (C13_feedback :
  forall (cf : cfg) (evs : list ev) e o tg (irid : N),
    In (e, o, tg) (run_steps cf (init_pst, init_env) evs) -> In (OFeed irid true) o ->
    exists c l t, In (OWireR c l t) o).
Check (C13_responder_once :
  forall (cf : cfg) (evs : list ev),
    let steps := run_steps cf (init_pst, init_env) evs in
    NoDup (req_chans steps) /\
    forall e o tg irid p len tag,
      In (e, o, tg) steps -> In (OReq irid p len tag) o ->
      exists k c rest, e = EInReq k len tag /\ tg = Some c /\ o = OReq irid p len tag :: rest /\ has_req rest = false).
Check (C13_channel_nothing_lost :
  forall (cap : nat) (o : list out) (ms : list rmove),
    let st := relay_run cap o ms in
    rl_delivered st ++ rl_queue st ++ rl_pending st = o /\ (length (rl_queue st) <= cap)%nat).
Check (C13_dial_refused_one_failure :
  forall (s : pst) (p len tag : N) fb (ok : bool) (dres sid : N),
    memN p (peers s) = false -> dial_accepted dres = false ->
    let r := h_send s p true len tag fb ok dres sid in
    snd r = [OSent (next_rid s); OFail (next_rid s) (E_DIAL_IMM dres)] /\
    dials (fst r) = dials s /\ active (fst r) = active s /\ pouts (fst r) = pouts s /\ futs (fst r) = futs s).
Check (C13_send_dial_step :
  forall (cf : cfg) (s : pst) (en : env) (p len tag : N) fb,
    memN p (peers s) = false ->
    let r := step cf (s, en) (ESend p true len tag fb) in
    let rid := next_rid s in
    (dial_accepted (dial_res cf en p) = true /\ snd (fst r) = [OSent rid; ODial p] /\
     dials (fst (fst (fst r))) = dials s ++ [(p, mkReq rid len tag fb)]) \/
    (dial_accepted (dial_res cf en p) = false /\
     snd (fst r) = [OSent rid; OFail rid (E_DIAL_IMM (dial_res cf en p))] /\
     dials (fst (fst (fst r))) = dials s /\ active (fst (fst (fst r))) = active s /\
     pouts (fst (fst (fst r))) = pouts s /\ futs (fst (fst (fst r))) = futs s)).
Check (C13_dial_res_cases :
  forall (cf : cfg) (en : env) (p : N),
    let r := dial_res cf en p in
    (r = D_SELF /\ selfp cf && (p =? SELF_PEER) = true) \/
    (selfp cf && (p =? SELF_PEER) = false /\
     ((r = D_NOADDR /\ (mview cf en p = 0 \/ mview cf en p = 4)) \/
      (r = D_CONNECTED /\ mview cf en p = 2) \/
      (r = D_INPROGRESS /\ (mview cf en p = 3 \/ mview cf en p = 5 \/ mview cf en p = 6)) \/
      (mview cf en p <> 0 /\ mview cf en p <> 2 /\ mview cf en p <> 3 /\ mview cf en p <> 4 /\
       mview cf en p <> 5 /\ mview cf en p <> 6 /\
       ((r = D_TASKCLOSED /\ mgr en = false) \/
        (r = D_CLOGGED /\ mgr en = true /\ a_clog (aux_of en) = true) \/
        (r = D_OK /\ mgr en = true /\ a_clog (aux_of en) = false)))))).
Check (C13_unrepaired_refuted :
  exists s o,
    (let '(s1, o1) := h_send_unrepaired init_pst 0 true 3 10 false true 0 in
     let '(s2, o2) := h_send_unrepaired s1 0 true 2 20 false true 0 in
     let '(s3, o3) := h_established s2 0 2 0 in (s3, o1 ++ o2 ++ o3)) = (s, o) /\
    In (OSent 0) o /\ dials s = [] /\ active s = [(0, 1)] /\ terms 0 o = 0%nat).
