From Coq Require Import List NArith Bool.
From V.C04 Require Model.
From V.C13 Require Import Model Proofs Flush Inbound Tables TwoNode TwoNodeProofs.
From V.Ts Require Model Proofs Answers Extra.
From V.Link Require Ts_C13.
Import ListNotations.
Open Scope N_scope.
From V.C13 Require Import Properties.
Check (C13_at_most_one :
  forall (cf : cfg) (evs : list ev) (r : N),
    (terms r (snd (run cf (init_pst, init_env) evs)) <= 1)%nat).
Check (C13_exactly_one :
  forall (cf : cfg) (evs : list ev) (r : N),
    let res := run cf (init_pst, init_env) evs in
    quiescent (fst (fst res)) ->
    In (OSent r) (snd res) ->
    terms r (snd res) = 1%nat \/ In r (cancel_reqs evs)).
Check (C13_exactly_one_contract :
  forall (cf : cfg) (evs : list ev) (r : N),
    0 < tmo cf ->
    let res := run cf (init_pst, init_env) evs in
    discharged (grun cf g0 (run_steps cf (init_pst, init_env) evs)) ->
    In (OSent r) (snd res) ->
    terms r (snd res) = 1%nat \/ In r (cancel_reqs evs)).
Check (C13_exactly_one_flushed :
  forall (cf : cfg) (evs : list ev) (r : N),
    0 < tmo cf ->
    let g := grun cf g0 (run_steps cf (init_pst, init_env) evs) in
    let res := run cf (init_pst, init_env) (evs ++ flush_evs cf g) in
    In (OSent r) (snd res) ->
    terms r (snd res) = 1%nat \/ In r (cancel_reqs evs)).
Check (C13_flush_discharges :
  forall (cf : cfg) (evs : list ev) (ds cs : list N) (dt : N),
    0 < tmo cf -> tmo cf < dt ->
    let g := grun cf g0 (run_steps cf (init_pst, init_env) evs) in
    (forall p, In p (g_dials g) -> In p ds) -> (forall p, In p (g_conn g) -> In p cs) ->
    discharged (grun cf g0 (run_steps cf (init_pst, init_env) (evs ++ flush_of ds cs dt)))).
Check (C13_opens_on_connections :
  forall (cf : cfg) (evs : list ev) (sid p : N),
    0 < tmo cf ->
    let g := grun cf g0 (run_steps cf (init_pst, init_env) evs) in
    In (sid, p) (g_opens g) -> In p (g_conn g)).
Check (C13_exactly_one_settled :
  forall (cf : cfg) (evs : list ev) (r : N),
    let res := run cf (init_pst, init_env) evs in
    settled (fst (fst res)) ->
    In (OSent r) (snd res) ->
    terms r (snd res) = 1%nat \/ In r (cancel_reqs evs)).
Check (C13_inbound_bound :
  forall (cf : cfg) (evs : list ev),
    match max_inb cf with
    | Some m => inbound_load (fst (fst (run cf (init_pst, init_env) evs))) <= m
    | None => True
    end).
Check (C13_steps_flatten :
  forall (cf : cfg) (evs : list ev),
    snd (run cf (init_pst, init_env) evs) = outs_of (run_steps cf (init_pst, init_env) evs)).
Check (C13_payload :
  forall (cf : cfg) (evs : list ev) pre e o tg post (rid len tag : N),
    run_steps cf (init_pst, init_env) evs = pre ++ (e, o, tg) :: post ->
    In (OResp rid len tag) o ->
    exists k c,
      e = ERespond k len tag /\ tg = Some c /\
      In (OBind c rid) (outs_of pre) /\
      (forall rid', In (OBind c rid') (outs_of (run_steps cf (init_pst, init_env) evs)) -> rid' = rid) /\
      (forall c', In (OBind c' rid) (outs_of (run_steps cf (init_pst, init_env) evs)) -> c' = c)).
Check (C13_request_wire :
  forall (cf : cfg) (evs : list ev) pre p d (len tag : N) fb o tg post (rid c l t : N),
    run_steps cf (init_pst, init_env) evs = pre ++ (ESend p d len tag fb, o, tg) :: post ->
    In (OSent rid) o ->
    In (OBind c rid) (outs_of (run_steps cf (init_pst, init_env) evs)) ->
    In (OWire c l t) (outs_of (run_steps cf (init_pst, init_env) evs)) ->
    (l, t) = (len, tag) \/ exists n fl ft, fb = Some (n, fl, ft) /\ (l, t) = (fl, ft)).
Check (C13_feedback :
  forall (cf : cfg) (evs : list ev) e o tg (irid : N),
    In (e, o, tg) (run_steps cf (init_pst, init_env) evs) -> In (OFeed irid true) o ->
    exists c l t, In (OWireR c l t) o).
Check (C13_responder_once :
  forall (cf : cfg) (evs : list ev),
    let steps := run_steps cf (init_pst, init_env) evs in
    NoDup (req_chans steps) /\
    forall e o tg irid p len tag,
      In (e, o, tg) steps -> In (OReq irid p len tag) o ->
      exists k c rest, e = EInReq k len tag /\ tg = Some c /\ o = OReq irid p len tag :: rest /\ has_req rest = false).
Check (C13_channel_nothing_lost :
  forall (cap : nat) (o : list out) (ms : list rmove),
    let st := relay_run cap o ms in
    rl_delivered st ++ rl_queue st ++ rl_pending st = o /\ (length (rl_queue st) <= cap)%nat).
Check (C13_dial_refused_one_failure :
  forall (s : pst) (p len tag : N) fb (ok : bool) (dres sid : N),
    memN p (peers s) = false -> dial_accepted dres = false ->
    let r := h_send s p true len tag fb ok dres sid in
    snd r = [OSent (next_rid s); OFail (next_rid s) (E_DIAL_IMM dres)] /\
    dials (fst r) = dials s /\ active (fst r) = active s /\ pouts (fst r) = pouts s /\ futs (fst r) = futs s).
Check (C13_send_dial_step :
  forall (cf : cfg) (s : pst) (en : env) (p len tag : N) fb,
    memN p (peers s) = false ->
    let r := step cf (s, en) (ESend p true len tag fb) in
    let rid := next_rid s in
    (dial_accepted (dial_res cf en p) = true /\ snd (fst r) = [OSent rid; ODial p] /\
     dials (fst (fst (fst r))) = dials s ++ [(p, mkReq rid len tag fb)]) \/
    (dial_accepted (dial_res cf en p) = false /\
     snd (fst r) = [OSent rid; OFail rid (E_DIAL_IMM (dial_res cf en p))] /\
     dials (fst (fst (fst r))) = dials s /\ active (fst (fst (fst r))) = active s /\
     pouts (fst (fst (fst r))) = pouts s /\ futs (fst (fst (fst r))) = futs s)).
Check (C13_dial_res_cases :
  forall (cf : cfg) (en : env) (p : N),
    let r := dial_res cf en p in
    (r = D_SELF /\ selfp cf && (p =? SELF_PEER) = true) \/
    (selfp cf && (p =? SELF_PEER) = false /\
     ((r = D_NOADDR /\ (mview cf en p = 0 \/ mview cf en p = 4)) \/
      (r = D_CONNECTED /\ mview cf en p = 2) \/
      (r = D_INPROGRESS /\ (mview cf en p = 3 \/ mview cf en p = 5 \/ mview cf en p = 6)) \/
      (mview cf en p <> 0 /\ mview cf en p <> 2 /\ mview cf en p <> 3 /\ mview cf en p <> 4 /\
       mview cf en p <> 5 /\ mview cf en p <> 6 /\
       ((r = D_TASKCLOSED /\ mgr en = false) \/
        (r = D_CLOGGED /\ mgr en = true /\ a_clog (aux_of en) = true) \/
        (r = D_OK /\ mgr en = true /\ a_clog (aux_of en) = false)))))).
Check (C13_unrepaired_refuted :
  exists s o,
    (let '(s1, o1) := h_send_unrepaired init_pst 0 true 3 10 false true 0 in
     let '(s2, o2) := h_send_unrepaired s1 0 true 2 20 false true 0 in
     let '(s3, o3) := h_established s2 0 2 0 in (s3, o1 ++ o2 ++ o3)) = (s, o) /\
    In (OSent 0) o /\ dials s = [] /\ active s = [(0, 1)] /\ terms 0 o = 0%nat).
Check (C13_response_wire :
  forall (cf : cfg) (evs : list ev) (c l t : N),
    let steps := run_steps cf (init_pst, init_env) evs in
    In (OWireR c l t) (outs_of steps) ->
    exists irid,
      (exists e o p lq tq, In (e, o, Some c) steps /\ In (OReq irid p lq tq) o) /\
      (exists k fb o, In (EURespond k l t fb, o, Some irid) steps)).
Check (C13_respond_once :
  forall (cf : cfg) (evs : list ev), NoDup (answer_ids (run_steps cf (init_pst, init_env) evs))).
Check (C13_reader_leaves_only_on_carrier_event :
  forall (cf : cfg) (s : pst) (en : env) (e : ev) (rd : rdr),
    let r := step cf (s, en) e in
    In rd (rdrs s) -> ~ In rd (rdrs (fst (fst (fst r)))) ->
    carrier_read e = true /\ snd r = Some (r_chan rd)).
Check (C13_silent_remotes_pin_slots :
  forall (cf : cfg) (m : N) (evs : list ev) (s : pst) (en : env),
    max_inb cf = Some m -> m <= N.of_nat (length (rdrs s)) ->
    let steps := run_steps cf (s, en) evs in
    forallb (fun x => negb (touches (map r_chan (rdrs s)) x)) steps = true ->
    rdrs (fst (fst (run cf (s, en) evs))) = rdrs s /\
    forall x, In x steps -> has_req (snd (fst x)) = false).
Check (C13_full_refuses :
  forall (cf : cfg) (m : N) (s : pst) (p c neg : N),
    max_inb cf = Some m -> m <= inbound_load s -> h_inopen cf s p c neg = (s, [])).
Check (C13_alloc_wrap :
  (forall r0 i j, i < USIZE -> j < USIZE -> impl_id r0 i = impl_id r0 j -> i = j) /\
  (forall r0 i, impl_id r0 (i + USIZE) = impl_id r0 i)).
Check (C13_tables_in_sync :
  (V.gen.C13Tables.enums = x_enums /\ V.gen.C13Tables.inner_to_outer = x_inner_to_outer /\
   V.gen.C13Tables.poll_next = x_poll_next /\ V.gen.C13Tables.reject_from = x_reject_from /\
   V.gen.C13Tables.handle_fns = x_handle_fns /\ V.gen.C13Tables.select_arms = x_select_arms /\
   V.gen.C13Tables.select_biased = x_select_biased /\ V.gen.C13Tables.service_arms = x_service_arms /\
   V.gen.C13Tables.command_arms = x_command_arms /\ V.gen.C13Tables.open_failure = x_open_failure /\
   V.gen.C13Tables.outbound_future = x_outbound_future /\ V.gen.C13Tables.inbound_future = x_inbound_future /\
   V.gen.C13Tables.inbound_bound = x_inbound_bound /\ V.gen.C13Tables.send_request = x_send_request /\
   V.gen.C13Tables.codec = x_codec /\ V.gen.C13Tables.channels = x_channels /\
   V.gen.C13Tables.builder_defaults = x_builder_defaults /\ V.gen.C13Tables.setters = x_setters /\
   V.gen.C13Tables.allocator = x_allocator /\ V.gen.C13Tables.build = x_build) /\
  map fst dial_codes = variants_of IMMEDIATE_DIAL_ERROR /\
  nodupN (map snd error_codes ++ map (fun x => E_DIAL_IMM (snd x)) dial_codes) = true /\
  forallb (fun x => N.eqb (openfail_code (fst (fst x))) (snd x)) open_failure_kinds = true).
Check (C13_carrier_contract :
  forall (cf : cfg) (l t : N) (cut : nat) (script : list V.C04.Model.rdev) (m : list N),
    deliver (codec_of cf) (firstn cut (frame_for cf l t)) script = RxFrame m -> m = bytes_of l t).
Check (C13_two_node_projection :
  forall (cfA cfB : cfg) (ms : list mv) (x : bool),
    let s := run2 (sys0 cfA cfB) ms in
    log x s = run_steps (if x then cfB else cfA) (init_pst, init_env) (evs_of (log x s))).
Check (C13_two_node_at_most_one :
  forall (cfA cfB : cfg) (ms : list mv) (x : bool) (r : N),
    (terms r (outs x (run2 (sys0 cfA cfB) ms)) <= 1)%nat).
Check (C13_two_node_exactly_one :
  forall (cfA cfB : cfg) (ms : list mv) (x : bool) (r : N),
    let s := run2 (sys0 cfA cfB) ms in
    settled (fst (n_st (nd x s))) -> In (OSent r) (outs x s) ->
    terms r (outs x s) = 1%nat \/ In r (cancel_reqs (evs_of (log x s)))).
Check (C13_two_node_responder_once :
  forall (cfA cfB : cfg) (ms : list mv) (x : bool), NoDup (req_chans (log x (run2 (sys0 cfA cfB) ms)))).
Check (C13_two_node_request_identical :
  forall (cfA cfB : cfg) (ms : list mv) (b : bool) e o (cr irid p lq tq : N),
    let s := run2 (sys0 cfA cfB) ms in
    In (e, o, Some cr) (log b s) -> In (OReq irid p lq tq) o -> linked s b cr = true ->
    exists k l t, In k (lks s) /\ k_a k = negb b /\ k_cr k = cr /\
                  In (OWire (k_cq k) l t) (outs (negb b) s) /\ bytes_of lq tq = bytes_of l t).
Check (C13_two_node_response_identical :
  forall (cfA cfB : cfg) (ms : list mv) (a : bool) (rid len tag c : N),
    let s := run2 (sys0 cfA cfB) ms in
    In (OResp rid len tag) (outs a s) -> In (OBind c rid) (outs a s) -> linked s a c = true ->
    exists k irid l' t' p lq tq l t,
      In k (lks s) /\ k_a k = a /\ k_cq k = c /\
      supplied (log (negb a) s) irid l' t' /\ bytes_of len tag = bytes_of l' t' /\
      origin (log (negb a) s) irid (k_cr k) /\
      In (OReq irid p lq tq) (outs (negb a) s) /\
      In (OWire c l t) (outs a s) /\ bytes_of lq tq = bytes_of l t).
Check (C13_two_node_request_wire :
  forall (cfA cfB : cfg) (ms : list mv) (a : bool) pre p d (len tag : N) fb o tg post (rid c l t : N),
    let s := run2 (sys0 cfA cfB) ms in
    log a s = pre ++ (ESend p d len tag fb, o, tg) :: post ->
    In (OSent rid) o -> In (OBind c rid) (outs a s) -> In (OWire c l t) (outs a s) ->
    (l, t) = (len, tag) \/ exists n fl ft, fb = Some (n, fl, ft) /\ (l, t) = (fl, ft)).
Check (C13_ledger_is_service_ledger :
  forall (cf : cfg) (ka : bool) (T0 n0 : N) (ms : list V.Link.Ts_C13.jmove),
  V.Link.Ts_C13.jtrace cf (V.Link.Ts_C13.j0 ka T0 n0) ms ->
  let g := grun cf g0 (run_steps cf (init_pst, init_env) (V.Link.Ts_C13.evs_of ms)) in
  let s := V.Ts.Model.final (V.Ts.Model.init ka T0 n0) (V.Link.Ts_C13.tr_of ms) in
  (forall sid p, In (sid, p) (g_opens g) ->
     (exists c, In (sid, (p, c)) (V.Ts.Model.s_pend s)) \/
     In (sid, p) (V.Link.Ts_C13.lost_run (V.Ts.Model.init ka T0 n0) (V.Link.Ts_C13.tr_of ms))) /\
  (forall q, In q (g_conn g) <-> V.Ts.Extra.hc (V.Ts.Model.s_ctxs s) q = true)).
Check (C13_opens_discharged_on_service :
  forall (cf : cfg) (ka : bool) (T0 n0 : N) (ms : list V.Link.Ts_C13.jmove),
  V.Link.Ts_C13.jtrace cf (V.Link.Ts_C13.j0 ka T0 n0) ms ->
  V.Ts.Model.s_pend (V.Ts.Model.final (V.Ts.Model.init ka T0 n0) (V.Link.Ts_C13.tr_of ms)) = [] ->
  V.Link.Ts_C13.lost_run (V.Ts.Model.init ka T0 n0) (V.Link.Ts_C13.tr_of ms) = [] ->
  g_opens (grun cf g0 (run_steps cf (init_pst, init_env) (V.Link.Ts_C13.evs_of ms))) = []).
Check (C13_exactly_one_on_service_model :
  forall (cf : cfg) (ka : bool) (T0 n0 : N) (ms : list V.Link.Ts_C13.jmove) (r : N),
  0 < tmo cf ->
  V.Link.Ts_C13.jtrace cf (V.Link.Ts_C13.j0 ka T0 n0) ms ->
  V.Ts.Model.s_pend (V.Ts.Model.final (V.Ts.Model.init ka T0 n0) (V.Link.Ts_C13.tr_of ms)) = [] ->
  V.Link.Ts_C13.lost_run (V.Ts.Model.init ka T0 n0) (V.Link.Ts_C13.tr_of ms) = [] ->
  let g := grun cf g0 (run_steps cf (init_pst, init_env) (V.Link.Ts_C13.evs_of ms)) in
  g_dials g = [] ->
  (forall x, In x (g_live g) -> snd x <= g_now g) ->
  let res := run cf (init_pst, init_env) (V.Link.Ts_C13.evs_of ms) in
  In (OSent r) (snd res) ->
  terms r (snd res) = 1%nat \/ In r (cancel_reqs (V.Link.Ts_C13.evs_of ms))).
Check (C13_exactly_one_on_service_model_single :
  forall (cf : cfg) (ka : bool) (T0 n0 : N) (ms : list V.Link.Ts_C13.jmove) (r : N),
  0 < tmo cf ->
  V.Link.Ts_C13.jtrace cf (V.Link.Ts_C13.j0 ka T0 n0) ms ->
  V.Ts.Model.feasible 1 V.Ts.Model.env0 (V.Ts.Model.init ka T0 n0) (V.Link.Ts_C13.tr_of ms) = true ->
  V.Ts.Model.s_pend (V.Ts.Model.final (V.Ts.Model.init ka T0 n0) (V.Link.Ts_C13.tr_of ms)) = [] ->
  let g := grun cf g0 (run_steps cf (init_pst, init_env) (V.Link.Ts_C13.evs_of ms)) in
  g_dials g = [] ->
  (forall x, In x (g_live g) -> snd x <= g_now g) ->
  let res := run cf (init_pst, init_env) (V.Link.Ts_C13.evs_of ms) in
  In (OSent r) (snd res) ->
  terms r (snd res) = 1%nat \/ In r (cancel_reqs (V.Link.Ts_C13.evs_of ms))).
Check (C13_service_silent_close_loses_open :
  let ms := V.Link.Ts_C13.ms_lost in
  let cf := V.Link.Ts_C13.cf_ex in
  V.Link.Ts_C13.jtrace cf (V.Link.Ts_C13.j0 true 1000 0) ms /\
  V.Ts.Model.feasible 2 V.Ts.Model.env0 (V.Ts.Model.init true 1000 0) (V.Link.Ts_C13.tr_of ms) = true /\
  V.Ts.Model.s_pend (V.Ts.Model.final (V.Ts.Model.init true 1000 0) (V.Link.Ts_C13.tr_of ms)) = [] /\
  V.Link.Ts_C13.lost_run (V.Ts.Model.init true 1000 0) (V.Link.Ts_C13.tr_of ms) = [(0, 7)] /\
  g_opens (grun cf g0 (run_steps cf (init_pst, init_env) (V.Link.Ts_C13.evs_of ms))) = [(0, 7)] /\
  terms 0 (snd (run cf (init_pst, init_env) (V.Link.Ts_C13.evs_of ms))) = 0%nat).
Check (C13_service_joint_history_nonvacuous :
  let ms := V.Link.Ts_C13.ms_ok in
  let cf := V.Link.Ts_C13.cf_ex in
  V.Link.Ts_C13.jtrace cf (V.Link.Ts_C13.j0 true 1000 0) ms /\
  V.Ts.Model.s_pend (V.Ts.Model.final (V.Ts.Model.init true 1000 0) (V.Link.Ts_C13.tr_of ms)) = [] /\
  V.Link.Ts_C13.lost_run (V.Ts.Model.init true 1000 0) (V.Link.Ts_C13.tr_of ms) = [] /\
  grun cf g0 (run_steps cf (init_pst, init_env) (V.Link.Ts_C13.evs_of ms)) = mkG 0 [] [] [] [] /\
  snd (run cf (init_pst, init_env) (V.Link.Ts_C13.evs_of ms)) =
    [OSent 0; OOpen 0 5; OBind 0 0; OWire 0 3 9; OResp 0 4 8; OSent 1; OOpen 1 5; OFail 1 4]).
Check (C13_task_contract_empties_service :
  forall (s0 : V.Ts.Model.st) (tr : list (N * V.Ts.Model.ev)),
  V.Ts.Answers.pend_inv s0 -> V.Ts.Model.s_pend s0 = [] -> V.Ts.Proofs.nowrap s0 tr ->
  V.Link.Ts_C13.task_contract s0 tr ->
  V.Ts.Model.s_pend (V.Ts.Model.final s0 tr) = []).
Check (C13_exactly_one_on_service_model_contract :
  forall (cf : cfg) (ka : bool) (T0 n0 : N) (ms : list V.Link.Ts_C13.jmove) (r : N),
  0 < tmo cf ->
  V.Link.Ts_C13.jtrace cf (V.Link.Ts_C13.j0 ka T0 n0) ms ->
  V.Ts.Proofs.nowrap (V.Ts.Model.init ka T0 n0) (V.Link.Ts_C13.tr_of ms) ->
  V.Link.Ts_C13.task_contract (V.Ts.Model.init ka T0 n0) (V.Link.Ts_C13.tr_of ms) ->
  V.Link.Ts_C13.lost_run (V.Ts.Model.init ka T0 n0) (V.Link.Ts_C13.tr_of ms) = [] ->
  let g := grun cf g0 (run_steps cf (init_pst, init_env) (V.Link.Ts_C13.evs_of ms)) in
  g_dials g = [] ->
  (forall x, In x (g_live g) -> snd x <= g_now g) ->
  let res := run cf (init_pst, init_env) (V.Link.Ts_C13.evs_of ms) in
  In (OSent r) (snd res) ->
  terms r (snd res) = 1%nat \/ In r (cancel_reqs (V.Link.Ts_C13.evs_of ms))).
Check (C13_service_contract_nonvacuous :
  V.Link.Ts_C13.task_contract (V.Ts.Model.init true 1000 0) (V.Link.Ts_C13.tr_of V.Link.Ts_C13.ms_ok) /\
  V.Ts.Proofs.nowrap (V.Ts.Model.init true 1000 0) (V.Link.Ts_C13.tr_of V.Link.Ts_C13.ms_ok)).
