From Coq Require Import List NArith Bool Sorted.
From V.gen Require Consts.
From V.Ts Require Import Model Proofs Answers Extra Exact Multi MultiProofs Report ReportProofs ReportDead ReportDeadProofs.
From V.Mgr Require Model.
From V.C06 Require Compose08.
From V.Link Require C06_C08.
From V.C07 Require Model Compose.
From V.Link Require C07_C06.
Import ListNotations.
Open Scope N_scope.
From V.C08 Require Import Properties.
Check (C08_stream_wellformed :
  forall ka T n0 tr q,
  feasible 2 env0 (init ka T n0) tr = true ->
  exists b, wf_run false (pevs q (concat (run (init ka T n0) tr))) = Some b).
Check (C08_alternation :
  forall ka T n0 tr q,
  feasible 2 env0 (init ka T n0) tr = true ->
  alternates false (conn_evs q (concat (run (init ka T n0) tr)))).
Check (C08_step_view :
  forall e s dt i,
  conn_inv e (s_ctxs s) (s_pend s) -> ev_ok 2 e s i = true ->
  conn_inv (env_step e i) (s_ctxs (fst (step s dt i))) (s_pend (fst (step s dt i))) /\
  forall q, wf_run (has_conn q (e_live e)) (pevs q (snd (step s dt i))) =
            Some (has_conn q (e_live (env_step e i)))).
Check (C08_ids_fresh :
  forall tr s,
  nowrap s tr ->
  StronglySorted N.lt (ret_ids (concat (run s tr))) /\
  Forall (fun i => s_next s <= i) (ret_ids (concat (run s tr)))).
Check (C08_ids_unique_mod_2_64 :
  forall tr s,
  s_next s < ID_MOD -> draws tr <= ID_MOD -> NoDup (ret_ids (concat (run s tr)))).
Check (C08_id_counter_mod_2_64 :
  ID_MOD = 2 ^ 64 /\
  forall s dt e, s_next s < ID_MOD ->
  exists d, d <= draw_of e /\ s_next (fst (step s dt e)) = (s_next s + d) mod ID_MOD /\
            (ret_ids (snd (step s dt e)) = [] \/ (ret_ids (snd (step s dt e)) = [s_next s] /\ d = 1))).
Check (C08_channel_clogged :
  forall s dt p,
  s_pend (fst (step s dt (EOpenFull p))) = s_pend s /\
  ret_ids (snd (step s dt (EOpenFull p))) = [] /\
  (forall c id, ~ In (OCmd c id) (snd (step s dt (EOpenFull p)))) /\
  (exists r, In (ORet r 0) (snd (step s dt (EOpenFull p))) /\ (r = 1 \/ r = 2 \/ r = 3))).
Check (C08_primary_only :
  forall e s dt i c id,
  conn_inv e (s_ctxs s) (s_pend s) -> In (OCmd c id) (snd (step s dt i)) ->
  exists p, i = EOpen p /\ hd_error (live_of p (e_live e)) = Some c /\ id = s_next s /\
            In (ORet 0 id) (snd (step s dt i))).
Check (C08_answered_at_most_once :
  forall ka T n0 tr,
  nowrap (init ka T n0) tr ->
  NoDup (ans_ids (concat (run (init ka T n0) tr))) /\
  forall id, In id (ans_ids (concat (run (init ka T n0) tr))) -> n0 <= id).
Check (C08_answer_consumes :
  forall s dt e, pend_inv s -> nowrap1 s e -> ans_ok s (fst (step s dt e)) (snd (step s dt e))).
Check (C08_open_in_flight :
  forall s dt e c id,
  pend_inv s -> In (OCmd c id) (snd (step s dt e)) ->
  exists p, pfind id (s_pend (fst (step s dt e))) = Some (p, c)).
Check (C08_in_flight_until_answered_or_closed :
  forall s dt e id k,
  pfind id (s_pend s) = Some k ->
  pfind id (s_pend (fst (step s dt e))) = Some k \/ In id (ans_ids (snd (step s dt e))) \/
  exists p, e = EClosed p (snd k)).
Check (C08_open_resolution :
  forall tr s c id,
  pend_inv s -> nowrap s tr -> In (OCmd c id) (concat (run s tr)) ->
  (exists p, pfind id (s_pend (final s tr)) = Some (p, c)) \/
  In id (ans_ids (concat (run s tr))) \/
  exists dt p, In (dt, EClosed p c) tr).
Check (C08_open_answered :
  forall tr ka T n0 c id,
  nowrap (init ka T n0) tr ->
  In (OCmd c id) (concat (run (init ka T n0) tr)) ->
  pfind id (s_pend (final (init ka T n0) tr)) = None ->
  (count_occ N.eq_dec (ans_ids (concat (run (init ka T n0) tr))) id <= 1)%nat /\
  (count_occ N.eq_dec (ans_ids (concat (run (init ka T n0) tr))) id = 1%nat \/
   exists dt p, In (dt, EClosed p c) tr)).
Check (C08_report_no_loss :
  forall l nproto cap p ch,
  nth_error (r_ch (rfinal (rinit nproto cap) l)) p = Some ch ->
  got_all p l (rrun (rinit nproto cap) l) ++ rq ch ++ map snd (rw ch) =
  sent_all p l (rrun (rinit nproto cap) l)).
Check (C08_report_channel_invariant :
  forall l nproto cap, rinv (rfinal (rinit nproto cap) l)).
Check (C08_report_delivered :
  forall rl nproto cap p,
  (1 <= cap)%nat -> (p < nproto)%nat ->
  let n := backlog_p (rfinal (rinit nproto cap) rl) p in
  let rl' := rl ++ repeat (RDrain (N.of_nat p) 1) n in
  got_all p rl' (rrun (rinit nproto cap) rl') = sent_all p rl (rrun (rinit nproto cap) rl)).
Check (C08_report_default_capacity :
  (1 <= N.to_nat V.gen.Consts.DEFAULT_CHANNEL_SIZE)%nat).
Check (C08_answer_event_resolves :
  forall tr1 dt a tr2 ka T n0 c id,
  nowrap (init ka T n0) (tr1 ++ (dt, a) :: tr2) ->
  In (OCmd c id) (concat (run (init ka T n0) tr1)) ->
  (exists m, a = ESubOut id m) \/ a = ESubFail id ->
  pfind id (s_pend (final (init ka T n0) (tr1 ++ (dt, a) :: tr2))) = None).
Check (C08_open_answered_when_delivered :
  forall tr1 dt a tr2 ka T n0 c id,
  nowrap (init ka T n0) (tr1 ++ (dt, a) :: tr2) ->
  In (OCmd c id) (concat (run (init ka T n0) tr1)) ->
  (exists m, a = ESubOut id m) \/ a = ESubFail id ->
  let tr := tr1 ++ (dt, a) :: tr2 in
  (count_occ N.eq_dec (ans_ids (concat (run (init ka T n0) tr))) id <= 1)%nat /\
  (count_occ N.eq_dec (ans_ids (concat (run (init ka T n0) tr))) id = 1%nat \/
   exists dt' p, In (dt', EClosed p c) tr)).
Check (C08_report_layer_conservative :
  forall l s bs,
  all_base l = Some bs ->
  dfinal (mkD s [] []) l = mkD (rfinal s bs) [] [] /\ drun (mkD s [] []) l = map lift (rrun s bs)).
Check (C08_established_skips_dead :
  forall d c mask,
  busy (d_s d) c = false -> d_gone d = [] ->
  let d' := fst (dstep d (DEst c mask)) in
  let out := snd (dstep d (DEst c mask)) in
  do_code out = (if busy (d_s d') c then 1 else 0) /\
  d_dead d' = d_dead d /\
  forall p ch', nth_error (r_ch (d_s d')) p = Some ch' ->
    exists ch, nth_error (r_ch (d_s d)) p = Some ch /\
               ch' = if is_dead d (N.of_nat p) then ch else send_one (r_cap (d_s d)) c (IEst c) ch).
Check (C08_closed_reaches_live :
  forall d c,
  busy (d_s d) c = false -> d_gone d = [] ->
  let d' := fst (dstep d (DBase (RClosed c))) in
  do_code (snd (dstep d (DBase (RClosed c)))) <> 2 /\
  d_dead d' = d_dead d /\
  forall p ch', nth_error (r_ch (d_s d')) p = Some ch' ->
    exists ch, nth_error (r_ch (d_s d)) p = Some ch /\
               ch' = if is_dead d (N.of_nat p) then ch else send_one (r_cap (d_s d)) c (IClosed c) ch).
Check (C08_established_closed_paired :
  forall l nproto cap p ch,
  nth_error (r_ch (d_s (dfinal (dinit nproto cap) l))) p = Some ch ->
  is_dead (dfinal (dinit nproto cap) l) (N.of_nat p) = false ->
  filter is_conn_item (racc ch) = conn_reports l (drun (dinit nproto cap) l)).
Check (C08_no_connection_given_up :
  forall d o, d_gone d = [] -> d_gone (fst (dstep d o)) = []).
Check (C08_established_before_fix_refuted :
  let l := [DKill 0; DEst 7 2; DBase (RClosed 7); DBase (RDrain 1 9)] in
  (map do_code (drun_before_fix (dinit 2 2) l) = [0; 3; 2; 0] /\
   map do_got (drun_before_fix (dinit 2 2) l) = [[]; []; []; [IEst 7]]) /\
  (map do_code (drun (dinit 2 2) l) = [0; 0; 3; 0] /\
   map do_got (drun (dinit 2 2) l) = [[]; []; []; [IEst 7; IClosed 7]])).
Check (C08_established_before_fix_observation :
  forall d c mask,
  d_dead d <> [] -> busy (d_s d) c = false -> existsb (N.eqb c) (d_gone d) = false ->
  let d' := fst (dstep_before_fix d (DEst c mask)) in
  do_code (snd (dstep_before_fix d (DEst c mask))) = 3 /\
  d_dead d' = d_dead d /\ d_gone d' = c :: d_gone d /\
  (forall p ch', nth_error (r_ch (d_s d')) p = Some ch' ->
     exists ch, nth_error (r_ch (d_s d)) p = Some ch /\ rw ch' = rw ch /\ rdel ch' = rdel ch /\
       (ch' = ch \/
        (rq ch' = rq ch ++ [IEst c] /\ racc ch' = racc ch ++ [IEst c] /\
         N.testbit mask (N.of_nat p) = true /\ is_dead d (N.of_nat p) = false /\
         rw ch = [] /\ (length (rq ch) < r_cap (d_s d))%nat)))).
Check (C08_no_closed_without_report :
  forall d o c p ch ch',
  nth_error (r_ch (d_s d)) p = Some ch -> nth_error (r_ch (d_s (fst (dstep d o)))) p = Some ch' ->
  (forall b, o <> DBase (RClosed b)) ->
  ~ In (IClosed c) (racc ch) -> ~ In (IClosed c) (racc ch')).
Check (C08_alternation_unconditional :
  forall tr s q, alternates (hc (s_ctxs s) q) (conn_evs q (concat (run s tr)))).
Check (C08_panic_exactly_unknown_peer :
  forall s dt i,
  In OPanic (snd (step s dt i)) <-> exists p c, i = EClosed p c /\ find_ctx p (s_ctxs s) = None).
Check (C08_no_panic_in_contract :
  forall ka T n0 tr,
  feasible 2 env0 (init ka T n0) tr = true -> ~ In OPanic (concat (run (init ka T n0) tr))).
Check (C08_third_connection_ignored :
  forall s p c cx h,
  find_ctx p (s_ctxs s) = Some cx -> c_sec cx = Some h ->
  snd (handle_ev s (EEst p c)) = [] /\ ka_activity_of s (EEst p c) = None /\
  s_ctxs (fst (handle_ev s (EEst p c))) = s_ctxs s /\ s_last (fst (handle_ev s (EEst p c))) = s_last s /\
  s_timers (fst (handle_ev s (EEst p c))) = s_timers s).
Check (C08_closed_unknown_id_drops_secondary :
  forall s p c cx,
  find_ctx p (s_ctxs s) = Some cx -> h_id (c_prim cx) <> c ->
  snd (handle_ev s (EClosed p c)) = [] /\
  find_ctx p (s_ctxs (fst (handle_ev s (EClosed p c)))) = Some (mkCtx p (c_prim cx) None)).
Check (C08_force_close_invisible :
  forall s dt p fs fp, fst (step s dt (EForce p fs fp)) = fst (step s dt ENone)).
Check (C08_force_close_targets :
  forall e s dt i c,
  conn_inv e (s_ctxs s) (s_pend s) -> In (OForce c) (snd (step s dt i)) ->
  exists p fs fp, i = EForce p fs fp /\ In c (live_of p (e_live e))).
Check (C08_force_close_result :
  forall e s dt p fs fp r,
  conn_inv e (s_ctxs s) (s_pend s) -> In (ORetF r) (snd (step s dt (EForce p fs fp))) ->
  (r = 1 <-> live_of p (e_live e) = []) /\
  (r = 0 -> exists c, hd_error (live_of p (e_live e)) = Some c /\ In (OForce c) (snd (step s dt (EForce p fs fp)))) /\
  (r = 3 -> fp = true) /\ r <= 3).
Check (C08_multi_stream_wellformed :
  forall tr cap cfg n0 q k,
  mfeasible 2 env0 (minit cap cfg n0) tr = true -> (k < length cfg)%nat ->
  exists b, wf_run false (pevs q (comp_outs k (mrun (minit cap cfg n0) tr))) = Some b).
Check (C08_multi_ids_fresh :
  forall tr m,
  m_next m + mdraws tr < ID_MOD ->
  StronglySorted N.lt (flat_map mret (mrun m tr)) /\
  Forall (fun i => m_next m <= i) (flat_map mret (mrun m tr))).
Check (C08_multi_view_exact :
  forall m dt e s c,
  In s (m_svcs (fst (mstep m dt e))) -> find_ch c (s_chans s) <> None ->
  strong s c = mstrong (m_svcs (fst (mstep m dt e))) c).
Check (C08_multi_commands_fifo :
  forall tr m c,
  forallb (fun de => negb (closes c (snd de))) tr = true ->
  taken c tr (mrun m tr) ++ qfind c (m_q (mfinal m tr)) = qfind c (m_q m) ++ issued c (mrun m tr)).
Check (C08_needs_two_per_peer :
  exists tr q,
  feasible 3 env0 (init true 1000 0) tr = true /\
  wf_run false (pevs q (concat (run (init true 1000 0) tr))) = None).
Check (C08_stream_wellformed_under_manager :
  forall (L : V.Mgr.Model.limits) (xs : list V.C06.Compose08.xev) tr ka T n0 q,
  V.C06.Compose08.xtrace L V.C06.Compose08.x0 xs ->
  filter V.C06.Compose08.is_conn (map snd tr) = V.C06.Compose08.xproj xs ->
  V.C06.Compose08.feasible_rest env0 (init ka T n0) tr = true ->
  exists b, wf_run false (pevs q (concat (run (init ka T n0) tr))) = Some b).
Check (C08_alternation_under_manager :
  forall (L : V.Mgr.Model.limits) (xs : list V.C06.Compose08.xev) tr ka T n0 q,
  V.C06.Compose08.xtrace L V.C06.Compose08.x0 xs ->
  filter V.C06.Compose08.is_conn (map snd tr) = V.C06.Compose08.xproj xs ->
  V.C06.Compose08.feasible_rest env0 (init ka T n0) tr = true ->
  alternates false (conn_evs q (concat (run (init ka T n0) tr)))).
Check (C08_no_panic_under_manager :
  forall (L : V.Mgr.Model.limits) (xs : list V.C06.Compose08.xev) tr ka T n0,
  V.C06.Compose08.xtrace L V.C06.Compose08.x0 xs ->
  filter V.C06.Compose08.is_conn (map snd tr) = V.C06.Compose08.xproj xs ->
  V.C06.Compose08.feasible_rest env0 (init ka T n0) tr = true ->
  ~ In OPanic (concat (run (init ka T n0) tr))).
Check (C08_multi_feasible_split :
  forall cap tr e m,
  mfeasible cap e m tr =
  V.Link.C06_C08.mfeasible_rest e m tr && V.C06.Compose08.conn_feasible cap e (V.Link.C06_C08.m_conn_evs tr)).
Check (C08_multi_stream_wellformed_under_manager :
  forall (L : V.Mgr.Model.limits) (xs : list V.C06.Compose08.xev) tr cap cfg n0 q k,
  V.C06.Compose08.xtrace L V.C06.Compose08.x0 xs ->
  V.Link.C06_C08.m_conn_evs tr = V.C06.Compose08.xproj xs ->
  V.Link.C06_C08.mfeasible_rest env0 (minit cap cfg n0) tr = true ->
  (k < length cfg)%nat ->
  exists b, wf_run false (pevs q (comp_outs k (mrun (minit cap cfg n0) tr))) = Some b).
Check (C08_stream_wellformed_on_node :
  forall (i n : nat) (L : V.Mgr.Model.limits) (es : list V.C07.Model.nev) tr ka T n0 q,
  (i < n)%nat ->
  V.C07.Compose.node_env_trace L (V.C07.Model.node_init n) [] [] es ->
  V.Link.C07_C06.fresh_ids [] es -> V.Link.C07_C06.no_die i es ->
  filter V.C06.Compose08.is_conn (map snd tr) =
    V.C06.Compose08.xproj (V.Link.C07_C06.node_xevs i L (V.C07.Model.node_init n) es) ->
  V.C06.Compose08.feasible_rest env0 (init ka T n0) tr = true ->
  exists b, wf_run false (pevs q (concat (run (init ka T n0) tr))) = Some b).
Check (C08_alternation_on_node :
  forall (i n : nat) (L : V.Mgr.Model.limits) (es : list V.C07.Model.nev) tr ka T n0 q,
  (i < n)%nat ->
  V.C07.Compose.node_env_trace L (V.C07.Model.node_init n) [] [] es ->
  V.Link.C07_C06.fresh_ids [] es -> V.Link.C07_C06.no_die i es ->
  filter V.C06.Compose08.is_conn (map snd tr) =
    V.C06.Compose08.xproj (V.Link.C07_C06.node_xevs i L (V.C07.Model.node_init n) es) ->
  V.C06.Compose08.feasible_rest env0 (init ka T n0) tr = true ->
  alternates false (conn_evs q (concat (run (init ka T n0) tr)))).
