From Coq Require Import List NArith Bool.
From V.gen Require Consts.
From V.C15 Require Import Model Proofs Engine EngineProofs Dist.
Import ListNotations.
Open Scope N_scope.
From V.C15 Require Import Properties.
Check (C15_disjoint :
  forall c seeds es,
  ~ In (c_local c) seeds ->
  let s := fst (run c (init c seeds) es) in
  (forall p, In p (map snd (cands s)) -> ~ In p (map fst (pend s)) /\ ~ In p (queried s) /\ p <> c_local c) /\
  (forall p, In p (map fst (pend s)) -> ~ In p (queried s) /\ p <> c_local c) /\
  ~ In (c_local c) (queried s) /\
  NoDup (map snd (cands s)) /\ NoDup (map fst (pend s)) /\ NoDup (queried s)).
Check (C15_never_twice_never_local :
  forall c seeds es,
  dist_inj c -> ~ In (c_local c) seeds ->
  NoDup (sends (snd (run c (init c seeds) es))) /\
  ~ In (c_local c) (sends (snd (run c (init c seeds) es)))).
Check (C15_parallelism :
  forall c seeds es now0,
  mono now0 es ->
  in_flight c (clock now0 es) (pend (fst (run c (init c seeds) es))) <= c_alpha c).
Check (C15_send_gate :
  forall c s now p, snd (next_action c s now) = ASend p -> in_flight c now (pend s) <> c_alpha c).
Check (C15_one_terminal :
  forall c seeds es,
  (length (terminals (snd (run c (init c seeds) es))) <= 1)%nat /\
  (done (fst (run c (init c seeds) es)) = true <->
   length (terminals (snd (run c (init c seeds) es))) = 1%nat)).
Check (C15_after_terminal :
  forall c es s, done s = true ->
  fst (run c s es) = s /\ Forall (fun a => a = ANone) (snd (run c s es))).
Check (C15_progress :
  forall c seeds es now,
  1 <= c_alpha c ->
  let s := fst (run c (init c seeds) es) in
  done s = false -> pend s = [] -> snd (next_action c s now) <> ANone).
Check (C15_measure :
  forall c U s e,
  Inv c s -> cands_in U s ->
  let s' := fst (step c s e) in let a := snd (step c s e) in
  (mu U s' <= mu U s)%nat /\
  ((exists p, a = ASend p) \/
   (exists p, ((exists r, e = EResp p r) \/ e = EFail p) /\ effective s p = true) ->
   (mu U s' < mu U s)%nat)).
Check (C15_productive_bound :
  forall c U seeds es,
  ~ In (c_local c) seeds -> (forall p, In p seeds -> In p U) -> Forall (ev_in U) es ->
  (count_productive c (init c seeds) es <= 2 * length U)%nat).
Check (C15_find_result :
  forall c seeds es now l,
  dist_inj c -> ~ In (c_local c) seeds -> c_kind c = KFind ->
  let s := fst (grun c (init c seeds) (ghost0 seeds) es) in
  let g := snd (grun c (init c seeds) (ghost0 seeds) es) in
  snd (next_action c s now) = AFound l ->
  (forall p, In p l -> In p (g_answered g)) /\
  dsorted c l /\
  N.of_nat (length l) <= c_k c /\
  (forall p w, In p (g_known g) -> p <> c_local c -> last_opt l = Some w ->
               c_dist c p < c_dist c w -> In p (g_sent g))).
Check (C15_record_once :
  forall c seeds es now,
  dist_inj c -> ~ In (c_local c) seeds -> c_kind c = KRecord ->
  let s := fst (grun c (init c seeds) (ghost0 seeds) es) in
  let g := snd (grun c (init c seeds) (ghost0 seeds) es) in
  is_terminal (snd (next_action c s now)) = true ->
  g_emitted g = g_got g /\ NoDup (map fst (g_got g)) /\
  (forall x, In x (g_got g) -> In (fst x) (g_answered g))).
Check (C15_quorum_stop :
  forall c seeds es now p,
  dist_inj c -> ~ In (c_local c) seeds -> c_kind c = KRecord ->
  let s := fst (grun c (init c seeds) (ghost0 seeds) es) in
  let g := snd (grun c (init c seeds) (ghost0 seeds) es) in
  snd (next_action c s now) = ASend p ->
  c_known c + N.of_nat (length (g_got g)) < c_needed c).
Check (C15_providers_result :
  forall c seeds es now l,
  dist_inj c -> ~ In (c_local c) seeds -> c_kind c = KProviders ->
  let s := fst (grun c (init c seeds) (ghost0 seeds) es) in
  let g := snd (grun c (init c seeds) (ghost0 seeds) es) in
  snd (next_action c s now) = AProvDone l ->
  l = merge_providers c (c_kprov c ++ g_provs g)).
Check (C15_find_topk :
  forall c seeds es now l,
  dist_inj c -> ~ In (c_local c) seeds -> c_kind c = KFind ->
  let s := fst (grun c (init c seeds) (ghost0 seeds) es) in
  let g := snd (grun c (init c seeds) (ghost0 seeds) es) in
  snd (next_action c s now) = AFound l ->
  forall q, In q (g_answered g) -> ~ In q l ->
    N.of_nat (length l) = c_k c /\ forall w, In w l -> c_dist c w < c_dist c q).
Check (C15_merge_spec :
  forall c l,
  dist_inj c ->
  let m := merge_providers c l in
  NoDup (map fst m) /\
  (forall p, In p (map fst m) <-> In p (map fst l)) /\
  dsorted c (map fst m) /\
  (forall p al, In (p, al) m ->
     al = addr_set (addrs_of p l) /\ asorted al /\ forall x, In x al <-> In x (addrs_of p l))).
Check (C15_closed_loop :
  forall c U E seeds fuel,
  1 <= c_alpha c -> ~ In (c_local c) seeds -> (forall p, In p seeds -> In p U) -> fair U E ->
  (8 * length U + 2 <= fuel)%nat ->
  let es := drive fuel c E false (init c seeds) in
  done (fst (run c (init c seeds) es)) = true /\
  length (terminals (snd (run c (init c seeds) es))) = 1%nat /\
  (length es <= 8 * length U + 2)%nat).
Check (C15_fair_env_exists :
  forall U, fair U env_fail_all).
Check (C15_queries_independent :
  forall ms eng i c s,
  nth_error eng i = Some (c, s) ->
  nth_error (fst (mrun eng ms)) i = Some (c, fst (run c s (events_of i (snd (mrun eng ms)))))).
Check (C15_peer_action :
  forall c seeds es p,
  dist_inj c -> ~ In (c_local c) seeds ->
  let s := fst (grun c (init c seeds) (ghost0 seeds) es) in
  let g := snd (grun c (init c seeds) (ghost0 seeds) es) in
  peer_msg s p = true -> In p (g_sent g) /\ In p (map fst (pend s)) /\ done s = false).
Check (C15_closest_responsive :
  forall c seeds es now l,
  dist_inj c -> ~ In (c_local c) seeds -> c_kind c = KFind ->
  let s := fst (grun c (init c seeds) (ghost0 seeds) es) in
  let g := snd (grun c (init c seeds) (ghost0 seeds) es) in
  snd (next_action c s now) = AFound l ->
  kclosest c (c_k c) (g_answered g) l /\
  (forall p w, In p (g_known g) -> p <> c_local c -> ~ In p l -> last_opt l = Some w ->
               c_dist c p < c_dist c w -> In p (g_sent g) /\ ~ In p (g_answered g))).
Check (C15_kclosest_unique :
  forall c k ans l1 l2, kclosest c k ans l1 -> kclosest c k ans l2 -> l1 = l2).
Check (C15_lookup_interface :
  forall c seeds es now l,
  dist_inj c -> ~ In (c_local c) seeds -> c_kind c = KFind ->
  let s := fst (grun c (init c seeds) (ghost0 seeds) es) in
  let g := snd (grun c (init c seeds) (ghost0 seeds) es) in
  snd (next_action c s now) = AFound l ->
  NoDup l /\ ~ In (c_local c) l /\ N.of_nat (length l) <= c_k c /\
  (forall p, In p l -> In p (g_answered g) /\ In p (g_sent g)) /\
  kclosest c (c_k c) (g_answered g) l /\
  (1 <= c_k c -> l <> [])).
Check (C15_send_closest :
  forall c seeds es now p,
  dist_inj c -> ~ In (c_local c) seeds ->
  let s := fst (grun c (init c seeds) (ghost0 seeds) es) in
  let g := snd (grun c (init c seeds) (ghost0 seeds) es) in
  snd (next_action c s now) = ASend p ->
  In p (g_known g) /\ ~ In p (g_sent g) /\ p <> c_local c /\
  forall q, In q (g_known g) -> q <> c_local c -> ~ In q (g_sent g) -> c_dist c p <= c_dist c q).
Check (C15_failed_means_nothing :
  forall c seeds es now,
  dist_inj c -> ~ In (c_local c) seeds ->
  let s := fst (grun c (init c seeds) (ghost0 seeds) es) in
  let g := snd (grun c (init c seeds) (ghost0 seeds) es) in
  snd (next_action c s now) = AFailed ->
  exhausted_at c s g /\
  match c_kind c with
  | KFind => g_answered g = [] \/ c_k c = 0
  | KRecord => c_known c = 0 /\ g_got g = []
  | KProviders => c_kprov c = [] /\ g_provs g = []
  end).
Check (C15_record_quorum_honest :
  forall c seeds es now,
  dist_inj c -> ~ In (c_local c) seeds ->
  let s := fst (grun c (init c seeds) (ghost0 seeds) es) in
  let g := snd (grun c (init c seeds) (ghost0 seeds) es) in
  snd (next_action c s now) = ARecDone ->
  c_needed c <= c_known c + N.of_nat (length (g_got g)) \/
  (exhausted_at c s g /\ 1 <= c_known c + N.of_nat (length (g_got g)))).
Check (C15_providers_exhaustive :
  forall c seeds es now l,
  dist_inj c -> ~ In (c_local c) seeds ->
  let s := fst (grun c (init c seeds) (ghost0 seeds) es) in
  let g := snd (grun c (init c seeds) (ghost0 seeds) es) in
  snd (next_action c s now) = AProvDone l -> exhausted_at c s g).
Check (C15_resolved_once :
  forall c s p e es r,
  Inv c s -> effective s p = true -> (e = EFail p \/ exists r0, e = EResp p r0) ->
  let s1 := fst (run c (fst (step c s e)) es) in
  effective s1 p = false /\ on_response c s1 p r = s1 /\ on_failure c s1 p = s1).
Check (C15_timed_termination :
  forall c U E T seeds ticks pf,
  1 <= c_alpha c -> ~ In (c_local c) seeds -> (forall p, In p seeds -> In p U) -> net_in U E ->
  (2 * length U + 1 <= pf)%nat -> ((N.to_nat T + 1) * length U + 1 <= ticks)%nat ->
  let es := tdrive ticks pf c E T 0 (init c seeds) in
  done (fst (run c (init c seeds) es)) = true /\
  length (terminals (snd (run c (init c seeds) es))) = 1%nat /\
  mono 0 es /\
  (N.to_nat (clock 0 es) <= (N.to_nat T + 1) * length U)%nat).
Check (C15_pr_irrelevant :
  forall c s s' e,
  peq s s' -> peq (fst (step c s e)) (fst (step c s' e)) /\ snd (step c s e) = snd (step c s' e)).
Check (C15_frame :
  forall eng m i c s,
  nth_error eng i = Some (c, s) -> events_of i (snd (mstep eng m)) = [] ->
  nth_error (fst (fst (mstep eng m))) i = Some (c, s)).
Check (C15_query_isolation :
  forall ms eng i c s,
  nth_error eng i = Some (c, s) ->
  exists s', nth_error (fst (mrun eng ms)) i = Some (c, s') /\
             peq s' (fst (run c s (essential c s (events_of i (snd (mrun eng ms))))))).
Check (C15_essential :
  forall c es s s',
  peq s s' ->
  peq (fst (run c s es)) (fst (run c s' (essential c s es))) /\
  visible (snd (run c s es)) = visible (snd (run c s' (essential c s es)))).
Check (C15_order_irrelevant :
  forall ms1 ms2 eng1 eng2 i c s,
  nth_error eng1 i = Some (c, s) -> nth_error eng2 i = Some (c, s) ->
  essential c s (events_of i (snd (mrun eng1 ms1))) = essential c s (events_of i (snd (mrun eng2 ms2))) ->
  exists s1 s2, nth_error (fst (mrun eng1 ms1)) i = Some (c, s1) /\
                nth_error (fst (mrun eng2 ms2)) i = Some (c, s2) /\ peq s1 s2).
Check (C15_sent_is_sends :
  forall c es s g, g_sent (snd (grun c s g es)) = g_sent g ++ sends (snd (run c s es))).
Check (C15_default_config :
  1 <= V.gen.Consts.PARALLELISM_FACTOR /\ 1 <= V.gen.Consts.REPLICATION_FACTOR).
Check (C15_xor_dist_inj :
  forall c key target,
  (forall p q, key p = key q -> p = q) -> dist_inj (with_dist c (xor_dist key target))).
Check (C15_rank_invariance :
  forall U d1 d2 c seeds es,
  (forall p q, In p U -> In q U -> (d1 p <? d1 q) = (d2 p <? d2 q) /\ (d1 p =? d1 q) = (d2 p =? d2 q)) ->
  (forall q, In q seeds -> In q U) -> (forall y, In y (c_kprov c) -> In (fst y) U) ->
  Forall (ev_inU U) es ->
  snd (run (with_dist c d1) (init (with_dist c d1) seeds) es) =
  snd (run (with_dist c d2) (init (with_dist c d2) seeds) es) /\
  srel U d1 d2 (fst (run (with_dist c d1) (init (with_dist c d1) seeds) es))
               (fst (run (with_dist c d2) (init (with_dist c d2) seeds) es))).
Check (C15_monotone_rank_ok :
  forall (U : list N) (d rank : N -> N),
  (forall p q, In p U -> In q U -> (rank p < rank q <-> d p < d q)) ->
  forall p q, In p U -> In q U -> (d p <? d q) = (rank p <? rank q) /\ (d p =? d q) = (rank p =? rank q)).
Check (C15_dispatch_in_sync :
  tbl_query_types = V.gen.KadDispatch.query_types /\
  tbl_message_kinds = V.gen.KadDispatch.message_kinds /\
  tbl_actions = V.gen.KadDispatch.query_actions /\
  tbl_quorum = V.gen.KadDispatch.quorum_variants /\
  tbl_response = V.gen.KadDispatch.response /\
  tbl_response_failure = V.gen.KadDispatch.register_response_failure /\
  tbl_send_failure = V.gen.KadDispatch.register_send_failure /\
  tbl_send_success = V.gen.KadDispatch.register_send_success /\
  tbl_next_action = V.gen.KadDispatch.next_action /\
  tbl_peer_action = V.gen.KadDispatch.next_peer_action /\
  tbl_peer_failure = V.gen.KadDispatch.peer_failure_calls /\
  tbl_success = V.gen.KadDispatch.success /\
  tbl_failed = V.gen.KadDispatch.failed /\
  tbl_request = V.gen.KadDispatch.request_ctor).
Check (C15_accepts_lookup :
  forall t mk,
  (ctx_of t = CFindNode \/ ctx_of t = CGetRecord \/ ctx_of t = CGetProviders) ->
  (accepts t mk = true <-> mk = req_of t)).
Check (C15_eng_lookup_is_model :
  forall g evs0 q t a b c seeds es s,
  xget q (fst (xrun g [] evs0)) = Some (QL t a b c seeds es s) ->
  s = fst (run c (init c seeds) es) /\ done s = false /\
  (ctx_of t = CFindNode /\ c_kind c = KFind \/ ctx_of t = CGetRecord /\ c_kind c = KRecord \/
   ctx_of t = CGetProviders /\ c_kind c = KProviders) /\
  c_k c = g_k g /\ c_alpha c = g_alpha g /\ c_local c = g_local g /\ c_dist c = g_dist g /\
  c_timeout c = g_timeout g).
Check (C15_eng_one_terminal :
  forall g evs0 q evs,
  forallb (fun ev => negb (starts q ev)) evs = true ->
  let e := fst (xrun g [] evs0) in
  (count_terminal q (snd (xrun g e evs)) <= 1)%nat /\
  (xget q e = None -> count_terminal q (snd (xrun g e evs)) = 0%nat) /\
  (count_terminal q (snd (xrun g e evs)) = 1%nat -> xget q (fst (xrun g e evs)) = None)).
Check (C15_eng_terminal_removes :
  forall g evs0 ev q,
  let e := fst (xrun g [] evs0) in
  terminal_about q (snd (xstep g e ev)) = true ->
  xget q e <> None /\ xget q (fst (xstep g e ev)) = None).
Check (C15_eng_stale_ignored :
  forall g e q ev,
  xget q e = None ->
  match ev with
  | XResp q' _ _ _ | XFail q' _ | XSendOk q' _ | XSendFail q' _ | XPeerFail q' _ | XPeerAct q' _ => q' = q
  | XNext _ ch => ch = q + 1
  | XStart _ _ _ _ _ _ _ => False
  end ->
  xstep g e ev = (e, XNone)).
Check (C15_eng_frame :
  forall g e q ev,
  match ev with
  | XStart q' _ _ _ _ _ _ | XResp q' _ _ _ | XFail q' _ | XSendOk q' _ | XSendFail q' _ | XPeerFail q' _
  | XPeerAct q' _ => q' <> q
  | XNext _ ch => ch <> 0 /\ ch <> q + 1
  end ->
  xget q (fst (xstep g e ev)) = xget q e).
Check (C15_eng_resolves :
  forall g evs0 q p ev,
  let e := fst (xrun g [] evs0) in
  match ev with
  | XPeerFail q' p' => q' = q /\ p' = p
  | XResp q' p' _ _ | XFail q' p' =>
      q' = q /\ p' = p /\ match xget q e with Some (QT _ _ _ _) => False | _ => True end
  | XSendOk q' p' | XSendFail q' p' =>
      q' = q /\ p' = p /\ match xget q e with Some (QL _ _ _ _ _ _ _) => False | _ => True end
  | _ => False
  end ->
  outstanding (fst (xstep g e ev)) q p = false).
Check (C15_eng_handover :
  forall g evs now ch l a b,
  let e := fst (xrun g [] evs) in
  let act := snd (xstep g e (XNext now ch)) in
  (exists q, act = XFindNodeOk q l \/ act = XPutToFound q l a b \/ act = XAddProvToFound q l a b) ->
  exists q x, xget q e = Some x /\ about act = Some q /\
    match x with
    | QL t qtag qn c seeds es s =>
        c_kind c = KFind /\ c_k c = g_k g /\ c_local c = g_local g /\ c_dist c = g_dist g /\
        snd (next_action c (fst (run c (init c seeds) es)) now) = AFound l /\
        (dist_inj c -> ~ In (c_local c) seeds ->
         let gh := snd (grun c (init c seeds) (ghost0 seeds) es) in
         NoDup l /\ ~ In (c_local c) l /\ N.of_nat (List.length l) <= c_k c /\
         (forall p, In p l -> In p (g_answered gh) /\ In p (g_sent gh)) /\
         kclosest c (c_k c) (g_answered gh) l /\ (1 <= c_k c -> l <> []))
    | QM qtag qn peers => l = peers /\ a = qtag /\ b = qn
    | QT _ _ _ _ => False
    end).
Check (C15_eng_send_phase_terminates :
  forall g q evs e t pd sc nd,
  xget q e = Some (QT t pd sc nd) ->
  forallb (passive q) evs = true ->
  (forall p, In p pd -> exists ev, In ev evs /\ resolves_target q p ev = true) ->
  exists sc', xget q (fst (xrun g e evs)) = Some (QT t [] sc' nd) /\
    sc <= sc' /\ sc' <= sc + N.of_nat (List.length pd) /\
    forall now,
      snd (xstep g (fst (xrun g e evs)) (XNext now (q + 1))) =
        (if nd <=? sc' then match t with TAddProviderToFoundNodes => XAddProvOk q | _ => XPutOk q end
         else XFailed q) /\
      xget q (fst (xstep g (fst (xrun g e evs)) (XNext now (q + 1)))) = None).
Check (C15_eng_send_phase_waits :
  forall g e q t p pd sc nd now,
  xget q e = Some (QT t (p :: pd) sc nd) ->
  xstep g e (XNext now (q + 1)) = (xupd q (fun _ => QT t (p :: pd) sc nd) e, XNone)).
Check (C15_eng_to_peers :
  forall g e q qtag qn peers now,
  xget q e = Some (QM qtag qn peers) ->
  xstep g e (XNext now (q + 1)) = (xdel q e, XPutToFound q peers qtag qn)).
Check (C15_eng_send_kind :
  forall g evs0 now ch q p mk,
  let e := fst (xrun g [] evs0) in
  snd (xstep g e (XNext now ch)) = XSend q p mk ->
  exists t a b c seeds es s, xget q e = Some (QL t a b c seeds es s) /\ mk = req_of t /\
    snd (next_action c s now) = ASend p).
Check (C15_eng_send_fresh :
  forall g evs0 now ch q p mk,
  let e := fst (xrun g [] evs0) in
  snd (xstep g e (XNext now ch)) = XSend q p mk ->
  exists t a b c seeds es s,
    xget q e = Some (QL t a b c seeds es s) /\ mk = req_of t /\
    (dist_inj c -> ~ In (c_local c) seeds ->
     p <> g_local g /\ ~ In p (sends (snd (run c (init c seeds) es)))) /\
    exists s', xget q (fst (xstep g e (XNext now ch))) = Some (QL t a b c seeds (es ++ [ENext now]) s') /\
      sends (snd (run c (init c seeds) (es ++ [ENext now]))) = sends (snd (run c (init c seeds) es)) ++ [p]).
