From Coq Require Import List NArith Bool.
From V.gen Require Consts.
From V.C20 Require Import Model Proofs.
Import ListNotations.
Open Scope N_scope.
From V.C20 Require Import Properties.
Check (C20_self_certifying :
  forall (D : Type) (digest : N -> D -> option (list N)) pb d c d',
    block_to_response D digest pb d = Some (c, d') ->
    d' = d /\
    exists p, prefix_from_bytes pb = Some p /\
              digest (p_mhtype p) d = Some (c_digest c) /\
              c_code c = p_mhtype p /\ c_version c = p_version p /\ c_codec c = p_codec p /\
              (length (c_digest c) <= 64)%nat /\ cid_valid c).
Check (C20_responses_certified :
  forall (D : Type) (digest : N -> D -> option (list N)) blocks c d,
    In (c, d) (responses D digest blocks) ->
    exists pb, In (pb, d) blocks /\ block_to_response D digest pb d = Some (c, d)).
Check (C20_malformed_dropped :
  forall (D : Type) (digest : N -> D -> option (list N)) pb d,
    prefix_from_bytes pb = None -> block_to_response D digest pb d = None).
Check (C20_uncomputable_dropped :
  forall (D : Type) (digest : N -> D -> option (list N)) pb d p,
    prefix_from_bytes pb = Some p -> digest (p_mhtype p) d = None ->
    block_to_response D digest pb d = None).
Check (C20_prefix_codec :
  forall v c t n,
    v < U64_MOD -> c < U64_MOD -> t < U64_MOD -> n < U64_MOD ->
    prefix_from_bytes (varint_enc v ++ varint_enc c ++ varint_enc t ++ varint_enc n) =
    if (v <=? 1) && (n <=? 255) then Some (mkPrefix v c t n) else None).
Check (C20_prefix_roundtrip :
  forall p, prefix_wf p -> prefix_from_bytes (prefix_to_bytes p) = Some p).
Check (C20_prefix_trailing_rejected :
  forall p x rest, prefix_wf p -> prefix_from_bytes (prefix_to_bytes p ++ x :: rest) = None).
Check (C20_prefix_accepted_wf :
  forall l p, prefix_from_bytes l = Some p -> prefix_wf p).
Check (C20_honest_accepted :
  forall (D : Type) (digest : N -> D -> option (list N)) c d,
    cid_valid c -> c_codec c < U64_MOD -> c_code c < U64_MOD ->
    (length (c_digest c) <= 64)%nat ->
    digest (c_code c) d = Some (c_digest c) ->
    block_to_response D digest (prefix_to_bytes (prefix_of_cid c)) d = Some (c, d)).
Check (C20_batches_partition :
  forall (A : Type) (dlen elen : A -> N) (mb mm : N) (l : list A),
    concat (sent_batches A dlen elen mb mm l) = filter (fits A dlen elen mb mm) l).
Check (C20_batches_bounds :
  forall (A : Type) (dlen elen : A -> N) (mb mm : N) (l : list A),
    Forall (fun b => b <> [] /\ sum (map dlen b) <= mb /\ message_len A elen b <= mm)
           (sent_batches A dlen elen mb mm l)).
Check (C20_no_message_dropped :
  forall (A : Type) (dlen elen : A -> N) (mb mm : N) (l : list A),
    sent_batches A dlen elen mb mm l = all_batches A dlen elen mb mm l).
Check (C20_loop_terminates :
  forall (A : Type) (dlen elen : A -> N) (mb mm : N) (l : list A) (n : nat),
    (length l < n)%nat -> batches A dlen elen mb mm n l = all_batches A dlen elen mb mm l).
Check (C20_batch_maximal :
  forall (A : Type) (dlen elen : A -> N) (mb mm : N) (l : list A) tot msg b r,
    take_batch A dlen elen mb mm tot msg l = (b, r) ->
    match r with
    | [] => True
    | a :: _ => mb < tot + sum (map dlen b) + dlen a \/ mm < msg + sum (map elen b) + elen a
    end).
Check (C20_default_partition :
  forall l,
    concat (send_response_blocks Consts.BITSWAP_MAX_BATCH_SIZE Consts.BITSWAP_MAX_MESSAGE_SIZE l) =
    filter (fun b => sb_dlen b <=? Consts.BITSWAP_MAX_BATCH_SIZE) l).
Check (C20_default_bounds :
  forall l,
    Forall (fun b => b <> [] /\ sum (map sb_dlen b) <= Consts.BITSWAP_MAX_BATCH_SIZE /\
                     message_len sblock sb_elen b <= Consts.BITSWAP_MAX_MESSAGE_SIZE)
           (send_response_blocks Consts.BITSWAP_MAX_BATCH_SIZE Consts.BITSWAP_MAX_MESSAGE_SIZE l)).
Check (C20_empty_message_const :
  EMPTY_MESSAGE_LEN = Consts.BITSWAP_EMPTY_MESSAGE_SIZE).
Check (C20_payload_bound_insufficient :
  forall mb mm, 10 <= mm ->
    exists l : list sblock,
      Forall (fun b => fits sblock sb_dlen sb_elen mb mm b = true) l /\
      sum (map sb_dlen l) <= mb /\
      mm < message_len sblock sb_elen l).
