From Coq Require Import List NArith Bool.
From V.gen Require Consts.
From V.common Require Protobuf.
From V.C20 Require Import Model Proofs Bytes.
Import ListNotations.
Open Scope N_scope.
From V.C20 Require Import Properties.
Check (C20_self_certifying :
  forall (D : Type) (digest : N -> D -> option (list N)) pb d c d',
    block_to_response D digest pb d = Some (c, d') ->
    d' = d /\
    exists p, prefix_from_bytes pb = Some p /\
              digest (p_mhtype p) d = Some (c_digest c) /\
              c_code c = p_mhtype p /\ c_version c = p_version p /\ c_codec c = p_codec p /\
              (length (c_digest c) <= 64)%nat /\ cid_valid c).
Check (C20_responses_certified :
  forall (D : Type) (digest : N -> D -> option (list N)) blocks c d,
    In (c, d) (responses D digest blocks) ->
    exists pb, In (pb, d) blocks /\ block_to_response D digest pb d = Some (c, d)).
Check (C20_malformed_dropped :
  forall (D : Type) (digest : N -> D -> option (list N)) pb d,
    prefix_from_bytes pb = None -> block_to_response D digest pb d = None).
Check (C20_uncomputable_dropped :
  forall (D : Type) (digest : N -> D -> option (list N)) pb d p,
    prefix_from_bytes pb = Some p -> digest (p_mhtype p) d = None ->
    block_to_response D digest pb d = None).
Check (C20_prefix_codec :
  forall v c t n,
    v < U64_MOD -> c < U64_MOD -> t < U64_MOD -> n < U64_MOD ->
    prefix_from_bytes (varint_enc v ++ varint_enc c ++ varint_enc t ++ varint_enc n) =
    if (v <=? 1) && (n <=? 255) then Some (mkPrefix v c t n) else None).
Check (C20_prefix_roundtrip :
  forall p, prefix_wf p -> prefix_from_bytes (prefix_to_bytes p) = Some p).
Check (C20_prefix_trailing_rejected :
  forall p x rest, prefix_wf p -> prefix_from_bytes (prefix_to_bytes p ++ x :: rest) = None).
Check (C20_prefix_accepted_wf :
  forall l p, prefix_from_bytes l = Some p -> prefix_wf p).
Check (C20_honest_accepted :
  forall (D : Type) (digest : N -> D -> option (list N)) c d,
    cid_valid c -> c_codec c < U64_MOD -> c_code c < U64_MOD ->
    (length (c_digest c) <= 64)%nat ->
    digest (c_code c) d = Some (c_digest c) ->
    block_to_response D digest (prefix_to_bytes (prefix_of_cid c)) d = Some (c, d)).
Check (C20_batches_partition :
  forall (A : Type) (dlen elen : A -> N) (mlen : N -> N) (mb mm : N),
    (forall x y, x <= y -> mlen x <= mlen y) ->
    forall l : list A,
      concat (sent_batches A dlen elen mlen mb mm l) = filter (fits A dlen elen mlen mb mm) l).
Check (C20_batches_bounds :
  forall (A : Type) (dlen elen : A -> N) (mlen : N -> N) (mb mm : N),
    (forall x y, x <= y -> mlen x <= mlen y) ->
    forall l : list A,
      Forall (fun b => b <> [] /\ sum (map dlen b) <= mb /\ message_len A elen mlen b <= mm)
             (sent_batches A dlen elen mlen mb mm l)).
Check (C20_no_message_dropped :
  forall (A : Type) (dlen elen : A -> N) (mlen : N -> N) (mb mm : N),
    (forall x y, x <= y -> mlen x <= mlen y) ->
    forall l : list A,
      sent_batches A dlen elen mlen mb mm l = all_batches A dlen elen mlen mb mm l).
Check (C20_loop_terminates :
  forall (A : Type) (dlen elen : A -> N) (mlen : N -> N) (mb mm : N),
    (forall x y, x <= y -> mlen x <= mlen y) ->
    forall (l : list A) (n : nat),
      (length l < n)%nat -> batches A dlen elen mlen mb mm n l = all_batches A dlen elen mlen mb mm l).
Check (C20_batch_maximal :
  forall (A : Type) (dlen elen : A -> N) (mlen : N -> N) (mb mm : N),
    (forall x y, x <= y -> mlen x <= mlen y) ->
    forall (l : list A) tot acc b r,
      take_batch A dlen elen mlen mb mm tot acc l = (b, r) ->
      match r with
      | [] => True
      | a :: _ => mb < tot + sum (map dlen b) + dlen a \/ mm < mlen (acc + sum (map elen b) + elen a)
      end).
Check (C20_default_partition :
  forall l,
    concat (send_response_blocks Consts.BITSWAP_MAX_BATCH_SIZE Consts.BITSWAP_MAX_MESSAGE_SIZE l) =
    filter (fun b => sb_dlen b <=? Consts.BITSWAP_MAX_BATCH_SIZE) l).
Check (C20_default_bounds :
  forall l,
    Forall (fun b => b <> [] /\ sum (map sb_dlen b) <= Consts.BITSWAP_MAX_BATCH_SIZE /\
                     message_len sblock sb_elen blk_mlen b <= Consts.BITSWAP_MAX_MESSAGE_SIZE)
           (send_response_blocks Consts.BITSWAP_MAX_BATCH_SIZE Consts.BITSWAP_MAX_MESSAGE_SIZE l)).
Check (C20_empty_message_const :
  EMPTY_MESSAGE_LEN = Consts.BITSWAP_EMPTY_MESSAGE_SIZE).
Check (C20_payload_bound_insufficient :
  forall mb mm, 10 <= mm ->
    exists l : list sblock,
      Forall (fun b => fits sblock sb_dlen sb_elen blk_mlen mb mm b = true) l /\
      sum (map sb_dlen l) <= mb /\
      mm < message_len sblock sb_elen blk_mlen l).
Check (C20_presences_partition :
  forall (mm : N) (l : list spres),
    concat (send_response_presences mm l) = filter (fits spres (fun _ => 0) sp_elen blk_mlen 0 mm) l).
Check (C20_presences_bounds :
  forall (mm : N) (l : list spres),
    Forall (fun b => b <> [] /\ sum (map (fun _ => 0) b) <= 0 /\ message_len spres sp_elen blk_mlen b <= mm)
           (send_response_presences mm l)).
Check (C20_default_presences_all_sent :
  forall l, Forall (fun p => (length (c_digest (sp_cid p)) <= 64)%nat) l ->
    concat (send_response_presences Consts.BITSWAP_MAX_MESSAGE_SIZE l) = l).
Check (C20_unsplit_presences_insufficient :
  forall mm, 42 <= mm ->
    exists l : list spres,
      Forall (fun p => fits spres (fun _ => 0) sp_elen blk_mlen 0 mm p = true) l /\
      mm < message_len spres sp_elen blk_mlen l).
Check (C20_response_lossless :
  forall mb mm ps bs,
    flat_map omsg_presences (action_msgs mb mm (AResponse ps bs)) =
      filter (fits spres (fun _ => 0) sp_elen blk_mlen 0 mm) ps /\
    flat_map omsg_blocks (action_msgs mb mm (AResponse ps bs)) =
      filter (fits sblock sb_dlen sb_elen blk_mlen mb mm) bs).
Check (C20_response_within_codec_limit :
  forall mb mm ps bs, Forall (fun m => omsg_len m <= mm) (action_msgs mb mm (AResponse ps bs))).
Check (C20_response_written_healthy :
  forall mb mm ps bs,
    write_msgs mm None (action_msgs mb mm (AResponse ps bs)) =
    (action_msgs mb mm (AResponse ps bs), 0, None, true)).
Check (C20_cid_roundtrip :
  forall c rest, cid_wf c -> cid_read_bytes (cid_to_bytes c ++ rest) = Some c).
Check (C20_cid_parsed_wf :
  forall l c, cid_read_bytes l = Some c -> cid_wf c).
Check (C20_request_roundtrip :
  forall cids, Forall (fun cw => cid_wf (fst cw)) cids ->
    inbound_wants (request_entries cids) = cids).
Check (C20_request_entries_independent :
  forall l1 l2, inbound_wants (l1 ++ l2) = inbound_wants l1 ++ inbound_wants l2).
Check (C20_request_invalid_entry_dropped :
  forall l1 e l2, entry_want e = None ->
    inbound_wants (l1 ++ e :: l2) = inbound_wants (l1 ++ l2)).
Check (C20_request_reported_wellformed :
  forall es c w, In (c, w) (inbound_wants es) ->
    exists e, In e es /\ cid_read_bytes (we_block e) = Some c /\ we_wanttype e = want_code w /\ cid_wf c).
Check (C20_request_ignores_cancel :
  forall b t p1 c1 s1 p2 c2 s2,
    entry_want (mkWE b p1 c1 t s1) = entry_want (mkWE b p2 c2 t s2)).
Check (C20_presence_roundtrip :
  forall c p, cid_wf c -> presence_of (cid_to_bytes c, presence_code p) = Some (c, p)).
Check (C20_message_blocks_certified :
  forall (D : Type) (digest : N -> D -> option (list N)) m c d,
    In (c, d) (flat_map (event_blocks D) (msg_events D digest m)) ->
    exists pb, In (pb, d) (m_payload m) /\ block_to_response D digest pb d = Some (c, d)).
Check (C20_no_partial_delivery :
  forall (D : Type) (digest : N -> D -> option (list N)) ms rest,
    inbound_events D digest (map IFrame ms ++ IBad :: rest) = flat_map (msg_events D digest) ms).
Check (C20_sender_failure_no_partial_delivery :
  forall (D : Type) (digest : N -> D -> option (list N)) (rx : omsg -> message D)
         mm c ms done part c' ok rest,
    write_msgs mm c ms = (done, part, c', ok) ->
    inbound_events D digest (map (fun m => IFrame (rx m)) done ++ IBad :: rest) =
      flat_map (fun m => msg_events D digest (rx m)) done /\
    exists tail, ms = done ++ tail).
Check (C20_write_prefix :
  forall mm ms c done part c' ok,
    write_msgs mm c ms = (done, part, c', ok) ->
    exists rest,
      ms = done ++ rest /\
      (ok = true -> rest = [] /\ part = 0) /\
      (ok = false -> rest <> []) /\
      Forall (fun m => omsg_len m <= mm) done).
Check (C20_session_blocks_certified :
  forall (D : Type) (digest : N -> D -> option (list N)) ops c d,
    In (c, d) (flat_map (event_blocks D) (session_events D digest ops)) ->
    digest (c_code c) d = Some (c_digest c) /\ cid_valid c /\ (length (c_digest c) <= 64)%nat).
Check (C20_only_requested_refuted :
  exists ops : list (sess_op N),
    requested N ops = [] /\
    In (demo_cid, 7) (flat_map (event_blocks N) (session_events N demo_digest ops))).
Check (C20_no_duplicate_delivery_refuted :
  exists ops : list (sess_op N),
    requested N ops = [demo_cid] /\
    flat_map (event_blocks N) (session_events N demo_digest ops) = [(demo_cid, 7); (demo_cid, 7)]).
Check (C20_only_requested_with_want_filter :
  forall (D : Type) (digest : N -> D -> option (list N)) ops want c d,
    In (c, d) (client_run D digest want ops) ->
    exists o1 m o2,
      ops = o1 ++ SIncoming m :: o2 /\
      (In c want \/ In c (requested D o1)) /\
      In (c, d) (flat_map (event_blocks D) (msg_events D digest m)) /\
      digest (c_code c) d = Some (c_digest c)).
Check (C20_no_duplicate_delivery_with_want_filter :
  forall (D : Type) (digest : N -> D -> option (list N)) ops want c,
    (cnt D c (client_run D digest want ops) <= memn c want + req_count D c ops)%nat).
Check (C20_request_single_message :
  forall mb mm cids,
    action_msgs mb mm (ARequest cids) = [ORequest cids] /\ omsg_len (ORequest cids) = request_len cids).
Check (C20_request_empty_is_one_message :
  forall mb mm, action_msgs mb mm (ARequest []) = [ORequest []] /\ request_len [] = 2).
Check (C20_default_request_fits :
  forall cids, Forall (fun cw => (length (c_digest (fst cw)) <= 64)%nat) cids ->
    N.of_nat (length cids) <= 32000 -> request_len cids <= Consts.BITSWAP_MAX_MESSAGE_SIZE).
Check (C20_request_written_healthy :
  forall mb mm cids, request_len cids <= mm ->
    write_msgs mm None (action_msgs mb mm (ARequest cids)) = ([ORequest cids], 0, None, true)).
Check (C20_unsplit_request_insufficient :
  forall mm, 53 <= mm ->
    exists cids : list (cid * want_type),
      Forall (fun cw => req_mlen (sw_elen cw) <= mm) cids /\ mm < request_len cids).
Check (C20_oversized_request_refused :
  forall mb mm cids c, mm < request_len cids ->
    write_msgs mm c (action_msgs mb mm (ARequest cids)) = ([], 0, c, false)).
Check (C20_oversized_request_drops_queue :
  forall (D : Type) (digest : N -> D -> option (list N)) mb mm s c2 cids acts, mm < request_len cids ->
    ps_pend s = [] -> ps_opening s = false -> ps_conn s = 1 ->
    run_peer D digest mb mm s (PSend (ARequest cids) :: map PSend acts ++ [POutOpen c2]) =
    (set_out s None, [], [])).
Check (C20_flush_stops_at_oversized_request :
  forall mb mm c pre cids rest, Forall (action_ok mm) pre -> mm < request_len cids ->
    write_actions mb mm None (pre ++ ARequest cids :: rest) =
    (flat_map (action_msgs mb mm) pre, 0, None, false) /\
    (pre = [] -> write_actions mb mm c (ARequest cids :: rest) = ([], 0, c, false))).
Check (C20_action_within_codec_limit :
  forall mb mm a, action_ok mm a -> Forall (fun m => omsg_len m <= mm) (action_msgs mb mm a)).
Check (C20_request_bytes_length :
  forall cids, request_len cids < 2 ^ 64 -> Protobuf.blen (request_bytes cids) = request_len cids).
Check (C20_presences_bytes_length :
  forall l, message_len spres sp_elen blk_mlen l < 2 ^ 64 ->
    Protobuf.blen (presences_bytes l) = message_len spres sp_elen blk_mlen l).
Check (C20_blocks_bytes_length :
  forall l, message_len cblock cb_elen blk_mlen l < 2 ^ 64 ->
    Protobuf.blen (blocks_bytes l) = message_len cblock cb_elen blk_mlen l).
Check (C20_wire_blocks_bounded :
  forall mb mm l, mm < 2 ^ 64 ->
    Forall (fun batch => batch <> [] /\ sum (map cb_dlen batch) <= mb /\ Protobuf.blen (blocks_bytes batch) <= mm)
           (send_response_cblocks mb mm l) /\
    concat (send_response_cblocks mb mm l) = filter (fits cblock cb_dlen cb_elen blk_mlen mb mm) l).
Check (C20_wire_presences_bounded :
  forall mm l, mm < 2 ^ 64 ->
    Forall (fun batch => batch <> [] /\ Protobuf.blen (presences_bytes batch) <= mm) (send_response_presences mm l)).
Check (C20_wire_request_written_bounded :
  forall mm c cids done part c' ok, mm < 2 ^ 64 ->
    write_msgs mm c [ORequest cids] = (done, part, c', ok) ->
    done = [] \/ (done = [ORequest cids] /\ Protobuf.blen (request_bytes cids) <= mm)).
Check (C20_request_bytes_parse :
  forall cids, request_len cids < 2 ^ 64 ->
    Protobuf.pb_parse (request_bytes cids) = Protobuf.Ok (request_fields cids)).
Check (C20_events_only_from_frames :
  forall (D : Type) (digest : N -> D -> option (list N)) mb mm s e s' evs w,
    peer_step D digest mb mm s e = (s', (evs, w)) -> evs <> [] ->
    exists m, e = PInFrame m /\ ps_inb s = true /\ evs = msg_events D digest m /\ s' = s).
Check (C20_written_within_limit :
  forall (D : Type) (digest : N -> D -> option (list N)) mb mm s e s' evs done part,
    peer_step D digest mb mm s e = (s', (evs, (done, part))) ->
    Forall (fun m => omsg_len m <= mm) done).
Check (C20_writes_only_on_send_or_open :
  forall (D : Type) (digest : N -> D -> option (list N)) mb mm s e s' evs done part,
    peer_step D digest mb mm s e = (s', (evs, (done, part))) ->
    (done <> [] \/ part <> 0) -> (exists a, e = PSend a) \/ (exists c, e = POutOpen c)).
Check (C20_queue_invariant :
  forall (D : Type) (digest : N -> D -> option (list N)) mb mm es,
    ps_inv (fst (fst (run_peer D digest mb mm ps_init es)))).
Check (C20_no_stuck_queue :
  forall (D : Type) (digest : N -> D -> option (list N)) mb mm es,
    let s := fst (fst (run_peer D digest mb mm ps_init es)) in
    ps_pend s <> [] -> ps_opening s = true \/ ps_dial s = true).
Check (C20_answers_resolve :
  forall (D : Type) (digest : N -> D -> option (list N)) mb mm s, ps_inv s ->
    (ps_opening s = true ->
       (forall c, ps_pend (fst (peer_step D digest mb mm s (POutOpen c))) = [] /\
                  ps_opening (fst (peer_step D digest mb mm s (POutOpen c))) = false) /\
       ps_pend (fst (peer_step D digest mb mm s POutFail)) = [] /\
       ps_opening (fst (peer_step D digest mb mm s POutFail)) = false) /\
    (ps_dial s = true ->
       ps_pend (fst (peer_step D digest mb mm s PDialFail)) = [] /\
       ps_dial (fst (peer_step D digest mb mm s PDialFail)) = false /\
       (ps_conn s = 0 -> ps_opening (fst (peer_step D digest mb mm s PConnect)) = true /\
                         ps_pend (fst (peer_step D digest mb mm s PConnect)) = ps_pend s)) /\
    (ps_conn s <> 0 -> ps_pend (fst (peer_step D digest mb mm s PConnClose)) = [])).
Check (C20_send_to_gone_peer_dropped :
  forall (D : Type) (digest : N -> D -> option (list N)) mb mm s a,
    ps_inv s -> ps_conn s <> 1 -> ps_pend s = [] -> (ps_mgr s = 0 \/ ps_mgr s = 2) -> ps_out s = None ->
    peer_step D digest mb mm s (PSend a) = (s, ([], ([], 0)))).
Check (C20_send_to_dialable_peer_parked :
  forall (D : Type) (digest : N -> D -> option (list N)) mb mm s acts, Forall (action_ok mm) acts ->
    ps_conn s = 0 -> ps_pend s = [] -> ps_out s = None -> ps_dial s = false -> ps_opening s = false ->
    (ps_mgr s = 1 \/ ps_mgr s = 3) -> acts <> [] ->
    let '(s1, _, done) := run_peer D digest mb mm s (map PSend acts ++ [PConnect; POutOpen None]) in
    done = flat_map (action_msgs mb mm) acts /\ ps_pend s1 = [] /\ ps_out s1 = Some None).
Check (C20_dial_failure_drops_parked :
  forall (D : Type) (digest : N -> D -> option (list N)) mb mm s, ps_dial s = true ->
    peer_step D digest mb mm s PDialFail = (set_pend (set_dial s false) [], ([], ([], 0)))).
Check (C20_failed_send_retried_whole :
  forall (D : Type) (digest : N -> D -> option (list N)) mb mm s c a done part c', action_ok mm a ->
    ps_out s = Some c -> ps_pend s = [] -> ps_conn s = 1 ->
    write_msgs mm c (action_msgs mb mm a) = (done, part, c', false) ->
    let '(s1, _, written) := run_peer D digest mb mm s [PSend a; POutOpen None] in
    written = done ++ action_msgs mb mm a /\ ps_out s1 = Some None /\ ps_pend s1 = []).
Check (C20_node_peers_independent :
  forall (D : Type) (digest : N -> D -> option (list N)) mb mm st p e q, q <> p ->
    get_ps (fst (node_step D digest mb mm st (p, e))) q = get_ps st q).
Check (C20_node_blocks_certified :
  forall (D : Type) (digest : N -> D -> option (list N)) mb mm ops st p ev c d,
    In (p, ev) (snd (fst (run_node_ops D digest mb mm st ops))) -> In (c, d) (event_blocks D ev) ->
    digest (c_code c) d = Some (c_digest c) /\ cid_valid c /\ (length (c_digest c) <= 64)%nat).
Check (C20_node_written_within_limit :
  forall (D : Type) (digest : N -> D -> option (list N)) mb mm ops st,
    Forall (fun pm => omsg_len (snd pm) <= mm) (snd (run_node_ops D digest mb mm st ops))).
Check (C20_written_only_commanded :
  forall (D : Type) (digest : N -> D -> option (list N)) mb mm es m,
    In m (snd (run_peer D digest mb mm ps_init es)) ->
    exists a, In (PSend a) es /\ In m (action_msgs mb mm a)).
Check (C20_node_written_only_commanded :
  forall (D : Type) (digest : N -> D -> option (list N)) mb mm ops st,
    (forall q, ps_pend (get_ps st q) = []) ->
    forall p m, In (p, m) (snd (run_node_ops D digest mb mm st ops)) ->
      exists a, In (p, PSend a) ops /\ In m (action_msgs mb mm a)).
