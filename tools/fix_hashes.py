#!/usr/bin/env python3
"""Re-points the commit hashes of the `fixed:` lines of KNOWN_FINDINGS.txt at /repo's main line: a hash that is not an
ancestor of /repo HEAD (a workspace commit before cherry-pick) is replaced by the main-line commit with the same subject;
exact duplicates that result are dropped. Run by tools/integrate.sh."""
import os, re, subprocess
V = os.path.dirname(os.path.dirname(os.path.abspath(__file__)))
R = os.environ.get("VERIF_REPO", "/repo")
def git(*a):
    return subprocess.run(["git", "-C", R] + list(a), capture_output=True, text=True)
main = {}
for l in git("log", "--format=%h\t%s").stdout.splitlines():
    h, s = l.split("\t", 1)
    main.setdefault(s, h)
out, seen, changed = [], set(), 0
for l in open(os.path.join(V, "KNOWN_FINDINGS.txt")).read().split("\n"):
    m = re.match(r"(fixed: property=\w+ )([0-9a-f]{7,40})( .*)", l)
    if m:
        h = m.group(2)
        if git("merge-base", "--is-ancestor", h, "HEAD").returncode != 0:
            subj = git("log", "-1", "--format=%s", h).stdout.strip()
            if subj in main:
                l = m.group(1) + main[subj] + m.group(3); changed += 1
    if l.startswith(("fixed:", "finding:")):
        if l in seen:
            changed += 1
            continue
        seen.add(l)
    out.append(l)
open(os.path.join(V, "KNOWN_FINDINGS.txt"), "w").write("\n".join(out))
print("KNOWN_FINDINGS.txt: %d line(s) re-pointed or de-duplicated" % changed)
