#!/usr/bin/env python3
"""Pretty-print a Mgr (C05/C06) case with implementation and model traces side by side.
usage: mgr_decode.py cases impl model index"""
import sys
TR = {0: 'tcp', 1: 'ws'}
def evs(c):
    L = (c[0], c[1], 'inst=%s' % [TR[t] for t in (0, 1) if c[2] & (1 << t)]); n = c[3]; i = 4; out = []
    def trs(i):
        k = c[i]; return [TR.get(t, t) for t in c[i+1:i+1+k]], i + 1 + k
    def shape(i):
        k = c[i]; return [tuple(c[i+1+2*j:i+3+2*j]) for j in range(k)], i + 1 + 2 * k
    names = {1: ('DialAddr(p,t,fails)', 3), 2: ('AddAddr(p,t)', 2), 3: ('TrDialFailure(c,t,p)', 3), 4: ('TrOpened(c,t,negfails)', 3),
             5: ('TrOpenFailure(c,t,p)', 3), 6: ('TrEstablished(p,c,t,listener,accfails)', 5), 7: ('TrPendingInbound(c,t)', 2),
             8: ('AcceptDone(c,ok)', 2), 9: ('Closed(p,c)', 2), 10: ('AllocConn', 0)}
    for _ in range(n):
        t = c[i]
        if t in (0, 12):
            p = c[i+1]; ts, j = trs(i + 2); fl, j = trs(j)
            out.append('%s(p=%d, ts=%s, open_fails=%s)' % ('DialPeer' if t == 0 else 'HandleDialPeer', p, ts, fl)); i = j
        elif t in (11, 13):
            a, j = shape(i + 1); out.append('%s%s' % ('DialShape' if t == 11 else 'HandleDialAddr', a)); i = j
        else:
            nm, k = names[t]; out.append('%s%s' % (nm, tuple(c[i+1:i+1+k]))); i += 1 + k
    return L, out
def steps(t):
    i = 1; res = []
    def lst(w):
        nonlocal i
        n = t[i]; i += 1; r = [tuple(t[i+j*w:i+j*w+w]) for j in range(n)]; i += n * w; return r
    CN = {1: 'open', 2: 'dial', 3: 'negotiate', 4: 'cancel', 5: 'accept', 6: 'reject', 7: 'accept_pending', 8: 'reject_pending'}
    while i < len(t):
        calls = lst(3); protos = lst(1); mevs = lst(3); ret = t[i]; stuck = t[i+1]; i += 2
        states = lst(4); known = lst(3); pend = lst(2); ins = lst(1); outs = lst(1); oe = lst(2)
        res.append('calls=%s protos=%s mevs=%s ret=%s stuck=%s | states=%s known(p,#tcp,#ws)=%s pend=%s ins=%s outs=%s opening_errors=%s' % (
            ['%s(%d)@%s' % (CN.get(k, k), c, TR.get(tr, tr)) for k, c, tr in calls], [p[0] for p in protos], mevs, ret, stuck,
            states, known, pend, [x[0] for x in ins], [x[0] for x in outs], oe))
    return res
cases = open(sys.argv[1]).read().splitlines(); a = open(sys.argv[2]).read().splitlines(); b = open(sys.argv[3]).read().splitlines()
k = int(sys.argv[4])
L, e = evs(list(map(int, cases[k].split())))
sa = steps(list(map(int, a[k].split()))); sb = steps(list(map(int, b[k].split())))
print('limits', L)
for j, x in enumerate(e):
    ia = sa[j] if j < len(sa) else '-'; ib = sb[j] if j < len(sb) else '-'
    print(j, x); print('   impl ', ia)
    if ia != ib: print('   MODEL', ib)
