#!/usr/bin/env python3
"""Pretty-print a Mgr (C05/C06) case with implementation and model traces side by side."""
import sys
def evs(c):
    L=(c[0],c[1]); n=c[2]; i=3; out=[]
    names={0:('DialPeer',2),1:('DialAddr',2),2:('AddAddr',1),3:('TrDialFailure',2),4:('TrOpened',2),5:('TrOpenFailure',2),6:('TrEstablished',4),7:('TrPendingInbound',1),8:('AcceptDone',2),9:('Closed',2),10:('AllocConn',0)}
    for _ in range(n):
        if c[i]==11:
            k=c[i+1]; out.append('DialShape%s'%([tuple(c[i+2+2*j:i+4+2*j]) for j in range(k)],)); i+=2+2*k; continue
        nm,k=names[c[i]]; out.append('%s%s'%(nm,tuple(c[i+1:i+1+k]))); i+=1+k
    return L,out
def steps(t):
    i=1; res=[]
    def lst(w):
        nonlocal i
        n=t[i]; i+=1; r=[tuple(t[i+j*w:i+j*w+w]) for j in range(n)]; i+=n*w; return r
    while i<len(t):
        calls=lst(2); protos=lst(1); mevs=lst(3); ret=t[i]; stuck=t[i+1]; i+=2
        states=lst(4); known=lst(1); pend=lst(2); ins=lst(1); outs=lst(1)
        res.append('calls=%s protos=%s mevs=%s ret=%s stuck=%s | states=%s known=%s pend=%s ins=%s outs=%s'%(calls,[p[0] for p in protos],mevs,ret,stuck,states,[k[0] for k in known],pend,[x[0] for x in ins],[x[0] for x in outs]))
    return res
cases=open(sys.argv[1]).read().splitlines(); a=open(sys.argv[2]).read().splitlines(); b=open(sys.argv[3]).read().splitlines()
k=int(sys.argv[4])
L,e=evs(list(map(int,cases[k].split())))
sa=steps(list(map(int,a[k].split()))); sb=steps(list(map(int,b[k].split())))
print('limits',L)
for j,x in enumerate(e):
    ia=sa[j] if j<len(sa) else '-'; ib=sb[j] if j<len(sb) else '-'
    print(j,x); print('   impl ',ia); 
    if ia!=ib: print('   MODEL',ib)
