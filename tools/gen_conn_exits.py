#!/usr/bin/env python3
"""Skeleton extractor for C07: the early-exit sites of the TCP connection event loop.

Reads src/transport/tcp/connection.rs (regex level, strings and comments blanked, braces matched)
and lists, for the four functions that make up the loop

    0 handle_yamux_substream   1 handle_negotiated_substream   2 handle_protocol_command   3 start

every site through which control can leave the loop:

    kind 0   a `?` (try operator)
    kind 1   a `return`
    kind 2   a tail `Ok(true)` (the handler asks `start` to stop)

with, for each site,

    callee   the function of interest the site hangs on: for a `?` the last one named in the same
             statement, for a `return` / `Ok(true)` the last one named before it in the same arm
             (0 none, 1 report_connection_closed, 2 try_get_permit, 3 report_substream_open,
              4 report_substream_open_failure, 5 handle_yamux_substream,
              6 handle_negotiated_substream, 7 handle_protocol_command)
    closed   whether a call of `report_connection_closed` precedes the site inside the same arm
             (the outermost `=> {` block of the function that contains the site)

and writes them to coq/gen/ConnExits.v. coq/C07 proves that the model's exit table equals this list
(`exits_match`), so a new `?`/`return` in the loop breaks a proof obligation.
Called from gen_consts.py on every check; can be run by hand (prints the table)."""
import os
import re
import sys

FUNCS = ["handle_yamux_substream", "handle_negotiated_substream", "handle_protocol_command", "start"]
CALLEES = ["report_connection_closed", "try_get_permit", "report_substream_open",
           "report_substream_open_failure", "handle_yamux_substream", "handle_negotiated_substream",
           "handle_protocol_command"]
PATH = "src/transport/tcp/connection.rs"
HERE = os.path.dirname(os.path.abspath(__file__))
OUT = os.path.join(HERE, "..", "coq", "gen", "ConnExits.v")


def blank(src):
    """Replace the contents of comments, string and char literals by spaces (same length)."""
    out = list(src)
    i, n = 0, len(src)
    while i < n:
        if src.startswith("//", i):
            j = src.find("\n", i)
            j = n if j < 0 else j
            for k in range(i, j):
                out[k] = " "
            i = j
        elif src.startswith("/*", i):
            j = src.find("*/", i + 2)
            j = n if j < 0 else j + 2
            for k in range(i, j):
                if out[k] != "\n":
                    out[k] = " "
            i = j
        elif src[i] == '"':
            j = i + 1
            while j < n and src[j] != '"':
                j += 2 if src[j] == "\\" else 1
            for k in range(i + 1, min(j, n)):
                if out[k] != "\n":
                    out[k] = " "
            i = j + 1
        elif src[i] == "'" and i + 2 < n and (src[i + 2] == "'" or (src[i + 1] == "\\" and i + 3 < n and src[i + 3] == "'")):
            j = i + (2 if src[i + 2] == "'" else 3)
            for k in range(i + 1, j):
                out[k] = " "
            i = j + 1
        else:
            i += 1
    return "".join(out)


def body_of(src, name):
    m = re.search(r"\bfn\s+" + name + r"\s*\(", src)
    if not m:
        return None
    i = src.find("{", m.end())
    # skip to the brace that opens the body: the first `{` after the signature's `)` ... `->` type
    depth, j = 0, i
    while j < len(src):
        if src[j] == "{":
            depth += 1
        elif src[j] == "}":
            depth -= 1
            if depth == 0:
                return src[i:j + 1]
        j += 1
    return None


def last_callee(text):
    best, pos = 0, -1
    for k, c in enumerate(CALLEES, 1):
        for m in re.finditer(r"\b" + c + r"\b", text):
            if m.start() > pos:
                best, pos = k, m.start()
    return best


def sites_of(body):
    # arm of every position: start offset of the outermost enclosing `=> {` block (or 0)
    stack = []      # (offset of `{`, is_arm)
    arm_at = [0] * len(body)
    last_sep = 0
    for i, ch in enumerate(body):
        outer = next((o for (o, a) in stack if a), 0)
        arm_at[i] = outer
        if ch == "{":
            head = body[last_sep:i]
            stack.append((i, "=>" in head and i > 0))
            last_sep = i + 1
        elif ch == "}":
            if stack:
                stack.pop()
            last_sep = i + 1
        elif ch in ";,":
            last_sep = i + 1
    found = []
    for m in re.finditer(r"(?<=[\)\w\]])\?(?!\w)", body):
        found.append((m.start(), 0))
    for m in re.finditer(r"\breturn\b", body):
        found.append((m.start(), 1))
    for m in re.finditer(r"\bOk\(true\)", body):
        if not re.search(r"\breturn\s+$", body[:m.start()]):
            found.append((m.start(), 2))
    found.sort()
    out = []
    for pos, kind in found:
        arm = body[arm_at[pos]:pos]
        if kind == 0:
            # the statement the `?` belongs to: walk back to a `;`, `{` or `}` at the site's depth
            depth, j = 0, pos - 1
            while j >= 0:
                c = body[j]
                if c in ")]":
                    depth += 1
                elif c in "([":
                    depth -= 1
                    if depth < 0:
                        break
                elif c == "}":
                    nxt = body[j + 1:pos].lstrip()[:1]
                    if depth == 0 and nxt not in (".", "?"):
                        break       # a block statement that ended before this one
                    depth += 1
                elif c == "{":
                    depth -= 1
                    if depth < 0:
                        break
                elif c == ";" and depth <= 0:
                    break
                j -= 1
            callee = last_callee(body[j + 1:pos])
        else:
            callee = last_callee(arm)
        closed = re.search(r"\breport_connection_closed\b", arm) is not None
        out.append((kind, callee, closed))
    return out


def extract(repo):
    try:
        src = open(os.path.join(repo, PATH)).read()
    except OSError:
        return None, [("CONN_EXIT_SITES", PATH, "file not found")]
    src = blank(src)
    table, missing = [], []
    for f, name in enumerate(FUNCS):
        b = body_of(src, name)
        if b is None:
            missing.append(("CONN_EXIT_SITES", PATH, "fn %s not found" % name))
            continue
        for kind, callee, closed in sites_of(b):
            table.append((f, kind, callee, closed))
    return table, missing


def generate(repo):
    table, missing = extract(repo)
    if table is None:
        table = []
    lines = [
        "(* GENERATED by tools/gen_conn_exits.py from src/transport/tcp/connection.rs on every check. Do not edit.",
        "   One entry per early-exit site of the connection event loop, in source order:",
        "   (function, (kind, (callee, report_connection_closed called before the site in the same arm))).",
        "   function: 0 handle_yamux_substream 1 handle_negotiated_substream 2 handle_protocol_command 3 start;",
        "   kind: 0 `?`  1 `return`  2 tail `Ok(true)`;",
        "   callee: 0 none 1 report_connection_closed 2 try_get_permit 3 report_substream_open",
        "           4 report_substream_open_failure 5 handle_yamux_substream 6 handle_negotiated_substream",
        "           7 handle_protocol_command. *)",
        "From Coq Require Import List NArith Bool.",
        "Import ListNotations.",
        "Open Scope N_scope.",
        "",
        "Definition conn_exits : list (N * (N * (N * bool))) :=",
        "  [" + ";\n   ".join("(%d, (%d, (%d, %s)))" % (f, k, c, "true" if d else "false") for f, k, c, d in table) + "].",
        "",
        "Definition conn_exits_complete : bool := %s." % ("false" if missing else "true"),
    ]
    text = "\n".join(lines) + "\n"
    os.makedirs(os.path.dirname(OUT), exist_ok=True)
    old = open(OUT).read() if os.path.exists(OUT) else None
    if old != text:
        open(OUT, "w").write(text)
    return table, missing


if __name__ == "__main__":
    t, miss = generate(os.environ.get("VERIF_REPO", "/repo"))
    for row in t:
        print("%s  kind=%d callee=%s closed_before=%s" % (FUNCS[row[0]], row[1], ([None] + CALLEES)[row[2]], row[3]))
    for m in miss:
        print("MISSING", m, file=sys.stderr)
    sys.exit(3 if miss else 0)
