#!/usr/bin/env python3
"""Skeleton extractor for C07: the early-exit sites of the connection event loops.

Reads the connection event loop of every transport (regex level, strings and comments blanked,
braces matched):

    tcp    src/transport/tcp/connection.rs        split into four functions
             0 handle_yamux_substream  1 handle_negotiated_substream  2 handle_protocol_command  3 start
    ws     src/transport/websocket/connection.rs  one function `start`; the first column is the
    quic   src/transport/quic/connection.rs       `tokio::select!` branch the site lies in
             0 the connection (yamux / accept_bi)  1 pending_substreams  2 protocol_set (commands)

and lists every site through which control can leave the loop:

    kind 0   a `?` (try operator)
    kind 1   a `return`
    kind 2   a tail `Ok(true)` (a tcp handler asks `start` to stop)

with, for each site,

    callee   the function of interest the site hangs on: for a `?` the last one named in the same
             statement, for a `return` / `Ok(true)` the last one named in the innermost match arm up
             to the end of the statement
             (0 none, 1 report_connection_closed, 2 try_get_permit, 3 report_substream_open,
              4 report_substream_open_failure, 5 handle_yamux_substream,
              6 handle_negotiated_substream, 7 handle_protocol_command)
    closed   whether a call of `report_connection_closed` dominates the site: it comes textually
             before it (for a `return`: before the end of the return statement) in a block that
             encloses the site (same block or an ancestor; a call in a sibling arm does not count)

and writes them to coq/gen/ConnExits.v as conn_exits / ws_exits / quic_exits. coq/C07 proves that
the model's exit tables equal these lists (`exits_match`, `ws_exits_match`, `quic_exits_match`), so
a new `?`/`return` in any of the loops breaks a proof obligation.
Called from gen_consts.py on every check; can be run by hand (prints the tables)."""
import os
import re
import sys

FUNCS = ["handle_yamux_substream", "handle_negotiated_substream", "handle_protocol_command", "start"]
CALLEES = ["report_connection_closed", "try_get_permit", "report_substream_open",
           "report_substream_open_failure", "handle_yamux_substream", "handle_negotiated_substream",
           "handle_protocol_command"]
PATH = "src/transport/tcp/connection.rs"
# (coq name, constant name, file, functions, first column = "fn" | "branch")
LOOPS = [
    ("conn_exits", "CONN_EXIT_SITES", PATH, FUNCS, "fn"),
    ("ws_exits", "WS_EXIT_SITES", "src/transport/websocket/connection.rs", ["start"], "branch"),
    ("quic_exits", "QUIC_EXIT_SITES", "src/transport/quic/connection.rs", ["start"], "branch"),
]
HERE = os.path.dirname(os.path.abspath(__file__))
OUT = os.path.join(HERE, "..", "coq", "gen", "ConnExits.v")


def blank(src):
    """Replace the contents of comments, string and char literals by spaces (same length)."""
    out = list(src)
    i, n = 0, len(src)
    while i < n:
        if src.startswith("//", i):
            j = src.find("\n", i)
            j = n if j < 0 else j
            for k in range(i, j):
                out[k] = " "
            i = j
        elif src.startswith("/*", i):
            j = src.find("*/", i + 2)
            j = n if j < 0 else j + 2
            for k in range(i, j):
                if out[k] != "\n":
                    out[k] = " "
            i = j
        elif src[i] == '"':
            j = i + 1
            while j < n and src[j] != '"':
                j += 2 if src[j] == "\\" else 1
            for k in range(i + 1, min(j, n)):
                if out[k] != "\n":
                    out[k] = " "
            i = j + 1
        elif src[i] == "'" and i + 2 < n and (src[i + 2] == "'" or (src[i + 1] == "\\" and i + 3 < n and src[i + 3] == "'")):
            j = i + (2 if src[i + 2] == "'" else 3)
            for k in range(i + 1, j):
                out[k] = " "
            i = j + 1
        else:
            i += 1
    return "".join(out)


def body_of(src, name):
    m = re.search(r"\bfn\s+" + name + r"\s*\(", src)
    if not m:
        return None
    i = src.find("{", m.end())
    # skip to the brace that opens the body: the first `{` after the signature's `)` ... `->` type
    depth, j = 0, i
    while j < len(src):
        if src[j] == "{":
            depth += 1
        elif src[j] == "}":
            depth -= 1
            if depth == 0:
                return src[i:j + 1]
        j += 1
    return None


def last_callee(text):
    best, pos = 0, -1
    for k, c in enumerate(CALLEES, 1):
        for m in re.finditer(r"\b" + c + r"\b", text):
            if m.start() > pos:
                best, pos = k, m.start()
    return best


def sites_of(body):
    """[(kind, callee, closed, branch)] in source order; branch = ordinal of the outermost `=> {`
    block of the function that contains the site (-1 if none)."""
    n = len(body)
    stack = []            # (offset of `{`, is_arm)
    stack_at = [None] * n
    arms = []             # offsets of outermost arms, in order
    last_sep = 0
    for i, ch in enumerate(body):
        if ch == "{":
            head = body[last_sep:i]
            is_arm = "=>" in head and i > 0
            if is_arm and not any(a for (_, a) in stack):
                arms.append(i)
            stack.append((i, is_arm))
            last_sep = i + 1
            stack_at[i] = tuple(stack)
        elif ch == "}":
            stack_at[i] = tuple(stack)
            if stack:
                stack.pop()
            last_sep = i + 1
        else:
            stack_at[i] = tuple(stack)
            if ch in ";,":
                last_sep = i + 1
    found = []
    for m in re.finditer(r"(?<=[\)\w\]])\?(?!\w)", body):
        found.append((m.start(), 0))
    for m in re.finditer(r"\breturn\b", body):
        found.append((m.start(), 1))
    for m in re.finditer(r"\bOk\(true\)", body):
        if not re.search(r"\breturn\s+$", body[:m.start()]):
            found.append((m.start(), 2))
    found.sort()
    closed_calls = [m.start() for m in re.finditer(r"\breport_connection_closed\b", body)]
    out = []
    for pos, kind in found:
        st = stack_at[pos]
        # end of the statement (for a `return`: the value expression belongs to the site)
        end = pos
        if kind == 1:
            depth, j = 0, pos
            while j < n:
                c = body[j]
                if c in "([{":
                    depth += 1
                elif c in ")]}":
                    depth -= 1
                    if depth < 0:
                        break
                elif c == ";" and depth == 0:
                    break
                j += 1
            end = j
        if kind == 0:
            # the statement the `?` belongs to: walk back to a `;`, `{` or `}` at the site's depth
            depth, j = 0, pos - 1
            while j >= 0:
                c = body[j]
                if c in ")]":
                    depth += 1
                elif c in "([":
                    depth -= 1
                    if depth < 0:
                        break
                elif c == "}":
                    nxt = body[j + 1:pos].lstrip()[:1]
                    if depth == 0 and nxt not in (".", "?"):
                        break       # a block statement that ended before this one
                    depth += 1
                elif c == "{":
                    depth -= 1
                    if depth < 0:
                        break
                elif c == ";" and depth <= 0:
                    break
                j -= 1
            callee = last_callee(body[j + 1:pos])
        else:
            inner = [o for (o, a) in st if a]
            callee = last_callee(body[(inner[-1] if inner else 0):end])
        closed = any(q < end and stack_at[q] == st[:len(stack_at[q])] for q in closed_calls)
        outer = [o for (o, a) in st if a]
        branch = arms.index(outer[0]) if outer else -1
        out.append((kind, callee, closed, branch))
    return out


def extract_loop(repo, path, funcs, first):
    try:
        src = open(os.path.join(repo, path)).read()
    except OSError:
        return None, "file not found"
    src = blank(src)
    table = []
    for f, name in enumerate(funcs):
        b = body_of(src, name)
        if b is None:
            return table, "fn %s not found" % name
        for kind, callee, closed, branch in sites_of(b):
            table.append((f if first == "fn" else max(branch, 0) if branch >= 0 else 9, kind, callee, closed))
    return table, None


def extract(repo):
    """tcp table only (kept for callers of the first version)"""
    t, why = extract_loop(repo, PATH, FUNCS, "fn")
    return t, ([("CONN_EXIT_SITES", PATH, why)] if why else [])


def generate(repo):
    """-> ({constant name: number of sites}, missing)"""
    lines = [
        "(* GENERATED by tools/gen_conn_exits.py from the connection event loops of the Rust source on every check.",
        "   Do not edit. One entry per early-exit site, in source order:",
        "   (first, (kind, (callee, report_connection_closed dominates the site))).",
        "   first: conn_exits (tcp): the function, 0 handle_yamux_substream 1 handle_negotiated_substream",
        "          2 handle_protocol_command 3 start; ws_exits / quic_exits: the select! branch of `start`,",
        "          0 connection 1 pending_substreams 2 protocol commands;",
        "   kind: 0 `?`  1 `return`  2 tail `Ok(true)`;",
        "   callee: 0 none 1 report_connection_closed 2 try_get_permit 3 report_substream_open",
        "           4 report_substream_open_failure 5 handle_yamux_substream 6 handle_negotiated_substream",
        "           7 handle_protocol_command. *)",
        "From Coq Require Import List NArith Bool.",
        "Import ListNotations.",
        "Open Scope N_scope.",
        "",
    ]
    counts, missing = {}, []
    for coq, const, path, funcs, first in LOOPS:
        table, why = extract_loop(repo, path, funcs, first)
        if why:
            missing.append((const, path, why))
        table = table or []
        if not why:
            counts[const] = len(table)
        lines += [
            "Definition %s : list (N * (N * (N * bool))) :=" % coq,
            "  [" + ";\n   ".join("(%d, (%d, (%d, %s)))" % (f, k, c, "true" if d else "false") for f, k, c, d in table) + "].",
            "Definition %s_complete : bool := %s." % (coq, "false" if why else "true"),
            "",
        ]
    text = "\n".join(lines)
    os.makedirs(os.path.dirname(OUT), exist_ok=True)
    old = open(OUT).read() if os.path.exists(OUT) else None
    if old != text:
        open(OUT, "w").write(text)
    return counts, missing


if __name__ == "__main__":
    repo = os.environ.get("VERIF_REPO", "/repo")
    counts, miss = generate(repo)
    for coq, const, path, funcs, first in LOOPS:
        t, why = extract_loop(repo, path, funcs, first)
        print("== %s (%s)%s" % (coq, path, " MISSING: " + why if why else ""))
        for row in t or []:
            print("  %s=%d  kind=%d callee=%s closed_before=%s" % (first, row[0], row[1], ([None] + CALLEES)[row[2]], row[3]))
    for m in miss:
        print("MISSING", m, file=sys.stderr)
    sys.exit(3 if miss else 0)
