#!/usr/bin/env python3
"""Translator for C15: the dispatch tables of the Kademlia `QueryEngine`.

From src/protocol/libp2p/kademlia/query/mod.rs:
  * the variants of `enum QueryType` with the type of their `context` field,
  * the variants of `pub enum QueryAction`,
  * for `register_response`: per query type the `KademliaMessage` variants that are matched explicitly
    with the context method called for them, and the method called for every other message,
  * for `register_response_failure`, `register_send_failure`, `register_send_success`,
    `next_peer_action` and `next_action`: per query type the context method that is called (or `None`),
  * for `register_peer_failure`: the sequence of `self.<method>` calls,
  * for `on_query_succeeded`: per query type the `QueryAction` variant that is returned, and the
    variant returned by `on_query_failed`.
From message.rs the variants of `pub enum KademliaMessage`; from handle.rs the variants of
`pub enum Quorum`; from find_node.rs / get_record.rs / get_providers.rs the `KademliaMessage::<ctor>`
used for the cached request (`kad_message`).

Written to coq/gen/KadDispatch.v and harness/src/gen_c15_dispatch.rs on every check. coq/C15/Engine.v
defines the model's dispatch functions by hand; `C15_dispatch_in_sync` proves (by computation) that they
agree with these tables, so a new / renamed / reordered variant or a changed mapping breaks a proof
obligation of ./check C15; the harness enumerates the message kinds and query types from the generated
Rust table and refuses (marker trace) a name it has no constructor for.

Anything this translator cannot read is reported as missing. Called from gen_consts.py; can be run by
hand (prints the Coq file)."""
import os
import re
import sys

HERE = os.path.dirname(os.path.abspath(__file__))
OUT = os.path.join(HERE, "..", "coq", "gen", "KadDispatch.v")
OUT_RS = os.path.join(HERE, "..", "harness", "src", "gen_c15_dispatch.rs")
Q = "src/protocol/libp2p/kademlia/query/"
MSG = "src/protocol/libp2p/kademlia/message.rs"
HANDLE = "src/protocol/libp2p/kademlia/handle.rs"

sys.path.insert(0, HERE)
from gen_c18_sites import blank, match_brace, strip_tests  # noqa: E402


def enum_body(clean, header_rx):
    m = re.search(header_rx, clean)
    if not m:
        return None
    start = clean.index("{", m.end() - 1)
    end = match_brace(clean, start)
    return clean[start + 1:end - 1]


def top_variants(body):
    """[(name, payload text)] of an enum body (comments already blanked)."""
    res = []
    i, n = 0, len(body)
    while i < n:
        m = re.compile(r"\s*(?:#\[[^\]]*\]\s*)*([A-Z]\w*)").match(body, i)
        if not m:
            break
        name = m.group(1)
        j = m.end()
        while j < n and body[j].isspace():
            j += 1
        payload = ""
        if j < n and body[j] == "{":
            e = match_brace(body, j)
            payload = body[j + 1:e - 1]
            j = e
        elif j < n and body[j] == "(":
            d = 0
            k = j
            while k < n:
                if body[k] == "(":
                    d += 1
                elif body[k] == ")":
                    d -= 1
                    if d == 0:
                        break
                k += 1
            payload = body[j + 1:k]
            j = k + 1
        res.append((name, payload))
        k = body.find(",", j)
        if k < 0:
            break
        i = k + 1
    return res


def fn_body(clean, name):
    m = re.search(r"\bfn\s+" + name + r"\s*\(", clean)
    if not m:
        return None
    start = clean.index("{", m.end())
    end = match_brace(clean, start)
    return clean[start + 1:end - 1]


def arms_by_type(body, with_some=True):
    """{query type: arm text} for a `match` over QueryType (text up to the next arm header)."""
    rx = re.compile((r"Some\(\s*" if with_some else r"") + r"QueryType::(\w+)\s*\{[^{}]*\}\s*" + (r"\)\s*" if with_some else r"") + r"=>")
    heads = list(rx.finditer(body))
    res = []
    for i, h in enumerate(heads):
        end = heads[i + 1].start() if i + 1 < len(heads) else len(body)
        res.append((h.group(1), body[h.end():end]))
    return res


def called(text):
    m = re.search(r"\bcontext\s*\.\s*(\w+)\s*\(", text)
    if m:
        return m.group(1)
    if re.search(r"\bNone\b", text):
        return "None"
    return None


def generate(repo):
    missing = []

    def read(path):
        try:
            return strip_tests(open(os.path.join(repo, path)).read())
        except OSError:
            missing.append(("C15_DISPATCH", path, "file not found"))
            return ""

    src = read(Q + "mod.rs")
    clean = blank(src)
    t = {}

    body = enum_body(clean, r"\benum\s+QueryType\s*\{")
    qtypes = []
    if body is None:
        missing.append(("C15_QUERY_TYPES", Q + "mod.rs", "enum QueryType not found"))
    else:
        for name, payload in top_variants(body):
            m = re.search(r"\bcontext\s*:\s*(\w+)", payload)
            qtypes.append((name, m.group(1) if m else "?"))
            if not m:
                missing.append(("C15_QUERY_TYPES", Q + "mod.rs", "no context field in QueryType::" + name))
    t["query_types"] = qtypes
    names = [n for n, _ in qtypes]

    body = enum_body(clean, r"\bpub\s+enum\s+QueryAction\s*\{")
    t["query_actions"] = [n for n, _ in top_variants(body)] if body else []
    if not body:
        missing.append(("C15_QUERY_ACTIONS", Q + "mod.rs", "enum QueryAction not found"))

    msrc = blank(read(MSG))
    body = enum_body(msrc, r"\bpub\s+enum\s+KademliaMessage\s*\{")
    t["message_kinds"] = [n for n, _ in top_variants(body)] if body else []
    if not body:
        missing.append(("C15_MESSAGE_KINDS", MSG, "enum KademliaMessage not found"))

    hsrc = blank(read(HANDLE))
    body = enum_body(hsrc, r"\bpub\s+enum\s+Quorum\s*\{")
    t["quorum_variants"] = [n for n, _ in top_variants(body)] if body else []
    if not body:
        missing.append(("C15_QUORUM", HANDLE, "enum Quorum not found"))

    # register_response
    resp = []
    body = fn_body(clean, "register_response")
    if body is None:
        missing.append(("C15_RESPONSE", Q + "mod.rs", "fn register_response not found"))
    else:
        for qt, arm in arms_by_type(body):
            parts = re.split(r"\bmessage\s*=>", arm, maxsplit=1)
            explicit = []
            heads = list(re.finditer(r"KademliaMessage::(\w+)\s*\{[^{}]*\}\s*=>", parts[0]))
            for i, h in enumerate(heads):
                end = heads[i + 1].start() if i + 1 < len(heads) else len(parts[0])
                c = called(parts[0][h.end():end])
                if c is None:
                    missing.append(("C15_RESPONSE", Q + "mod.rs", "unreadable arm %s/%s" % (qt, h.group(1))))
                explicit.append((h.group(1), c or "?"))
            fb = called(parts[1]) if len(parts) > 1 else None
            if fb is None:
                missing.append(("C15_RESPONSE", Q + "mod.rs", "no fallback arm for " + qt))
            resp.append((qt, explicit, fb or "?"))
        if [q for q, _, _ in resp] != names:
            missing.append(("C15_RESPONSE", Q + "mod.rs", "register_response does not list the query types in order"))
    t["response"] = resp

    simple = {}
    for fn, some in [("register_response_failure", True), ("register_send_failure", True),
                     ("register_send_success", True), ("next_peer_action", True), ("next_action", False)]:
        body = fn_body(clean, fn)
        rows = []
        if body is None:
            missing.append(("C15_" + fn.upper(), Q + "mod.rs", "fn not found"))
        else:
            for qt, arm in arms_by_type(body, some):
                c = called(arm)
                if c is None:
                    missing.append(("C15_" + fn.upper(), Q + "mod.rs", "unreadable arm " + qt))
                rows.append((qt, c or "?"))
            if sorted(q for q, _ in rows) != sorted(names):
                missing.append(("C15_" + fn.upper(), Q + "mod.rs", "arms do not cover the query types exactly once"))
        # canonical order: the order of enum QueryType
        order = {n: i for i, n in enumerate(names)}
        rows.sort(key=lambda r: order.get(r[0], 99))
        simple[fn] = rows
    t["simple"] = simple

    body = fn_body(clean, "register_peer_failure")
    t["peer_failure_calls"] = re.findall(r"\bself\s*\.\s*(\w+)\s*\(", body) if body else []
    if not body:
        missing.append(("C15_PEER_FAILURE", Q + "mod.rs", "fn register_peer_failure not found"))

    body = fn_body(clean, "on_query_succeeded")
    succ = []
    if body is None:
        missing.append(("C15_SUCCESS", Q + "mod.rs", "fn on_query_succeeded not found"))
    else:
        succ = re.findall(r"QueryType::(\w+)\s*\{[^{}]*\}\s*=>\s*QueryAction::(\w+)", body)
        if [q for q, _ in succ] != names:
            missing.append(("C15_SUCCESS", Q + "mod.rs", "on_query_succeeded does not list the query types in order"))
    t["success"] = succ
    body = fn_body(clean, "on_query_failed")
    m = re.search(r"QueryAction::(\w+)", body or "")
    t["failed"] = m.group(1) if m else "?"
    if not m:
        missing.append(("C15_FAILED", Q + "mod.rs", "on_query_failed unreadable"))

    req = []
    for ctx, path in [("FindNodeContext", Q + "find_node.rs"), ("GetRecordContext", Q + "get_record.rs"),
                      ("GetProvidersContext", Q + "get_providers.rs")]:
        c = blank(read(path))
        m = re.search(r"let\s+kad_message\s*=\s*KademliaMessage::(\w+)\s*\(", c)
        if not m:
            missing.append(("C15_REQUEST", path, "kad_message constructor not found"))
        req.append((ctx, m.group(1) if m else "?"))
    t["request_ctor"] = req

    write(t)
    counts = {"C15_QUERY_TYPES": len(t["query_types"]), "C15_MESSAGE_KINDS": len(t["message_kinds"]),
              "C15_QUERY_ACTIONS": len(t["query_actions"])}
    return counts, missing


def write(t):
    def s(x):
        return '"%s"' % x

    def strs(l):
        return "[" + "; ".join(s(x) for x in l) + "]"

    def pairs(l):
        return "[" + "; ".join("(%s, %s)" % (s(a), s(b)) for a, b in l) + "]"

    lines = [
        "(* GENERATED by tools/gen_c15_dispatch.py from src/protocol/libp2p/kademlia/{query/*.rs,message.rs,handle.rs}",
        "   on every check. Do not edit. *)",
        "From Coq Require Import List String.",
        "Import ListNotations.",
        "Open Scope string_scope.",
        "",
        "(* enum QueryType: (variant, type of its `context` field), in source order *)",
        "Definition query_types : list (string * string) := " + pairs(t["query_types"]) + ".",
        "(* pub enum QueryAction, pub enum KademliaMessage, pub enum Quorum: variants in source order *)",
        "Definition query_actions : list string := " + strs(t["query_actions"]) + ".",
        "Definition message_kinds : list string := " + strs(t["message_kinds"]) + ".",
        "Definition quorum_variants : list string := " + strs(t["quorum_variants"]) + ".",
        "",
        "(* QueryEngine::register_response: (query type, [(message variant, context method)], method for any other message) *)",
        "Definition response : list (string * list (string * string) * string) :=",
        "  [" + ";\n   ".join("(%s, %s, %s)" % (s(q), pairs(e), s(f)) for q, e, f in t["response"]) + "].",
        "",
    ]
    for fn in ["register_response_failure", "register_send_failure", "register_send_success", "next_peer_action", "next_action"]:
        lines.append("(* QueryEngine::%s: (query type, context method called; \"None\" = no call) *)" % fn)
        lines.append("Definition %s : list (string * string) := %s." % (fn, pairs(t["simple"].get(fn, []))))
    lines += [
        "",
        "(* QueryEngine::register_peer_failure: the engine methods it calls, in order *)",
        "Definition peer_failure_calls : list string := " + strs(t["peer_failure_calls"]) + ".",
        "(* on_query_succeeded: (query type, QueryAction variant); on_query_failed *)",
        "Definition success : list (string * string) := " + pairs(t["success"]) + ".",
        "Definition failed : string := " + s(t["failed"]) + ".",
        "(* the request every lookup context caches: (context type, KademliaMessage constructor) *)",
        "Definition request_ctor : list (string * string) := " + pairs(t["request_ctor"]) + ".",
    ]
    text = "\n".join(lines) + "\n"
    os.makedirs(os.path.dirname(OUT), exist_ok=True)
    old = open(OUT).read() if os.path.exists(OUT) else None
    if old != text:
        open(OUT, "w").write(text)

    def rstrs(l):
        return "&[" + ", ".join('"%s"' % x for x in l) + "]"

    rs = [
        "// GENERATED by tools/gen_c15_dispatch.py from the Kademlia query sources on every check. Do not edit.",
        "#[rustfmt::skip]",
        "pub const QUERY_TYPES: &[&str] = %s;" % rstrs([n for n, _ in t["query_types"]]),
        "#[rustfmt::skip]",
        "pub const QUERY_ACTIONS: &[&str] = %s;" % rstrs(t["query_actions"]),
        "#[rustfmt::skip]",
        "pub const MESSAGE_KINDS: &[&str] = %s;" % rstrs(t["message_kinds"]),
        "#[rustfmt::skip]",
        "pub const QUORUM_VARIANTS: &[&str] = %s;" % rstrs(t["quorum_variants"]),
    ]
    rtext = "\n".join(rs) + "\n"
    old = open(OUT_RS).read() if os.path.exists(OUT_RS) else None
    if old != rtext:
        open(OUT_RS, "w").write(rtext)


if __name__ == "__main__":
    repo = os.environ.get("VERIF_REPO", "/repo")
    counts, miss = generate(repo)
    print(open(OUT).read())
    for m in miss:
        print("MISSING", m, file=sys.stderr)
