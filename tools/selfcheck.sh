#!/bin/bash
# usage: tools/selfcheck.sh [ids...] — what `vp check` does, run in place: setup, then every quick check once with its evidence
# file removed first; validates MANIFEST.json and every evidence file against the schemas; prints one line per property.
cd "$(dirname "$0")/.."
export CARGO_NET_OFFLINE=true GOPROXY=off PIP_NO_INDEX=1 VERIF_SEED=${VERIF_SEED:-1} VERIF_TIER=quick
ids=${@:-$(python3 -c "import json;print(' '.join(c['property_id'] for c in json.load(open('MANIFEST.json'))['checks']))")}
t0=$(date +%s); ./setup.sh > work/selfcheck_setup.log 2>&1; echo "setup rc=$? $(( $(date +%s)-t0 ))s"
for p in $ids; do
  rm -f evidence/$p.json
  t0=$(date +%s)
  out=$(./check $p --tier quick 2>&1); rc=$?
  v=$(echo "$out" | grep -c '^VIOLATION')
  echo "$p rc=$rc violations=$v $(( $(date +%s)-t0 ))s evidence=$([ -f evidence/$p.json ] && echo yes || echo MISSING)"
done
python3-vt - <<'PY'
import json,jsonschema,glob
m=json.load(open('MANIFEST.json')); jsonschema.validate(m,json.load(open('/root/.vp/MANIFEST.schema.json')))
e=json.load(open('/root/.vp/EVIDENCE.schema.json'))
bad=0
for f in sorted(glob.glob('evidence/*.json')):
    try: jsonschema.validate(json.load(open(f)),e)
    except Exception as x: bad+=1; print('INVALID',f,str(x)[:200])
print('schemas ok' if not bad else 'schema failures: %d'%bad)
PY
