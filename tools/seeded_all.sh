#!/bin/bash
# usage: tools/seeded_all.sh [ids...] — regression run over the stored seeded changes: for every seeded/<id>/patch.diff and
# seeded/<id>/b/patch.diff apply the change to the checked tree ($VERIF_REPO, default /repo), run ./check <id> (quick), print
# one verdict line, undo. Never run two of these on the same tree at once.
R=${VERIF_REPO:-/repo}
cd "$(dirname "$0")/.." || exit 2
V=$(pwd)
ids=${@:-$(ls seeded | grep '^C')}
if [ -n "$(git -C $R status --porcelain)" ]; then echo "$R is not clean"; exit 2; fi
for id in $ids; do
  for pd in seeded/$id/patch.diff seeded/$id/[b-z]/patch.diff; do
    [ -f $pd ] || continue
    if ! git -C $R apply --check $V/$pd 2>/dev/null; then echo "SEEDED $pd: DOES-NOT-APPLY"; continue; fi
    git -C $R apply $V/$pd
    out=$(timeout 3000 ./check $id 2>&1); rc=$?
    v=$(echo "$out" | grep -m1 '^VIOLATION')
    if [ $rc -eq 0 ]; then verdict="MISSED"; elif echo "$v" | grep -q 'no-failing-input-found'; then verdict="caught-without-input"; elif [ -n "$v" ]; then verdict="caught-with-replay"; else verdict="check-broken(rc=$rc)"; fi
    echo "SEEDED $pd: $verdict"
    git -C $R apply -R $V/$pd || { echo "could not undo $pd"; exit 2; }
  done
done
