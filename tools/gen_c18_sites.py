#!/usr/bin/env python3
"""Skeleton extractor for C18: every place of the crate that makes a PeerId out of a key.

Scans all of src/**/*.rs (regex level; comments, strings and char literals blanked; `#[cfg(test)]`
items, `mod tests`/`mod mock` bodies and files under a `tests/` directory removed) for the
tokens through which a peer id can come into being from key material:

    kind 1   `PeerId { multihash ..`        a struct literal (the field is private to src/peer_id.rs)
    kind 2   `from_public_key_protobuf(`    call
    kind 3   `from_public_key(`             call
    kind 4   `.to_peer_id(`                 call
    kind 5   `Multihash::wrap(`             call   (src/peer_id.rs and src/crypto/** only)
    kind 6   `Sha2_256.digest(`             call   (src/peer_id.rs and src/crypto/** only)
    kind 7   `PeerId::from(` / `PeerId::try_from(`   call
    kind 8   `.into()` inside a function named `to_peer_id` (src/crypto/** only)

Definitions (`fn name(`) are not sites. Each site is reported as (file, function, kind) where
file and function are indices into the tables below (an unknown file or function gets index 99,
which no entry of the model's table has). The list is written to coq/gen/PeerIdSites.v;
coq/C18/Proofs.v proves `sites_match : derivation_sites = PeerIdSites.sites`, and the model's
table says for every site which model function it is — so a new derivation site, or a site
that changes the function it calls, breaks a proof obligation of ./check C18.

Other `.into()` conversions PublicKey -> PeerId are type-directed and invisible at this level; the
`From` impls they resolve to are sites of kind 3 in src/peer_id.rs.
Called from gen_consts.py on every check; can be run by hand (prints the table)."""
import os
import re
import sys

HERE = os.path.dirname(os.path.abspath(__file__))
OUT = os.path.join(HERE, "..", "coq", "gen", "PeerIdSites.v")

FILES = [
    "src/peer_id.rs",                       # 0
    "src/crypto/mod.rs",                    # 1
    "src/crypto/ed25519.rs",                # 2
    "src/crypto/noise/mod.rs",              # 3
    "src/crypto/tls/certificate.rs",        # 4
    "src/protocol/libp2p/identify.rs",      # 5
    "src/lib.rs",                           # 6
    "src/transport/manager/mod.rs",         # 7
    "src/crypto/rsa.rs",                    # 8
]
FUNCS = [
    "from_public_key",            # 0
    "from_public_key_protobuf",   # 1
    "from_bytes",                 # 2
    "from_multihash",             # 3
    "try_from_multiaddr",         # 4
    "random",                     # 5
    "is_public_key",              # 6
    "from",                       # 7   (the From impls)
    "try_from",                   # 8
    "to_peer_id",                 # 9
    "parse_and_verify_peer_id",   # 10
    "parse_unverified",           # 11
    "new",                        # 12
    "deserialize",                # 13
    "visit_bytes",                # 14
    "visit_str",                  # 15
    "from_str",                   # 16
    "build",                      # 17
]
KINDS = [
    (1, r"\bPeerId\s*\{\s*multihash\b", None),
    (2, r"\bfrom_public_key_protobuf\s*\(", None),
    (3, r"\bfrom_public_key\s*\(", None),
    (4, r"\.\s*to_peer_id\s*\(", None),
    (5, r"\bMultihash::wrap\s*\(", ("src/peer_id.rs", "src/crypto/")),
    (6, r"\bSha2_256\s*\.\s*digest\s*\(", ("src/peer_id.rs", "src/crypto/")),
    (7, r"(?<!multiaddr::)\bPeerId::(?:try_)?from\s*\(", None),
    (8, r"\.\s*into\s*\(\s*\)", ("src/crypto/",)),
]


def blank(src):
    """Replace the contents of comments, string and char literals by spaces (same length)."""
    out = list(src)
    i, n = 0, len(src)
    while i < n:
        if src.startswith("//", i):
            j = src.find("\n", i)
            j = n if j < 0 else j
            for k in range(i, j):
                out[k] = " "
            i = j
        elif src.startswith("/*", i):
            j = src.find("*/", i + 2)
            j = n if j < 0 else j + 2
            for k in range(i, j):
                if out[k] != "\n":
                    out[k] = " "
            i = j
        elif src[i] == '"':
            j = i + 1
            while j < n and src[j] != '"':
                j += 2 if src[j] == "\\" else 1
            for k in range(i + 1, min(j, n)):
                if out[k] != "\n":
                    out[k] = " "
            i = j + 1
        elif src[i] == "'" and re.match(r"'(\\.[^']*|[^'\\])'", src[i:i + 12]):
            m = re.match(r"'(\\.[^']*|[^'\\])'", src[i:i + 12])
            for k in range(i + 1, i + m.end() - 1):
                out[k] = " "
            i += m.end()
        else:
            i += 1
    return "".join(out)


def match_brace(s, i):
    """s[i] == '{' -> index just after the matching '}'."""
    d = 0
    for j in range(i, len(s)):
        if s[j] == "{":
            d += 1
        elif s[j] == "}":
            d -= 1
            if d == 0:
                return j + 1
    return len(s)


def strip_tests(s):
    """Blank `#[cfg(test)]` items and `mod tests { .. }` / `mod mock { .. }` bodies."""
    out = list(s)
    for m in re.finditer(r"#\[cfg\(test\)\]|\bmod\s+(?:tests|mock)\s*\{", s):
        # the item starts at the attribute / mod keyword and ends at its closing brace or `;`
        j = m.end()
        while j < len(s) and s[j] not in "{;":
            j += 1
        if m.group(0).endswith("{"):
            j = m.end() - 1
        end = match_brace(s, j) if j < len(s) and s[j] == "{" else j + 1
        for k in range(m.start(), min(end, len(s))):
            if out[k] != "\n":
                out[k] = " "
    return "".join(out)


def enclosing_fn(s, pos):
    last = None
    for m in re.finditer(r"\bfn\s+(\w+)", s[:pos]):
        last = m.group(1)
    return last


def scan(repo):
    sites = []
    names = []
    root = os.path.join(repo, "src")
    paths = []
    for d, _, fs in os.walk(root):
        for f in fs:
            if f.endswith(".rs"):
                paths.append(os.path.relpath(os.path.join(d, f), repo))
    for rel in sorted(paths):
        parts = rel.split(os.sep)
        if "tests" in parts or parts[-1] in ("tests.rs", "mock.rs") or "s2n-quic" in parts:
            continue
        # verification hook files (cfg(feature = "verif"), add-only) are not part of the crate proper
        if parts[-1].startswith("verif"):
            continue
        s = strip_tests(blank(open(os.path.join(repo, rel)).read()))
        for kind, rx, only in KINDS:
            if only and not any(rel == o or rel.startswith(o) for o in only):
                continue
            for m in re.finditer(rx, s):
                # a definition is not a site
                if re.search(r"\bfn\s+$", s[max(0, m.start() - 12):m.start()]):
                    continue
                # the declaration `struct PeerId { multihash: .. }` is not a struct literal
                if kind == 1 and re.search(r"\bstruct\s+$", s[max(0, m.start() - 12):m.start()]):
                    continue
                fn = enclosing_fn(s, m.start())
                if kind == 8 and fn != "to_peer_id":
                    continue
                fi = FILES.index(rel) if rel in FILES else 99
                gi = FUNCS.index(fn) if fn in FUNCS else 99
                sites.append((fi, gi, kind, m.start()))
                names.append((rel, fn, kind))
    order = sorted(range(len(sites)), key=lambda i: sites[i])
    return [sites[i][:3] for i in order], [names[i] for i in order]


def generate(repo):
    sites, names = scan(repo)
    lines = [
        "(* GENERATED by tools/gen_c18_sites.py from the Rust source on every check. Do not edit.",
        "   Every non-test place of the crate where a PeerId is made from key material:",
        "   (file, enclosing function, kind) — see the script for the tables. *)",
        "From Coq Require Import List NArith.",
        "Import ListNotations.",
        "Open Scope N_scope.",
        "",
        "Definition sites : list (N * N * N) :=",
        "  [" + ";\n   ".join("(%d, %d, %d)" % s for s in sites) + "].",
        "",
    ]
    for (rel, fn, kind), s in zip(names, sites):
        lines.append("(* %s  %s  kind %d  -> (%d, %d, %d) *)" % ((rel, fn, kind) + s))
    text = "\n".join(lines) + "\n"
    os.makedirs(os.path.dirname(OUT), exist_ok=True)
    old = open(OUT).read() if os.path.exists(OUT) else None
    if old != text:
        open(OUT, "w").write(text)
    missing = []
    if not sites:
        missing.append(("PEER_ID_SITES", "src", "no derivation site found"))
    return {"PEER_ID_SITES": len(sites)}, missing


if __name__ == "__main__":
    repo = os.environ.get("VERIF_REPO", "/repo")
    counts, miss = generate(repo)
    print(open(OUT).read())
    print(counts, miss)
