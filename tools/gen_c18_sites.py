#!/usr/bin/env python3
"""Skeleton extractor for C18: every place of the crate that makes a PeerId out of a key.

Scans all of src/**/*.rs (regex level; comments, strings and char literals blanked; `#[cfg(test)]`
items, `mod tests`/`mod mock` bodies and files under a `tests/` directory removed) for the
tokens through which a peer id can come into being from key material:

    kind 1   `PeerId { multihash ..`        a struct literal (the field is private to src/peer_id.rs)
    kind 2   `from_public_key_protobuf(`    call
    kind 3   `from_public_key(`             call
    kind 4   `.to_peer_id(`                 call
    kind 5   `Multihash::wrap(`             call   (src/peer_id.rs and src/crypto/** only)
    kind 6   `Sha2_256.digest(`             call   (src/peer_id.rs and src/crypto/** only)
    kind 7   `PeerId::from(` / `PeerId::try_from(`   call
    kind 8   `.into()` inside a function named `to_peer_id` (src/crypto/** only)

Parse sites (second table, `parse_sites`): the places where a PeerId is made from received bytes,
text or a multiaddress component, i.e. calls of the gates modelled by of_bytes / admits /
of_component / of_text:

    kind 9    `PeerId::from_bytes(`
    kind 10   `PeerId::from_multihash(`  /  `Self::from_multihash(`
    kind 11   `PeerId::try_from_multiaddr(`
    kind 12   `PeerId::from_str(`  /  `parse::<PeerId>(`  /  `Self::from_bytes(`-free text entry
    kind 13   `Multihash::from_bytes(`   (src/peer_id.rs only: the multihash layer under from_bytes)
    kind 14   `bs58::decode(` / `bs58::encode(`   (src/peer_id.rs only)

Key admission (third table): the match arms of `impl TryFrom<keys_proto::PublicKey> for
RemotePublicKey` / `for PublicKey` in src/crypto/mod.rs as (KeyType number, behind
`#[cfg(feature = "rsa")]`), with the numbers of src/schema/keys.proto; `key_type_numbers` lists
every entry of the enum.

Definitions (`fn name(`) are not sites. Each site is reported as (file, function, kind) where
file and function are indices into the tables below (an unknown file or function gets index 99,
which no entry of the model's table has). The list is written to coq/gen/PeerIdSites.v;
coq/C18/Proofs.v proves `sites_match : derivation_sites = PeerIdSites.sites`, and the model's
table says for every site which model function it is — so a new derivation site, or a site
that changes the function it calls, breaks a proof obligation of ./check C18.

Other `.into()` conversions PublicKey -> PeerId are type-directed and invisible at this level; the
`From` impls they resolve to are sites of kind 3 in src/peer_id.rs.
Called from gen_consts.py on every check; can be run by hand (prints the table)."""
import os
import re
import sys

HERE = os.path.dirname(os.path.abspath(__file__))
OUT = os.path.join(HERE, "..", "coq", "gen", "PeerIdSites.v")

FILES = [
    "src/peer_id.rs",                       # 0
    "src/crypto/mod.rs",                    # 1
    "src/crypto/ed25519.rs",                # 2
    "src/crypto/noise/mod.rs",              # 3
    "src/crypto/tls/certificate.rs",        # 4
    "src/protocol/libp2p/identify.rs",      # 5
    "src/lib.rs",                           # 6
    "src/transport/manager/mod.rs",         # 7
    "src/crypto/rsa.rs",                    # 8
    "src/protocol/libp2p/kademlia/types.rs",    # 9
    "src/protocol/libp2p/kademlia/message.rs",  # 10
    "src/transport/common/listener.rs",         # 11
    "src/transport/websocket/mod.rs",           # 12
    "src/transport/quic/listener.rs",           # 13
    "src/addresses.rs",                         # 14
    "src/transport/webrtc/mod.rs",              # 15
    "src/transport/quic/mod.rs",                # 16
    "src/transport/tcp/mod.rs",                 # 17
    "src/transport/manager/handle.rs",          # 18
    "src/transport/manager/address.rs",         # 19
]
FUNCS = [
    "from_public_key",            # 0
    "from_public_key_protobuf",   # 1
    "from_bytes",                 # 2
    "from_multihash",             # 3
    "try_from_multiaddr",         # 4
    "random",                     # 5
    "is_public_key",              # 6
    "from",                       # 7   (the From impls)
    "try_from",                   # 8
    "to_peer_id",                 # 9
    "parse_and_verify_peer_id",   # 10
    "parse_unverified",           # 11
    "new",                        # 12
    "deserialize",                # 13
    "visit_bytes",                # 14
    "visit_str",                  # 15
    "from_str",                   # 16
    "build",                      # 17
    "record_from_schema",         # 18
    "get_socket_address",         # 19
    "dial_address",               # 20
    "to_base58",                  # 21
    "update_address_on_dial_failure",  # 22
    "next",                       # 23
    "multiaddr_to_socket_address",  # 24
    "multiaddr_into_url",         # 25
    "ensure_local_peer",          # 26
]
PARSE_KINDS = [
    (9, r"\bPeerId::from_bytes\s*\(", None),
    (10, r"\b(?:PeerId|Self)::from_multihash\s*\(", None),
    (11, r"\b(?:PeerId|Self)::try_from_multiaddr\s*\(", None),
    (12, r"\bPeerId::from_str\s*\(|parse::<\s*PeerId\s*>\s*\(", None),
    (13, r"\bMultihash::from_bytes\s*\(", ("src/peer_id.rs",)),
    (14, r"\bbs58::(?:decode|encode)\s*\(", ("src/peer_id.rs",)),
]
KINDS = [
    (1, r"\bPeerId\s*\{\s*multihash\b", None),
    (2, r"\bfrom_public_key_protobuf\s*\(", None),
    (3, r"\bfrom_public_key\s*\(", None),
    (4, r"\.\s*to_peer_id\s*\(", None),
    (5, r"\bMultihash::wrap\s*\(", ("src/peer_id.rs", "src/crypto/")),
    (6, r"\bSha2_256\s*\.\s*digest\s*\(", ("src/peer_id.rs", "src/crypto/")),
    (7, r"(?<!multiaddr::)\bPeerId::(?:try_)?from\s*\(", None),
    (8, r"\.\s*into\s*\(\s*\)", ("src/crypto/",)),
]


def blank(src):
    """Replace the contents of comments, string and char literals by spaces (same length)."""
    out = list(src)
    i, n = 0, len(src)
    while i < n:
        if src.startswith("//", i):
            j = src.find("\n", i)
            j = n if j < 0 else j
            for k in range(i, j):
                out[k] = " "
            i = j
        elif src.startswith("/*", i):
            j = src.find("*/", i + 2)
            j = n if j < 0 else j + 2
            for k in range(i, j):
                if out[k] != "\n":
                    out[k] = " "
            i = j
        elif src[i] == '"':
            j = i + 1
            while j < n and src[j] != '"':
                j += 2 if src[j] == "\\" else 1
            for k in range(i + 1, min(j, n)):
                if out[k] != "\n":
                    out[k] = " "
            i = j + 1
        elif src[i] == "'" and re.match(r"'(\\.[^']*|[^'\\])'", src[i:i + 12]):
            m = re.match(r"'(\\.[^']*|[^'\\])'", src[i:i + 12])
            for k in range(i + 1, i + m.end() - 1):
                out[k] = " "
            i += m.end()
        else:
            i += 1
    return "".join(out)


def match_brace(s, i):
    """s[i] == '{' -> index just after the matching '}'."""
    d = 0
    for j in range(i, len(s)):
        if s[j] == "{":
            d += 1
        elif s[j] == "}":
            d -= 1
            if d == 0:
                return j + 1
    return len(s)


def strip_tests(s):
    """Blank `#[cfg(test)]` items and `mod tests { .. }` / `mod mock { .. }` bodies."""
    out = list(s)
    for m in re.finditer(r"#\[cfg\(test\)\]|\bmod\s+(?:tests|mock)\s*\{", s):
        # the item starts at the attribute / mod keyword and ends at its closing brace or `;`
        j = m.end()
        while j < len(s) and s[j] not in "{;":
            j += 1
        if m.group(0).endswith("{"):
            j = m.end() - 1
        end = match_brace(s, j) if j < len(s) and s[j] == "{" else j + 1
        for k in range(m.start(), min(end, len(s))):
            if out[k] != "\n":
                out[k] = " "
    return "".join(out)


def enclosing_fn(s, pos):
    last = None
    for m in re.finditer(r"\bfn\s+(\w+)", s[:pos]):
        last = m.group(1)
    return last


def scan(repo, kinds=None):
    kinds = KINDS if kinds is None else kinds
    sites = []
    names = []
    root = os.path.join(repo, "src")
    paths = []
    for d, _, fs in os.walk(root):
        for f in fs:
            if f.endswith(".rs"):
                paths.append(os.path.relpath(os.path.join(d, f), repo))
    for rel in sorted(paths):
        parts = rel.split(os.sep)
        if "tests" in parts or parts[-1] in ("tests.rs", "mock.rs") or "s2n-quic" in parts:
            continue
        # verification hook files (cfg(feature = "verif"), add-only) are not part of the crate proper
        if parts[-1] == "verif.rs" or parts[-1].startswith("verif_"):
            continue
        s = strip_tests(blank(open(os.path.join(repo, rel)).read()))
        for kind, rx, only in kinds:
            if only and not any(rel == o or rel.startswith(o) for o in only):
                continue
            for m in re.finditer(rx, s):
                # a definition is not a site
                if re.search(r"\bfn\s+$", s[max(0, m.start() - 12):m.start()]):
                    continue
                # the declaration `struct PeerId { multihash: .. }` is not a struct literal
                if kind == 1 and re.search(r"\bstruct\s+$", s[max(0, m.start() - 12):m.start()]):
                    continue
                fn = enclosing_fn(s, m.start())
                if kind == 8 and fn != "to_peer_id":
                    continue
                fi = FILES.index(rel) if rel in FILES else 99
                gi = FUNCS.index(fn) if fn in FUNCS else 99
                sites.append((fi, gi, kind, m.start()))
                names.append((rel, fn, kind))
    order = sorted(range(len(sites)), key=lambda i: sites[i])
    return [sites[i][:3] for i in order], [names[i] for i in order]


def key_admission(repo):
    """(enum numbers in file order, remote table, local table) or None when a pattern is gone."""
    try:
        proto = open(os.path.join(repo, "src/schema/keys.proto")).read()
        src = strip_tests(blank(open(os.path.join(repo, "src/crypto/mod.rs")).read()))
    except OSError:
        return None
    m = re.search(r"enum\s+KeyType\s*\{([^}]*)\}", proto)
    if not m:
        return None
    entries = re.findall(r"(\w+)\s*=\s*(\d+)\s*;", m.group(1))
    if not entries:
        return None
    number = {name.lower(): int(v) for name, v in entries}

    def impl_body(target):
        mm = re.search(r"impl\s+TryFrom<\s*keys_proto::PublicKey\s*>\s+for\s+" + target + r"\s*\{", src)
        if not mm:
            return None
        return src[mm.end() - 1:match_brace(src, mm.end() - 1)]

    remote = impl_body("RemotePublicKey")
    local = impl_body("PublicKey")
    if remote is None or local is None:
        return None
    # the cfg attribute's string literal was blanked together with every other literal: look at the raw text
    raw = open(os.path.join(repo, "src/crypto/mod.rs")).read()
    rt = []
    mm0 = re.search(r"impl\s+TryFrom<\s*keys_proto::PublicKey\s*>\s+for\s+RemotePublicKey\s*\{", raw)
    if not mm0:
        return None
    rbody = raw[mm0.end() - 1:match_brace(raw, mm0.end() - 1)]
    for mm in re.finditer(r"(#\[cfg\(feature\s*=\s*\"rsa\"\)\]\s*)?keys_proto::KeyType::(\w+)\s*=>", rbody):
        name = mm.group(2).lower()
        if name not in number:
            return None
        rt.append((number[name], bool(mm.group(1))))
    lt = []
    for mm in re.finditer(r"key_type\s*==\s*keys_proto::KeyType::(\w+)", local):
        name = mm.group(1).lower()
        if name not in number:
            return None
        lt.append((number[name], False))
    for mm in re.finditer(r"keys_proto::KeyType::(\w+)\s*=>", local):
        name = mm.group(1).lower()
        if name not in number:
            return None
        lt.append((number[name], False))
    if not rt or not lt:
        return None
    return [int(v) for _, v in entries], rt, lt


def generate(repo):
    sites, names = scan(repo)
    psites, pnames = scan(repo, PARSE_KINDS)
    adm = key_admission(repo)
    coqb = lambda b: "true" if b else "false"
    lines = [
        "(* GENERATED by tools/gen_c18_sites.py from the Rust source on every check. Do not edit.",
        "   Every non-test place of the crate where a PeerId is made from key material:",
        "   (file, enclosing function, kind) — see the script for the tables. *)",
        "From Coq Require Import List NArith Bool.",
        "Import ListNotations.",
        "Open Scope N_scope.",
        "",
        "Definition sites : list (N * N * N) :=",
        "  [" + ";\n   ".join("(%d, %d, %d)" % s for s in sites) + "].",
        "",
        "(* every non-test place where a PeerId is made from received bytes / text / a multiaddress *)",
        "Definition parse_sites : list (N * N * N) :=",
        "  [" + ";\n   ".join("(%d, %d, %d)" % s for s in psites) + "].",
        "",
    ]
    if adm:
        nums, rt, lt = adm
        lines += [
            "(* keys.proto KeyType numbers; admitted key types of RemotePublicKey / PublicKey as",
            "   (number, behind cfg(feature = \"rsa\")) in source order *)",
            "Definition key_type_numbers : list N := [" + "; ".join(str(n) for n in nums) + "].",
            "Definition remote_admission : list (N * bool) := ["
            + "; ".join("(%d, %s)" % (n, coqb(b)) for n, b in rt) + "].",
            "Definition local_admission : list (N * bool) := ["
            + "; ".join("(%d, %s)" % (n, coqb(b)) for n, b in lt) + "].",
            "",
        ]
    else:
        lines += [
            "Definition key_type_numbers : list N := [].",
            "Definition remote_admission : list (N * bool) := [].",
            "Definition local_admission : list (N * bool) := [].",
            "",
        ]
    for (rel, fn, kind), s in zip(names, sites):
        lines.append("(* %s  %s  kind %d  -> (%d, %d, %d) *)" % ((rel, fn, kind) + s))
    for (rel, fn, kind), s in zip(pnames, psites):
        lines.append("(* parse: %s  %s  kind %d  -> (%d, %d, %d) *)" % ((rel, fn, kind) + s))
    text = "\n".join(lines) + "\n"
    os.makedirs(os.path.dirname(OUT), exist_ok=True)
    old = open(OUT).read() if os.path.exists(OUT) else None
    if old != text:
        open(OUT, "w").write(text)
    # the same KeyType numbers for the harness's exhaustive sweep (harness/src/c18_gen.rs, include!d)
    rs = os.path.join(HERE, "..", "harness", "src", "c18_gen.rs")
    nums = adm[0] if adm else []
    rtext = ("// GENERATED by tools/gen_c18_sites.py from src/schema/keys.proto on every check. Do not edit.\n"
             "pub const KEY_TYPE_NUMBERS: &[u64] = &[" + ", ".join(str(n) for n in nums) + "];\n")
    if not os.path.exists(rs) or open(rs).read() != rtext:
        open(rs, "w").write(rtext)
    missing = []
    if not sites:
        missing.append(("PEER_ID_SITES", "src", "no derivation site found"))
    if not psites:
        missing.append(("PEER_ID_PARSE_SITES", "src", "no parse site found"))
    if not adm:
        missing.append(("PEER_ID_ADMITTED_KEY_TYPES", "src/crypto/mod.rs", "key admission arms not found"))
    return {"PEER_ID_SITES": len(sites), "PEER_ID_PARSE_SITES": len(psites),
            "PEER_ID_ADMITTED_KEY_TYPES": len(adm[1]) if adm else 0}, missing


if __name__ == "__main__":
    repo = os.environ.get("VERIF_REPO", "/repo")
    counts, miss = generate(repo)
    print(open(OUT).read())
    print(counts, miss)
