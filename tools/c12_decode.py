#!/usr/bin/env python3
"""Pretty-printer for C12 cases/traces: c12_decode.py <cases> <traceA> [<traceB>] <index>"""
import sys
NAMES = ["SendSync", "SendAsync", "Gate", "UserRecv", "PollA", "CloseA", "CloseB", "Kill", "Reopen"]
SNAMES = ["Sync", "AsyncStart", "AsyncPoll", "AsyncDrop", "Conn", "Handle", "Open", "Close", "Cmd", "Gate", "Kill", "CmdFail"]
SLEN = [4, 5, 3, 3, 3, 3, 2, 2, 2, 4, 1, 2]
def acts(c):
    cfg = c[:5]; n = c[5]; i = 6; out = []
    for _ in range(n):
        t = c[i]; l = 3 if t <= 2 else 1
        out.append(c[i:i+l]); i += l
    return cfg, out, c[i:]
def blocks(xs, t):
    i = 1; out = []
    for a in xs:
        if i >= len(t): out.append(None); continue
        if a[0] == 3:
            l = {0: 1, 1: 2, 2: 1, 3: 5}.get(t[i], 1)
        elif a[0] == 4:
            n = t[i]; l = 1
            for _ in range(n):
                l += 2 if t[i+l] == 1 else 1
        else: l = 1
        out.append((t[i:i+l], t[i+l:i+l+12])); i += l + 12
    return out
def sacts(c):
    cfg = (c[1:6], c[6:11]); n = c[11]; i = 12; out = []
    for _ in range(n):
        l = SLEN[c[i]]; out.append(c[i:i+l]); i += l
    return cfg, out, c[i:]
def sblocks(xs, t):
    i = 1; out = []
    for a in xs:
        if i >= len(t): out.append(None); continue
        l = {0: 1, 1: 2, 2: 1, 3: 6}.get(t[i], 1) if a[0] == 5 else 1
        out.append((t[i:i+l], t[i+l:i+l+14])); i += l + 14
    return out
def main():
    files = sys.argv[1:-1]; idx = int(sys.argv[-1])
    c = list(map(int, open(files[0]).read().splitlines()[idx].split()))
    sched = c[0] == 9001
    if sched:
        cfg, xs, rest = sacts(c)
        print("cfg A, B (c_s c_a c_n c_c max):", cfg, "hints:", rest)
        print("dump = aliveA aliveB sfreeA afreeA sfreeB afreeB nfreeA nfreeB carAB carBA cmdsA cmdsB yes bad; x: 1=A 0=B")
        trs = [sblocks(xs, list(map(int, open(f).read().splitlines()[idx].split()))) for f in files[1:]]
        names = SNAMES
    else:
        cfg, xs, rest = acts(c)
        print("cfg caps s/a/n max out/in:", cfg, "hints:", rest)
        print("dump = a b sfree afree wait ok err carrier nfree fc yes bad")
        trs = [blocks(xs, list(map(int, open(f).read().splitlines()[idx].split()))) for f in files[1:]]
        names = NAMES
    for j, a in enumerate(xs):
        line = "%3d %-10s %-16s" % (j, names[a[0]], a[1:])
        bs = [tr[j] for tr in trs]
        mark = "  <<<<" if len(bs) > 1 and bs[0] != bs[1] else ""
        print(line, " | ".join(str(b) for b in bs), mark)
main()
