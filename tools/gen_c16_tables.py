#!/usr/bin/env python3
"""Translator for C16: the user-facing API of Kademlia and the dispatch of the event loop.

From src/protocol/libp2p/kademlia/handle.rs:
  * `pub enum Quorum`: variants with their payload type (`N` carries a `NonZeroUsize`: Quorum::N(0) cannot
    be written down),
  * `pub enum KademliaCommand`, `pub enum KademliaEvent`: variants with their field names, in source order,
  * every `pub fn` / `pub async fn` of `impl KademliaHandle` (but `new`, and the `cfg(feature = "fuzz")`
    one): does it draw a query id (`self.next_query_id()`), how does it send (`send(..).await` or
    `try_send`), which command variant, what does it return.
From src/protocol/libp2p/kademlia/mod.rs:
  * `Kademlia::run`: per `KademliaCommand` arm the `self.engine.start_*` call, the `self.store.*` calls and
    the `KademliaEvent`s sent; the `store.next_action()` arm (the provider refresh); per `QueryResult` arm the
    engine / handler calls; per `TransportEvent` arm the handler,
  * `on_query_action`: per `QueryAction` arm the `KademliaEvent` sent and the engine calls.
From query/target_peers.rs: the arms of `peers_to_succeed: match quorum { .. }` in
`PutToTargetPeersContext::new` (white space removed). From executor.rs the variants of `enum QueryResult`.

Written to coq/gen/C16Tables.v and harness/src/gen_c16_tables.rs on every check. coq/C16/Handle.v states the
model's view of each table by hand and proves (by computation) `tables_in_sync`: a new / renamed / reordered
variant, a handle method that changes the command it sends or stops drawing an id, a command arm that starts
another query, a terminal event that is no longer sent by its action — each breaks a proof obligation of
./check C16. The harness reads the method list from the generated Rust table and refuses (marker trace) a
name it has no call for. Anything this translator cannot read is reported as missing. Called from
gen_consts.py; can be run by hand (prints the Coq file)."""
import os
import re
import sys

HERE = os.path.dirname(os.path.abspath(__file__))
OUT = os.path.join(HERE, "..", "coq", "gen", "C16Tables.v")
OUT_RS = os.path.join(HERE, "..", "harness", "src", "gen_c16_tables.rs")
K = "src/protocol/libp2p/kademlia/"

sys.path.insert(0, HERE)
from gen_c18_sites import blank, match_brace, strip_tests  # noqa: E402
from gen_c15_dispatch import enum_body, top_variants, fn_body  # noqa: E402


def field_names(payload):
    """field names of a struct-like variant payload (comments and attributes already blanked)."""
    depth = 0
    cur = ""
    parts = []
    for ch in payload:
        if ch in "<([{":
            depth += 1
        elif ch in ">)]}":
            depth -= 1
        if ch == "," and depth == 0:
            parts.append(cur)
            cur = ""
        else:
            cur += ch
    parts.append(cur)
    res = []
    for p in parts:
        m = re.search(r"(\w+)\s*:", re.sub(r"#\[[^\]]*\]", " ", p))
        if m:
            res.append(m.group(1))
    return res


def arms(body, rx):
    """[(name, arm text)] for the arm headers matched by rx (group 1 = name); an arm ends at the next header."""
    heads = list(re.finditer(rx, body))
    res = []
    for i, h in enumerate(heads):
        end = heads[i + 1].start() if i + 1 < len(heads) else len(body)
        res.append((h.group(1), body[h.end():end]))
    return res


def calls(text, obj):
    return re.findall(r"\bself\s*\.\s*" + obj + r"\s*\.\s*(\w+)\s*\(", text)


def events_sent(text):
    return re.findall(r"\.send\(\s*KademliaEvent::(\w+)", text)


def generate(repo):
    missing = []

    def read(path):
        try:
            return blank(strip_tests(open(os.path.join(repo, path)).read()))
        except OSError:
            missing.append(("C16_TABLES", path, "file not found"))
            return ""

    t = {}
    h = read(K + "handle.rs")
    body = enum_body(h, r"\bpub\s+enum\s+Quorum\s*\{")
    t["quorum"] = [(n, re.sub(r"\s+", "", p)) for n, p in top_variants(body)] if body else []
    if not body:
        missing.append(("C16_QUORUM", K + "handle.rs", "enum Quorum not found"))
    for key, name in [("commands", "KademliaCommand"), ("events", "KademliaEvent")]:
        body = enum_body(h, r"\bpub\s+enum\s+" + name + r"\s*\{")
        t[key] = [(n, field_names(p)) for n, p in top_variants(body)] if body else []
        if not body:
            missing.append(("C16_" + key.upper(), K + "handle.rs", "enum %s not found" % name))

    # impl KademliaHandle
    methods = []
    m = re.search(r"\bimpl\s+KademliaHandle\s*\{", h)
    if not m:
        missing.append(("C16_HANDLE", K + "handle.rs", "impl KademliaHandle not found"))
    else:
        ib = h[m.end() - 1:match_brace(h, m.end() - 1)]
        for f in re.finditer(r"((?:#\[[^\]]*\]\s*)*)pub\s+(async\s+)?fn\s+(\w+)\s*\(([^)]*)\)\s*(?:->\s*([^{]+?))?\s*\{", ib):
            attrs, is_async, name, _args, ret = f.groups()
            if "cfg(feature" in attrs:
                # feature-gated (fuzz): string literals are blanked, so the feature name is not visible here
                continue
            start = f.end() - 1
            fb = ib[start:match_brace(ib, start)]
            cmd = re.search(r"KademliaCommand::(\w+)", fb)
            send = "try_send" if re.search(r"\.try_send\(", fb) else ("send" if re.search(r"\.send\(", fb) else "?")
            draws = bool(re.search(r"self\s*\.\s*next_query_id\s*\(\s*\)", fb))
            methods.append((name, bool(is_async), draws, send, cmd.group(1) if cmd else "?",
                            re.sub(r"\s+", "", ret or "()")))
            if not cmd or send == "?":
                missing.append(("C16_HANDLE", K + "handle.rs", "unreadable method " + name))
    t["methods"] = methods

    # the event loop
    msrc = read(K + "mod.rs")
    run = fn_body(msrc, "run")
    loop_cmds, refresh, results, transports = [], [], [], []
    if run is None:
        missing.append(("C16_LOOP", K + "mod.rs", "fn run not found"))
    else:
        # the command branch ends where the store branch begins
        cstart = run.find("self.cmd_rx.recv()")
        sstart = run.find("self.store.next_action()")
        if cstart < 0 or sstart < 0 or sstart < cstart:
            missing.append(("C16_LOOP", K + "mod.rs", "select! branches not found"))
        else:
            for name, arm in arms(run[cstart:sstart], r"Some\(\s*KademliaCommand::(\w+)\s*\{[^{}]*\}\s*\)\s*=>"):
                loop_cmds.append((name, calls(arm, "engine"), calls(arm, "store"), events_sent(arm)))
            arm = run[sstart:]
            refresh = [calls(arm, "store"), ["next_query_id"] if re.search(r"self\s*\.\s*next_query_id\(", arm) else [],
                       calls(arm, "engine")]
            ex = run.find("self.executor.next()")
            for name, arm in arms(run[ex:cstart], r"QueryResult::(\w+)\s*(?:\{[^{}]*\})?\s*=>"):
                hs = re.findall(r"\bself\s*\.\s*(disconnect_peer|on_message_received)\s*\(", arm)
                # the response-failure repair inside the ReadSuccess arm is part of the table
                results.append((name, calls(arm, "engine"), hs))
            for name, arm in arms(run[:ex], r"Some\(\s*TransportEvent::(\w+)\s*\{[^{}]*\}\s*\)\s*=>"):
                hs = re.findall(r"\bself\s*\.\s*(on_\w+|disconnect_peer)\s*\(", arm)
                transports.append((name, sorted(set(hs), key=hs.index)))
    t["loop_cmds"], t["refresh"], t["results"], t["transports"] = loop_cmds, refresh, results, transports

    oqa = fn_body(msrc, "on_query_action")
    actions = []
    if oqa is None:
        missing.append(("C16_ACTIONS", K + "mod.rs", "fn on_query_action not found"))
    else:
        for name, arm in arms(oqa, r"QueryAction::(\w+)\s*\{[^{}]*\}\s*=>"):
            actions.append((name, events_sent(arm), calls(arm, "engine")))
    t["actions"] = actions

    # open_substream_or_dial: the arms of `match self.service.dial(&peer)` (which ImmediateDialError is special)
    osd = fn_body(msrc, "open_substream_or_dial")
    dial_arms = []
    if osd is None:
        missing.append(("C16_DIAL_ARMS", K + "mod.rs", "fn open_substream_or_dial not found"))
    else:
        m = re.search(r"match\s+self\s*\.\s*service\s*\.\s*dial\s*\([^)]*\)\s*\{", osd)
        if not m:
            missing.append(("C16_DIAL_ARMS", K + "mod.rs", "match self.service.dial(..) not found"))
        else:
            mb = osd[m.end():match_brace(osd, m.end() - 1) - 1]
            depth = 0
            cur = ""
            for ch in mb:
                if ch in "{":
                    depth += 1
                elif ch in "}":
                    depth -= 1
                if depth == 0:
                    cur += ch
            for a in re.finditer(r"((?:Ok|Err)\((?:[^()]|\([^)]*\))*\))\s*=>", cur):
                dial_arms.append(re.sub(r"\s+", "", a.group(1)))
    t["dial_arms"] = dial_arms

    tsrc = read(K + "query/target_peers.rs")
    m = re.search(r"peers_to_succeed\s*:\s*match\s+quorum\s*\{", tsrc)
    need = []
    if not m:
        missing.append(("C16_NEED", K + "query/target_peers.rs", "peers_to_succeed: match quorum not found"))
    else:
        mb = tsrc[m.end():match_brace(tsrc, m.end() - 1) - 1]
        for a in re.finditer(r"Quorum::(\w+)\s*(?:\([^)]*\))?\s*=>\s*([^\n]+?),\s*(?=Quorum::|$)", mb + "\n", re.S):
            need.append((a.group(1), re.sub(r"\s+", "", a.group(2))))
    t["need"] = need

    esrc = read(K + "executor.rs")
    body = enum_body(esrc, r"\benum\s+QueryResult\s*\{")
    t["query_results"] = [n for n, _ in top_variants(body)] if body else []
    if not body:
        missing.append(("C16_RESULTS", K + "executor.rs", "enum QueryResult not found"))

    write(t)
    counts = {"C16_COMMANDS": len(t["commands"]), "C16_EVENTS": len(t["events"]),
              "C16_HANDLE_METHODS": len(t["methods"])}
    return counts, missing


def write(t):
    def s(x):
        return '"%s"' % x

    def strs(l):
        return "[" + "; ".join(s(x) for x in l) + "]"

    def b(x):
        return "true" if x else "false"

    lines = [
        "(* GENERATED by tools/gen_c16_tables.py from src/protocol/libp2p/kademlia/{handle.rs,mod.rs,executor.rs,",
        "   query/target_peers.rs} on every check. Do not edit. *)",
        "From Coq Require Import List String.",
        "Import ListNotations.",
        "Open Scope string_scope.",
        "",
        "(* pub enum Quorum: (variant, payload type) *)",
        "Definition quorum : list (string * string) := [" + "; ".join("(%s, %s)" % (s(a), s(p)) for a, p in t["quorum"]) + "].",
        "(* pub enum KademliaCommand / KademliaEvent: (variant, field names), in source order *)",
        "Definition commands : list (string * list string) :=\n  [" +
        ";\n   ".join("(%s, %s)" % (s(n), strs(f)) for n, f in t["commands"]) + "].",
        "Definition events : list (string * list string) :=\n  [" +
        ";\n   ".join("(%s, %s)" % (s(n), strs(f)) for n, f in t["events"]) + "].",
        "(* impl KademliaHandle: (method, async, draws a query id, how it sends, command variant, return type) *)",
        "Definition methods : list (string * bool * bool * string * string * string) :=\n  [" +
        ";\n   ".join("(%s, %s, %s, %s, %s, %s)" % (s(n), b(a), b(d), s(sd), s(c), s(r)) for n, a, d, sd, c, r in t["methods"]) + "].",
        "(* Kademlia::run, command branch: (command, engine calls, store calls, events sent by the arm itself) *)",
        "Definition loop_cmds : list (string * list string * list string * list string) :=\n  [" +
        ";\n   ".join("(%s, %s, %s, %s)" % (s(n), strs(e), strs(st), strs(ev)) for n, e, st, ev in t["loop_cmds"]) + "].",
        "(* the store.next_action() branch: store calls, id drawn from the shared counter, engine calls *)",
        "Definition refresh : list (list string) := [" + "; ".join(strs(x) for x in t["refresh"]) + "].",
        "(* the executor branch: (QueryResult variant, engine calls, handlers) *)",
        "Definition results : list (string * list string * list string) :=\n  [" +
        ";\n   ".join("(%s, %s, %s)" % (s(n), strs(e), strs(hh)) for n, e, hh in t["results"]) + "].",
        "Definition query_results : list string := " + strs(t["query_results"]) + ".",
        "(* the service branch: (TransportEvent variant, handlers) *)",
        "Definition transports : list (string * list string) :=\n  [" +
        ";\n   ".join("(%s, %s)" % (s(n), strs(hh)) for n, hh in t["transports"]) + "].",
        "(* on_query_action: (QueryAction variant, KademliaEvents sent, engine calls) *)",
        "Definition actions : list (string * list string * list string) :=\n  [" +
        ";\n   ".join("(%s, %s, %s)" % (s(n), strs(ev), strs(e)) for n, ev, e in t["actions"]) + "].",
        "(* open_substream_or_dial: the patterns of `match self.service.dial(&peer)` *)",
        "Definition dial_arms : list string := " + strs(t["dial_arms"]) + ".",
        "(* PutToTargetPeersContext::new, peers_to_succeed: (Quorum variant, expression) *)",
        "Definition need : list (string * string) := [" + "; ".join("(%s, %s)" % (s(a), s(e)) for a, e in t["need"]) + "].",
    ]
    text = "\n".join(lines) + "\n"
    os.makedirs(os.path.dirname(OUT), exist_ok=True)
    old = open(OUT).read() if os.path.exists(OUT) else None
    if old != text:
        open(OUT, "w").write(text)

    def rstrs(l):
        return "&[" + ", ".join('"%s"' % x for x in l) + "]"

    rs = [
        "// GENERATED by tools/gen_c16_tables.py from the Kademlia sources on every check. Do not edit.",
        "#[rustfmt::skip]",
        "pub const COMMANDS: &[&str] = %s;" % rstrs([n for n, _ in t["commands"]]),
        "#[rustfmt::skip]",
        "pub const EVENTS: &[&str] = %s;" % rstrs([n for n, _ in t["events"]]),
        "#[rustfmt::skip]",
        "pub const HANDLE_METHODS: &[&str] = %s;" % rstrs([n for n, *_ in t["methods"]]),
        "#[rustfmt::skip]",
        "pub const QUORUM: &[&str] = %s;" % rstrs([n for n, _ in t["quorum"]]),
    ]
    rtext = "\n".join(rs) + "\n"
    old = open(OUT_RS).read() if os.path.exists(OUT_RS) else None
    if old != rtext:
        open(OUT_RS, "w").write(rtext)


if __name__ == "__main__":
    repo = os.environ.get("VERIF_REPO", "/repo")
    counts, miss = generate(repo)
    print(open(OUT).read())
    for m in miss:
        print("MISSING", m, file=sys.stderr)
