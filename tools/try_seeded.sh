#!/bin/bash
# usage: tools/try_seeded.sh <PROPERTY> <patch.diff> [more property ids to check]
# Applies a seeded change to /repo, runs the quick check(s), prints the verdict lines, and undoes the change.
P=$1; PATCH=$2; shift 2
cd /repo || exit 2
if [ -n "$(git status --porcelain)" ]; then echo "/repo is not clean"; exit 2; fi
git apply "$PATCH" || { echo "patch does not apply"; exit 2; }
cd /verif
for id in $P "$@"; do
  out=$(timeout 3000 ./check $id 2>&1)
  rc=$?
  echo "== $id rc=$rc"
  echo "$out" | grep -E "VIOLATION|OK:|prop_ok=false|KNOWN-FINDING" | cut -c1-300
done
git -C /repo checkout -- . 
git -C /repo status --porcelain | head -3
