#!/bin/bash
# C01: the streams over the callers that need extra cargo features of litep2p (quic, webrtc):
#   kind 7   crypto::tls (QUIC): the libp2p certificate verifier on crafted certificates
#   kind 8   WebRTC: NoiseContext::with_prologue / get_remote_peer_id against a snow responder, equal and
#            differing fingerprint pairs, all forged-payload classes
#   kind 6   (transport 2) two complete Litep2p nodes over QUIC, right / wrong peer id dialed
#   kind 9   the transport manager's own dialed-peer comparison (second line of defence, every transport)
# Run by ./check C01 in BOTH tiers (props keys quick_streams / thorough_streams) and by hand:
#     source /work/<ID>/env.sh; tools/c01_extra_streams.sh [seed] [random cases]
# The crate harness_c01x (src/main.rs includes harness/src/c01.rs with the `extra` feature) is built against the
# litep2p tree harness/Cargo.toml points at, into the target directory of C19's on-demand feature crate
# (harness/target-c19x/target: same litep2p features, the dependency artefacts are shared). The cases go through
# the extracted C01 model and oracle (ocaml/build/C01/driver). Exit 0 iff implementation and model agree on every
# case and prop_ok holds on every implementation trace; `STREAM-VIOLATION <replay>` is printed for a trace that
# fails prop_ok, `replay: <file>` for a disagreement.
set -e
V="$(cd "$(dirname "$0")/.." && pwd)"
SEED=${1:-${VERIF_SEED:-1}}; N=${2:-400}
W="$V/work/C01x"; mkdir -p "$W"
REPO=$(sed -n 's/^litep2p *= *{ *path *= *"\([^"]*\)".*/\1/p' "$V/harness/Cargo.toml" | head -1)
[ -n "$REPO" ] || { echo "C01 extra streams: no litep2p path in harness/Cargo.toml"; exit 2; }
ROOT="$V/harness/target-c19x"; K="$ROOT/c01x-crate"; mkdir -p "$K"
cat > "$W/Cargo.toml.new" <<EOF
[package]
name = "verif-harness-c01x"
version = "0.1.0"
edition = "2021"

[workspace]

[[bin]]
name = "verif-harness-c01x"
path = "$V/harness_c01x/src/main.rs"

[features]
default = ["extra"]
extra = []

[dependencies]
litep2p = { path = "$REPO", features = ["verif", "websocket", "quic", "webrtc"] }
tokio = { version = "1", features = ["rt", "rt-multi-thread", "net", "io-util", "time", "macros", "sync", "test-util"] }
futures = "0.3"
multiaddr = "0.18"
libp2p-identity = { version = "0.2.14", features = ["peerid", "ed25519"] }
multihash = "0.19"
snow = { version = "0.9.3", features = ["ring-resolver"], default-features = false }

[profile.dev]
opt-level = 1
debug = 0
debug-assertions = true
overflow-checks = true
EOF
cmp -s "$W/Cargo.toml.new" "$K/Cargo.toml" || cp "$W/Cargo.toml.new" "$K/Cargo.toml"
[ -f "$K/Cargo.lock" ] || cp "$V/harness/Cargo.lock" "$K/Cargo.lock"
if ! (cd "$K" && CARGO_NET_OFFLINE=true CARGO_TARGET_DIR="$ROOT/target" timeout 3000 cargo build --offline > "$W/cargo.log" 2>&1); then
  grep -E "^error" -A8 "$W/cargo.log" | head -40
  echo "C01 extra streams: harness_c01x does not build against $REPO (litep2p features quic, webrtc)"
  exit 3
fi
D="$V/ocaml/build/C01/driver"
if [ ! -x "$D" ]; then
  (cd "$V" && VERIF_REPO="$REPO" python3 tools/gen_consts.py > /dev/null && cd coq && { [ -f Makefile ] || coq_makefile -f _CoqProject -o Makefile > /dev/null; } && timeout 1500 make -j8 C01/Glue.vo > "$W/coq.log" 2>&1) || { tail "$W/coq.log"; exit 2; }
fi
# (re)extract when a .vo is newer than the driver; a no-op inside ./check, which has just built it
"$V/ocaml/build_model.sh" C01 > "$W/ocaml.log" 2>&1 || { tail "$W/ocaml.log"; echo "C01 extra streams: extraction failed"; exit 2; }
B="$ROOT/target/debug/verif-harness-c01x"
timeout 1800 "$B" --seed "$SEED" --cases "$N" --out-cases "$W/x.cases" --out-trace "$W/x.impl" 2> "$W/harness.err" || { tail -5 "$W/harness.err"; echo "C01 extra streams: the harness failed"; exit 1; }
timeout 1800 "$D" run < "$W/x.cases" > "$W/x.model"
timeout 1800 "$D" ok "$W/x.cases" "$W/x.impl" > "$W/x.ok"
timeout 1800 "$D" ok "$W/x.cases" "$W/x.model" > "$W/x.mok"
python3 - "$W" "$V" "$SEED" "$B" <<'PY'
import os, sys
w, v, seed, hbin = sys.argv[1:5]
c = open(w + "/x.cases").read().splitlines(); t = open(w + "/x.impl").read().splitlines()
m = open(w + "/x.model").read().splitlines(); ok = open(w + "/x.ok").read().split(); mok = open(w + "/x.mok").read().split()
n = len(c)
if not (len(t) == len(m) == len(ok) == len(mok) == n) or n == 0:
    print("C01 extra streams: %d cases but %d traces, %d model traces, %d verdicts" % (n, len(t), len(m), len(ok))); sys.exit(1)
bad = [i for i in range(n) if t[i] != m[i]]
fail = [i for i, x in enumerate(ok) if x != "1"]
mfail = [i for i, x in enumerate(mok) if x != "1"]
kinds = {}
for x in c:
    k = x.split()[0]; kinds[k] = kinds.get(k, 0) + 1
names = {"7": "TLS", "8": "WebRTC", "6": "QUIC end-to-end", "9": "manager"}
accepted = sum(1 for x in t if len(x.split()) > 8)
os.makedirs(os.path.join(v, "replays"), exist_ok=True)
how = "# replay: %s --replay <this file> --out-cases /dev/stdout --out-trace /dev/stderr\n" % hbin
rp = ""
if fail:
    i = fail[0]
    rp = os.path.join(v, "replays", "C01-x-%s-%d.case" % (seed, i))
    open(rp, "w").write("# property C01 fails on this case of the extra streams (oracle prop_ok = false on the implementation's trace)\n"
                        + how + "case: %s\n# impl:  %s\n# model: %s\n" % (c[i], t[i][:4000], m[i][:4000]))
elif bad:
    i = bad[0]
    rp = os.path.join(v, "replays", "C01-x-%s-%d-disagreement.case" % (seed, i))
    open(rp, "w").write("# C01 extra streams: implementation and model disagree on this case (the property is no longer shown to hold here)\n"
                        + how + "case: %s\n# impl:  %s\n# model: %s\n" % (c[i], t[i][:4000], m[i][:4000]))
for i in (fail + bad)[:3]:
    print("case: " + c[i][:600]); print("# impl:  " + t[i][:300]); print("# model: " + m[i][:300])
if mfail:
    print("C01 extra streams: prop_ok rejects the model's own trace on case #%d" % mfail[0])
if fail:
    print("STREAM-VIOLATION " + rp)
print("C01 extra streams: %d cases (%s; %d accepted identities), %d disagreements, %d oracle failures%s" % (
    n, ", ".join("%d %s" % (kinds[k], names.get(k, "kind " + k)) for k in sorted(kinds)), accepted, len(bad), len(fail),
    (", replay: " + rp) if rp else ""))
sys.exit(1 if bad or fail or mfail else 0)
PY
