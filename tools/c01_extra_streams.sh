#!/bin/bash
# C01 by-hand streams over the callers that need extra cargo features of litep2p:
#   kind 7  crypto::tls (QUIC): the certificate checks of the libp2p TLS verifier on crafted certificates
#   kind 8  WebRTC: NoiseContext::with_prologue / get_remote_peer_id against a snow responder,
#           equal and differing fingerprint pairs, all forged-payload classes
# usage: tools/c01_extra_streams.sh [random cases, default 400]   (VERIF_REPO selects the litep2p tree)
# Builds harness_c01x (own target dir), runs it, runs the extracted C01 model and oracle on the
# same cases, and compares. Exit 0 = every trace agrees and prop_ok holds on every trace.
set -e
V="$(cd "$(dirname "$0")/.." && pwd)"
REPO="${VERIF_REPO:-/repo}"
N="${1:-400}"
W="$V/work/C01x"; mkdir -p "$W"
cd "$V/harness_c01x"
[ -f Cargo.lock ] || cp "$V/harness/Cargo.lock" Cargo.lock
cp Cargo.toml "$W/Cargo.toml.orig"
trap 'cp "$W/Cargo.toml.orig" "$V/harness_c01x/Cargo.toml"' EXIT
sed -i "s#path = \"/repo\"#path = \"$REPO\"#" Cargo.toml
CARGO_NET_OFFLINE=true timeout 3000 cargo build --offline 2> "$W/cargo.log" || { tail -30 "$W/cargo.log"; exit 1; }
(cd "$V" && python3 tools/gen_consts.py > /dev/null && cd coq && { [ -f Makefile ] || coq_makefile -f _CoqProject -o Makefile > /dev/null; } && timeout 1500 make -j8 C01/Glue.vo > "$W/coq.log" 2>&1) || { tail "$W/coq.log"; exit 1; }
DRV=$("$V/ocaml/build_model.sh" C01 | tail -1)
timeout 1800 target/debug/verif-harness-c01x --seed "${VERIF_SEED:-1}" --cases "$N" --out-cases "$W/x.cases" --out-trace "$W/x.impl"
timeout 1800 "$DRV" run < "$W/x.cases" > "$W/x.model"
timeout 1800 "$DRV" ok "$W/x.cases" "$W/x.impl" > "$W/x.ok"
total=$(wc -l < "$W/x.cases")
dis=$(paste -d'|' "$W/x.impl" "$W/x.model" | awk -F'|' '$1 != $2' | wc -l)
bad=$(grep -vc '^1$' "$W/x.ok" || true)
echo "[c01 extra streams] $total cases: $(grep -c '^7 ' "$W/x.cases") TLS, $(grep -c '^8 ' "$W/x.cases") WebRTC; disagreements=$dis oracle_failures=$bad"
if [ "$dis" != 0 ] || [ "$bad" != 0 ]; then
  paste -d'|' "$W/x.cases" "$W/x.impl" "$W/x.model" "$W/x.ok" | awk -F'|' '$2 != $3 || $4 != 1' | head -3 | cut -c1-1500
  exit 1
fi
