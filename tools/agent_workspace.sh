#!/bin/bash
# usage: tools/agent_workspace.sh C14  — creates /work/C14/{verif,repo} as independent clones for parallel development
set -e
P=$1
mkdir -p /work/$P
cd /work/$P
[ -d repo ] || git clone -q /repo repo
[ -d verif ] || git clone -q /verif verif
sed -i "s#path = \"/repo\"#path = \"/work/$P/repo\"#" verif/harness/Cargo.toml
cp /repo/Cargo.lock verif/harness/Cargo.lock 2>/dev/null || true
echo "export VERIF_REPO=/work/$P/repo" > env.sh
echo "workspace /work/$P ready (source /work/$P/env.sh before ./check)"
