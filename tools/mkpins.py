#!/usr/bin/env python3
"""Regenerate tools/pins/<id>.v from coq/<dir>/Properties.v: one `Check (name : statement).` per
Theorem. Run by hand when a statement is changed on purpose; the result is committed, and
./check compiles it against the built development, so a statement cannot change silently."""
import os, re, sys
V = os.path.dirname(os.path.dirname(os.path.abspath(__file__)))
sys.path.insert(0, os.path.join(V, "tools"))
import props
pid = sys.argv[1]
cfg = props.PROPS[pid]
d = cfg["coq_dir"]
out = []
for f in cfg.get("proof_files", ["Properties"]):
    src = open(os.path.join(V, "coq", d, f + ".v")).read()
    head = []
    for line in src.splitlines():
        if re.match(r"(Theorem|Example)\b", line):
            break
        head.append(line)
    out.append("\n".join(l for l in head if re.match(r"\s*(From|Require|Import|Open|Local Open)", l)))
    out.append("From V.%s Require Import %s." % (d, f))
    for m in re.finditer(r"^\s*Theorem\s+(\w+)\s*:(.*?)\nProof\.", src, re.S | re.M):
        stmt = m.group(2).strip()
        assert stmt.endswith("."), m.group(1)
        out.append("Check (%s :\n  %s)." % (m.group(1), stmt[:-1]))
os.makedirs(os.path.join(V, "tools", "pins"), exist_ok=True)
open(os.path.join(V, "tools", "pins", pid + ".v"), "w").write("\n".join(out) + "\n")
print("wrote pins for", pid)
