"""Configuration of ./check for C06 (see tools/props.py)."""
ENTRY = {'coq_dir': 'C06',
 'coq_deps': ['Mgr', 'C10', 'Tcp', 'Ts', 'C07', 'Link'],
 'model_files': ['Glue'],
 'harness': 'c05',
 'harness_extra': '--focus limits',
 'cases': {'quick': 1500, 'thorough': 400000},
 'consts': ['C06_LIMITS_CALL_SITES', 'C06_TRANSPORT_SHAPES_OK'],
 'rule': 'SIX KINDS OF CASES from one harness run (c05 --focus limits; harness/src/c06x.rs, c06_sock.rs), told apart by the first number. (1) 9602, '
         'six cases in eight: the manager stream of C05 (two scripted transports TCP + WebSocket, dials spanning both, the user-facing handle) with '
         'the generator biased to small limits (1..3, one side sometimes unlimited) so that the counted sets saturate, accept failures as ordinary '
         "events, and a third of the cases opening with a scripted 'crowd' shape under limits of 3..5 (a peer is given two connections — "
         'inbound/inbound, outbound/inbound, or one inbound with a dial in flight —, a further connection for the same peer finishes negotiating '
         'while the global count is below the limit, then other peers arrive inbound / pending-inbound / outbound until the limits are reached and '
         'beyond); WRAPPED: after every step the log of the calls the real manager made on its ConnectionLimits (method, arguments, result, in '
         'order; recorded by the cfg(verif) wrapper LoggedLimits) is appended and compared with Limits.lim_log, and in half of the cases the '
         'scripted transports return Err from reject / accept_pending / reject_pending in every combination (the manager must ignore it). Oracle: '
         'the ledger of established connections is recomputed from the events and the accept() calls the implementation made; per-peer bound, both '
         "maxima, 'no leaked slot' (every id in the dumped incoming / outgoing sets is an established connection of that direction), 'accepted when "
         "below the limit', 'rejection leaves established records untouched' at every step, and every established connection / pending inbound "
         'socket of an installed transport is answered by exactly one of accept | reject (accept_pending | reject_pending). (2) 9600, one case in '
         'eight + 21 table cases every run: the REAL ConnectionLimits object driven directly: a configuration built by 0-4 ConnectionLimitsConfig '
         'builder calls (overrides, untouched sides), then 3-40 (5-80 thorough) method calls incl. sequences no manager would make (accept without '
         'check, repeated ids, closes of unknown ids); after every call its result and both sets are compared with Limits.lim_step; the table runs '
         'one script that meets every method below / at the maximum with known / unknown / repeated ids under every configuration of {None, Some 0, '
         'Some 1, Some 2}^2. Oracle on the trace alone: configuration = last builder call per side; checks change nothing and answer by the counts; '
         'Ok(k) of on_dial_address has k >= 1 and k = max - counted; an accept changes only its own set and only by its id, and after a successful '
         'check the maximum holds; a close removes exactly its id from both sets; an unlimited side is never counted. (3) 9601, one case in eight + '
         '363 table cases every run: the REAL PeerState driven directly from any start state (seven shapes with their ConnectionRecords, address set '
         'and transport set; also coinciding ids) through 2-30 (3-60) calls of its eight methods, records built by ConnectionRecord::new / '
         'from_endpoint from addresses without / with the right / with a wrong /p2p suffix; after every call the result and the whole state (records '
         'with addresses) are compared with PeerTable.pstep; the table is every shape x every event class with ids 1,2,3,4 and an unknown one. '
         'Oracle: an accepted connection is stored in the first free slot with the record it came with and the others are untouched; a refusal '
         'happens only with two slots taken or one taken and the other reserved for a dial with another id, and changes nothing; a close removes '
         'exactly its slot and reports true exactly when the last one goes; no other method touches a slot. (4) 9603, two table cases every run + '
         'one generated case in 250 (2000 thorough): REAL loopback sockets: pairs of real TcpTransport / WebSocketTransport (facade verif_sock), the '
         'local one driven call by call like the manager drives it (PendingInboundConnection -> accept_pending | reject_pending, '
         'ConnectionEstablished -> accept | reject, inbound, outbound and a bare socket), the remote one a node that accepts everything and runs its '
         'connection tasks. Oracle: a rejected connection is seen going away by the remote end (its connection task reports ConnectionClosed, its '
         'dial fails, the bare socket reads EOF), its entry is consumed (a second reject / reject_pending finds nothing), nothing is reported about '
         'it afterwards; an accepted connection stays open, also after the later rejections of the case. Thorough tier, aux stream: the same socket '
         'stream over the REAL QuicTransport (harness built with --features quic: 25 cases + the stored script case; inbound and outbound, '
         'accept_pending | reject_pending, accept | reject). (5) 9604, two table cases every run + one generated case in 500 (4000 thorough): '
         'COMPLETE Litep2p nodes over real loopback TCP sockets, configured through the public API (ConfigBuilder::with_connection_limits) and '
         'observed through it only: the node under test with limits from {None,0,1,2}^2 and four remote nodes (one runtime each, so that a node can '
         'be killed); operations: a remote dials the node, the node dials a remote by address, a remote is killed; recorded: whether the node '
         'reports ConnectionEstablished / ConnectionClosed, the result of Litep2p::dial_address (Ok / ConnectionLimit), and what the remote saw '
         '(open / established then closed / dial failed). The expected answers are computed by the MANAGER MODEL from the translation of each '
         'operation into manager events (AllocConn, PendingInbound, Established, AcceptDone, Closed, dial_address). Oracle on the public '
         'observations: never above the maxima, a new peer gets in below them, a turned-away remote sees its connection go, ConnectionLimit exactly '
         'at the outbound maximum, ConnectionClosed exactly for a connected peer. (6) untagged: stored corpus cases in the plain manager format. '
         'Non-trivial: trace >= 8 numbers; distinct (case, trace) pairs are counted.',
 'level_text': "Proof: the cap invariant (every established connection is recorded in its peer's state, ids unique, counted sets = established "
               'connections of that direction, sizes within the configured maxima, accept futures consistent) is inductive over every event the '
               'manager handles — connections arriving over several transports, dials spanning several transports —, for every configuration incl. '
               'Some 0 and every set of installed transports, under the stated uniqueness of connection ids; corollaries: at most two per peer, '
               'maxima never exceeded, no leaked slot, exact release, dial gate. On top: the COMPLETE decision of on_connection_established (accept '
               'exactly when the direction is below its maximum and the per-peer rule admits the connection, reject exactly otherwise, a reject '
               'reserves nothing — for every state reachable under the transport contract), every gate (pending inbound socket, established '
               'connection, dial) refuses exactly when the number of ESTABLISHED connections of the direction equals the maximum, a close of a '
               'counted connection frees its direction, a close of anything else changes nothing. ConnectionLimits as an object of its own (any call '
               "sequence following its calling discipline keeps the maxima; the builder; on_dial_address's promise) and the proof that the manager's "
               'inline bookkeeping IS the effect of the calls it makes on that object, in the order read from the source, following the discipline. '
               'PeerState with its ConnectionRecords: the whole transition table (7 shapes x 8 methods), two slots, accepted = appended in the first '
               'free slot, refused iff both taken or one reserved for a dial in flight, closed = exactly its slot, ConnectionClosed exactly when the '
               "last goes; refinement to the manager model's address-free machine. Composition: C08's environment assumption 'at most two open "
               "connections per peer, closes refer to open connections' is proved of the composed system manager + protocol reports, so C08's "
               'theorems apply to it. Transports: reject / reject_pending of TcpTransport forget the connection and report nothing (model of '
               'coq/Tcp); the same shape is read from the websocket and quic sources. All models tied to the code step by step; limits object, '
               'PeerState and real tcp/websocket sockets are driven directly, and complete Litep2p nodes over real sockets answer as the manager '
               'model predicts.',
 'level_note': 'Trusted: Coq kernel, extraction, harness; ScriptedTransport (test double of the Transport trait) for the manager stream; the '
               'cfg(verif) wrapper LoggedLimits (delegates to the real ConnectionLimits and logs). Environment assumption env_ok of the manager '
               'theorems: an established connection never reuses a live id (the transports draw ids from one shared counter), a close notice names '
               'the owning peer and follows the accept future (discharged for the node by C07_node_feeds_manager). Composition with C08: the '
               "protocol is told Established only for a connection of the manager's ledger and once per id, and the manager's Closed / failed accept "
               'arrive after the protocol was told - no longer cited by name (C07_order, C07_accept_each_once, C07_node_no_rollback) but FORMALLY '
               "LINKED (coq/Link/C07_C06.v): every run of C07's node model, projected to what protocol i is told, satisfies the constraints `xok` of "
               "the composition (C06_C08_xtrace_on_node), hence C08's `feasible 2` holds for the TransportService of protocol i of a node "
               '(C06_C08_feasible_on_node; C08_stream_wellformed_on_node, C08_alternation_on_node). Left as hypotheses there: env_ok for the events '
               'the TRANSPORTS deliver to the manager (node_env_trace), GLOBAL freshness of the connection ids they announce (fresh_ids: never the '
               'same id twice - the shared counter, C05_sys2_counters_in_step; env_ok itself only asks that the id is not live, and C08 needs `never '
               'used before`), and that protocol i itself does not exit (no_die i). Not modelled: WebRTC sockets; QUIC sockets only in the thorough '
               "tier's aux stream (real QuicTransport pairs) and by the shape of its accept/reject bodies, the scores of the address store (C10). "
               'Observation outside the property text: ConnectionLimits::new calls HashSet::with_capacity(max), so a maximum of usize::MAX panics '
               "with 'capacity overflow' when the node is built (not produced by the harness).",
 'trusted_base': ['uniqueness of connection ids across transports (one shared atomic counter in the code) is an assumption of the manager theorems '
                  '(env_ok)',
                  'real-socket stream: "stays open" of an accepted connection is observed for 150 ms after the accept and again at the end of the '
                  'case; "goes away" of a rejected one within 10 s',
                  'complete-node stream: absence of an event is observed for 300 ms, presence within 10 s; remote nodes run on their own runtimes '
                  'and are killed by shutting the runtime down'],
 'assumptions': ['manager stream: two installed transports at most (TCP, WebSocket); QUIC only in the socket stream of the thorough tier; webrtc not '
                 'driven',
                 'usize counters do not wrap',
                 'limit configurations: None, Some 0, small (the theorems hold for every N; the harness produces None and 0..5)',
                 'composition with C08 on a node (C06_C08_xtrace_on_node): env_ok for transport-delivered events, connection ids never announced '
                 'twice (fresh_ids), the observed protocol stays alive'],
 'clause_map': [['at any moment the node keeps at most two established connections per remote peer',
                 'C06_two_per_peer (ledger), C06_peer_slots_at_most_two + C06_peer_table + C06_peer_refused_iff (PeerState with records), '
                 'C06_per_peer_rule, C06_protocol_holds_at_most_two + C06_provides_C08_feasible (what protocols see)',
                 "9602 (count_peer <= 2 at every step), 9601 (REAL PeerState: table + walks), C08's harness for the protocol side"],
                ['the numbers of established inbound and outbound connections never exceed the configured maxima',
                 'C06_cap_invariant_step / _reachable, C06_limits, C06_limits_object_invariant (+ _step), C06_manager_uses_limits_object, '
                 'C06_manager_calls_guarded, C06_limits_builder',
                 '9602 (both maxima on ledger and dumped sets, call log), 9600 (REAL ConnectionLimits, every configuration of {None,0,1,2}^2), 9604 '
                 '(complete nodes: never above the configured maxima, configuration plumbing ConfigBuilder -> Litep2p::new -> manager)'],
                ['surplus connections are rejected',
                 'C06_established_decision, C06_decision_reachable, C06_refuses_iff_full, C06_pending_inbound_gate, C06_dial_gate, '
                 'C06_dial_refused_iff_object_refuses, C06_limits_dial_capacity, C06_manager_source_shape, C06_established_answered_once',
                 '9602 (reject / reject_pending calls, Ret ConnectionLimit), tables read from the source (next_arms, pending_arms_ok), 9602 (exactly '
                 'one of accept | reject per established connection), 9604 (Litep2p::dial_address = ConnectionLimit exactly at the outbound maximum; '
                 'turned-away remotes)'],
                ['... without disturbing existing ones',
                 'C06_reject_preserves, C06_reject_reserves_nothing, C06_peer_established_slots (refused: no slot changes), C06_tcp_reject_forgets, '
                 'C06_tcp_reject_pending_forgets, C06_tcp_rejected_pending_has_no_future, C06_tcp_accept_or_reject_once, C06_transports_reject_shape',
                 '9602 (est_view unchanged on reject), 9601, 9603 (REAL tcp / websocket sockets: rejected = closed for the remote and never '
                 'reported; accepted connections still open at the end)'],
                ['capacity is released exactly when a counted connection closes',
                 'C06_release_exact, C06_limits_closed_exact, C06_closed_frees_slot, C06_uncounted_close_keeps, C06_counted_are_live, '
                 'C06_peer_closed_slots, C06_peer_closed_reports_iff',
                 '9602 (no leaked slot: counted ids = established connections of that direction; rollbacks of accept error / accept-future error), '
                 '9600 (close removes exactly its id), 9604 (after a remote is killed the next one gets in / the next dial succeeds)'],
                ['so a node below its limits accepts a new connection from a peer it is not yet connected to',
                 'C06_below_limit_accepts, C06_not_connected_accepted, C06_established_decision, C06_refuses_iff_full',
                 "9602 ('accepted when below the limit' clause of the oracle, crowd shapes), 9604"],
                ['for all limit configurations (none, zero, small) and all interleavings of inbound arrivals, outbound dials, establishments, '
                 'rejections, accept failures and closures across several peers',
                 'all manager theorems quantify over every limits record, event list and state; C06_nonvacuous, Compose08.compose_nonvacuous',
                 'generator: limits {None,0..5} asymmetric, accept() errors, accept-future errors, failing reject / accept_pending / reject_pending, '
                 '5 peers, 2 transports']],
 'aux_stream': {'tiers': ['thorough'],
                'features': 'quic',
                'target_dir': 'target-quic',
                'args': '--focus limits --sock-quic 1',
                'cases': {'thorough': 25},
                'corpus': 'corpus/C06-quic'}}
