"""Configuration of ./check for C06 (see tools/props.py)."""
ENTRY = {'coq_dir': 'C06',
 'coq_deps': ['Mgr', 'C10', 'Tcp', 'Ts'],
 'model_files': ['Glue'],
 'harness': 'c05',
 'harness_extra': '--focus limits',
 'cases': {'quick': 1500, 'thorough': 400000},
 'consts': ['C06_LIMITS_CALL_SITES', 'C06_TRANSPORT_SHAPES_OK'],
 'rule': 'same harness as C05 (two scripted transports TCP + WebSocket, dials spanning both, the user-facing handle) '
         'with the generator biased to small limits (1..3) so that the counted sets saturate and accept failures as '
         "ordinary events; a third of the cases open with a scripted 'crowd' shape under limits of 3..5 (one side "
         'sometimes unlimited): a peer is given two connections (inbound/inbound, outbound/inbound, or one inbound '
         'with a dial in flight), a further connection for the same peer finishes negotiating while the global count '
         'is below the limit (refused by the per-peer rule, not by the limit), then other peers arrive (inbound, '
         'pending-inbound, outbound) until the limits should be reached and beyond; the oracle recomputes the ledger '
         'of established connections from the events and the accept() calls the implementation made (on whichever '
         "transport) and checks the per-peer bound, both maxima, 'no leaked slot' (every id in the dumped incoming / "
         'outgoing sets is an established connection of that direction in the recomputed ledger: C06_counted_are_live '
         "evaluated on the implementation's dump, so a slot that is not released by a close is reported with a replay "
         "even before the gate refuses a dial), 'accepted when below the limit' and 'rejection leaves established "
         "records untouched' at every step. Non-trivial: trace >= 8 numbers; distinct (case, trace) pairs are counted.",
 'level_text': "Proof: the cap invariant (every established connection is recorded in its peer's state, ids unique, "
               'counted sets = established connections of that direction, sizes within the configured maxima, accept '
               'futures consistent) is inductive over every event the manager handles — with connections arriving over '
               'several transports and dials spanning several transports —, for every configuration incl. Some 0 and '
               'every set of installed transports, under the stated uniqueness of connection ids; corollaries: at most '
               'two per peer (also one per transport), maxima never exceeded, no leaked slot, exact release, accept '
               'below the limit, rejection preserves established records, dial gate. Model tied to the code step by '
               'step.',
 'level_note': 'Trusted: Coq kernel, extraction, harness + ScriptedTransport hooks. Environment assumption env_ok: an '
               'established connection never reuses a live id (the transports draw ids from one shared counter), a '
               'close notice names the owning peer and follows the accept future.',
 'trusted_base': ['uniqueness of connection ids across transports (one shared atomic counter in the code) is an '
                  'assumption of the theorems (env_ok)'],
 'assumptions': ['two installed transports at most (TCP, WebSocket; quic compiled out of the harness build)',
                 'usize counters do not wrap']}
