"""Configuration of ./check for C07 (see tools/props.py)."""
ENTRY = {'coq_dir': 'C07',
 'coq_deps': ['Mgr', 'Ts'],
 'harness': 'c07',
 'cases': {'quick': 1500, 'thorough': 30000},
 'harness_timeout': 2400,
 'thorough_streams': [('quic', '{V}/tools/c07_quic_stream.sh {seed} 1200 3')],
 'stream_timeout': 1500,
 'consts': ['CONN_EXIT_SITES', 'WS_EXIT_SITES', 'QUIC_EXIT_SITES', 'WEBRTC_EXIT_SITES', 'C07_SKEL_STATEMENTS'],
 'rule': 'five streams from one seed. (v) LOOP LEVEL, one case per 5 report-level cases (300 in a quick run), TCP twice as often as WebSocket (QUIC: '
         'thorough tier, `quic` stream): the real `TcpConnection::start` / `WebSocketConnection::start` future over a loopback socket, built by the '
         'production constructors from a real ProtocolSet (1-4 protocols, optional fallback names, channels of capacity 1-16 owned by the harness, '
         'some receivers dropped before accept), is never spawned but POLLED BY HAND (under catch_unwind) against a bare yamux peer; script of 2-10 '
         'operations: a protocol opens a substream through its real ConnectionHandle (remote accepts / refuses / resets / stalls until the timeout / '
         'never answers), the remote opens a substream under a main, fallback, unadvertised or unknown name (negotiates / stalls / never answers), '
         "force-close, a protocol drops its handle, a protocol's receiver is dropped, the manager's receiver is dropped, the remote closes (yamux "
         'close or socket close), RACES: any subset of {a holder force-closes, the remote closes the socket, every handle is dropped, an inbound '
         "substream arrives} happens before the loop is polled again, so several select! branches are ready and the exit arm is the scheduler's "
         'choice (the model lists the arms that can win; the observed one must be among them and every one of them reports), any of them with one '
         'protocol channel full (observed before the channel is drained: has the task finished, has the manager been told); one case in four with a '
         'substream-open timeout that is never reached, so unanswered negotiations stay pending while the connection is closed around them; after '
         'every operation (loop polled until nothing is outstanding) compared with coq/C07/Loop.v: return code, events per protocol, manager '
         'notices, how start() returned (running / Ok / Err / panicked) and the exit arm the real loop took (read from its debug log; the messages '
         'are extracted from the source, harness/src/gen_c07_msgs.rs). (iv) report-level names: report_connection_established then protocol_codec '
         'under every name the set offers for negotiation (no panic), report_substream_open under main / fallback / unknown names. (iii) '
         'back-pressure, one case per 3 report-level cases: 1-4 protocols with real mpsc channels of capacity 1-3 that are drained only when the '
         'case says so, up to 6 connections = real ProtocolSets whose reports (established / substream-open failure / closed) run as tasks that wait '
         'for room; accept, loop events, protocol receives k events, protocol exits; after every operation the completed reports, the manager '
         'channel, the received events, queue lengths and the phase of every connection are compared with the model coq/C07/Block.v (over '
         'coq/Ts/Report.v). (i) report level, one case per --cases: 2-10 operations on the real ProtocolSet built the way '
         'TransportHandle::protocol_set builds it (1-5 protocols): kill a protocol receiver / the manager receiver, report_connection_established, '
         'report_connection_closed, report_substream_open_failure, and report_connection_closed with one protocol channel full (is the manager told '
         'before the protocols are served?); after every operation the result and everything that arrived on every channel are compared with the '
         'extracted model. (ii) end to end, one scenario per 12 (quick) / 15 (thorough) report-level cases, 24 in parallel: two real nodes over '
         'loopback TCP or (one in three) WebSocket through a cuttable proxy, each with 1-3 common user protocols, one user protocol only it has, a '
         'notification and a request-response protocol; fault script of 1-9 steps: a protocol exits / a handle is dropped (before or after connect, '
         'or during the handshake: either order is accepted), connect, open a substream (also for a protocol that has exited on the other side, also '
         'unsupported by the other side, also open-and-exit-at-once), force-close, cut the link, idle expiry (keep-alive 1 s), shut the remote node '
         'down, re-connect, dial a dead node; after every step (settled: first event, then 200 ms of quiet) the new events of every observer '
         '(application and every user protocol of both nodes) are compared with the model, at the end both applications call dial(peer). BOUNCE '
         'scenarios, one per 100 report-level cases (15 in a quick run, 300 thorough) plus four in corpus/C07: 20 times in a row "A dials B and a '
         'user protocol of A or of B force-closes the connection the moment it is told about it" (or, seen from the other node, the remote hangs up '
         'right after the handshake) while the application of either or both nodes is BUSY: it polls next_event() exactly once per 1-5 ms, so the '
         'connection task is announced, runs and ends between two polls of the manager and the closed notice can be ready together with whatever '
         'else the manager waits for; after every cycle both applications and every protocol must have seen established first, closed second, once '
         "each (oracle seq_ok per observer + exactly one established per cycle), and the trace must equal the model's (connect, then force-close). "
         'Non-trivial: trace >= 8 numbers; distinct (case, trace) pairs.',
 'level_text': 'Proof + translation validation + skeleton tie at STATEMENT level. The select! branches, match arms, calls of the report functions / '
               'try_get_permit / protocol_codec, what is done with each result (`?`, returned, logged, dropped) and the order, are extracted from '
               'tcp, websocket and quic connection.rs on every check (coq/gen/ConnSkel.v) and given a semantics whose meaning is PROVED equal to the '
               "behaviour model for all three loops (same notes, the loop goes on exactly when the model's does, start() returns Err exactly when "
               'the closed report failed); likewise the accept futures of the four transports, the statements of '
               'ProtocolSet::report_connection_closed / _established (the manager is told after the sends to the protocols have been awaited), the '
               'eleven exits of the WebRTC loop (each is `return self.on_connection_closed().await`, which ends with the closed report) and the '
               "mapping of the manager's events to Litep2pEvent. The only silent death of the task in the skeleton, protocol_codec's expect, is "
               'excluded by the name tables (composition with coq/Ts/Names.v). Loop level: the command channel (handles, permits of pending '
               'negotiations), the remote end and protocol exits generate the loop events; proved for every script: exactly once from accept to the '
               'end, nothing while it runs, the connection ends exactly on force-close / remote close / last strong sender gone, a running '
               'connection is held by a handle or a pending negotiation, every generated event satisfies the hypothesis of the skeleton theorems. '
               'Back-pressure composed in: with every report a send that waits on a bounded, shared protocol channel, for every schedule the manager '
               'is told at most once, only after every running protocol has the closed notice in its channel, each protocol gets it exactly once '
               'after draining, every parked report completes once the protocols have received what is queued, and a connection waits exactly as '
               'long as the protocol it waits on neither receives nor exits. Proved for the connection-task model, for every event history and every '
               'moment at which protocols exit: when the loop ends the manager and every still-running protocol are told closed exactly once, '
               'protocols before the manager, nothing afterwards, nothing while it runs; the loop ends exactly on the termination causes (never '
               'because one protocol is gone) and live protocols keep being served. Proved for the manager model along every id-respecting history: '
               'the application sees ConnectionClosed exactly when the last live connection of the peer is gone, only for a connection it was told '
               "about, and the peer can then be dialed; and the node composition discharges the manager's environment assumption for every "
               'Closed/AcceptDone the tasks generate. The exit table of the model is proved equal to the list of `?`/`return`/`Ok(true)` sites '
               'extracted from tcp/connection.rs on every run, and likewise the separate tables of the one-function websocket and quic loops. No '
               'known-finding class is left (F-C07a and F-C07b are repaired).',
 'level_note': 'Trusted: Coq kernel, extraction, harness, the regex-level extractors (exit sites: gen_conn_exits.py; statements: gen_c07_skel.py, '
               'fail-closed: anything it does not recognise becomes AUnknown / 99 and breaks a proof). NOT looked into by the skeleton: the boxed '
               'futures pushed to pending_substreams (accept_substream / open_substream and which failures carry the protocol name; the loop-level '
               'stream drives them: named failure, named timeout, anonymous failure, anonymous timeout), the helper functions of the WebRTC loop '
               '(their errors are only logged there), s2n-quic (not compiled). TCP and WebSocket loops are driven at loop level and end to end by '
               'every ./check; the QUIC loop is tied by its exit table and its statement skeleton in every check and DRIVEN (loop level: real '
               'QuicConnection::start over a loopback quinn pair, 240 cases; end to end: 400 scenarios) in the thorough tier only '
               '(tools/c07_quic_stream.sh builds the harness a second time with its optional quic feature), without pending-negotiation (hold) '
               'cases: on QUIC a pending negotiation fails by itself when the connection is lost and whether the loop reports that failure before it '
               "ends is the scheduler's choice; an outbound open that times out is not scripted on QUIC (F-C08a, C08's). A suspect end-to-end QUIC "
               'scenario counts only if it fails again in one of three solo replays (real time, 200 ms settle). WebRTC by its tables only. The '
               "application's ConnectionClosed for the LAST of several connections of a peer is proved on the shared manager model (coq/Mgr) and "
               'tied by the C05/C06 streams (real TransportManager::next over scripted transports, 1-3 overlapping connections per peer); the C07 '
               'end-to-end stream has one connection per peer pair. the QUIC loop is repaired and tied by its exit table, its end-to-end stream (400 '
               'scenarios) is part of the thorough tier only (tools/c07_quic_stream.sh builds the harness a second time with its optional quic '
               'feature; no link cut and no remote kill there). Thread interleavings between the connection task and the manager loop appear only as '
               'event orders, under the atomicity facts checked against the code: the peers RwLock is written only by the manager task for `state` '
               '(handles write only `addresses` and read `state`), no manager handler holds the lock across an await, connection ids and substream '
               'ids come from AtomicUsize::fetch_add, protocol senders are cloned mpsc senders (no shared map), the connection task is spawned '
               'inside the poll of the accept future whose completion the manager consumes in the same poll (so Closed can never overtake '
               'AcceptDone), the manager never awaits a protocol channel (try_send only); the try_get_permit failure path is taken in every quick '
               'run by the loop-level stream (about 10% of its cases end through it; end to end it stays rare: step 20). A live protocol that never '
               'drains its channel holds back the reports of every connection (back-pressure by design; assumed not to happen for liveness). '
               'Unstable observation (kept honest): once in about 100000 loop-level cases (thorough run, seed 2, loaded machine) a hold case saw the '
               'loop end through the `None` command although an unanswered negotiation should still have held a permit (replays/C07-2-7076.case); it '
               'did not reproduce in 300 solo replays nor in 90000 further cases under load, the only timed element is the 30 s open timeout of hold '
               'cases; such a case now goes through the reproduction guard of ./check (cfg replay_rewrites_case), and C07_LOOP_TRAP=1 makes the '
               "harness dump the loop's debug log if it happens again. Corrected false alarm of the end-to-end oracle: step 14 (connect while a "
               'protocol exits) towards a node WITHOUT any protocol left announces and closes the new connection at once; the clause `the exit of '
               'one protocol closes nothing` looked at the exiting node only (corpus/C07/oracle_new_connection_to_node_without_protocols.case). '
               'Fifth seeded round (seeded/C07/e: TcpTransport::accept spawns the connection task inside accept(), so ConnectionClosed can be queued '
               'before the accept future is polled again and the unbiased select! of TransportManager::next hands the application closed before '
               'established in 1 poll of 4) was reported without a failing input: no scenario ended a connection right after accept() under a '
               'sparsely polled manager except the rare one-in-four run of a connection to a node without protocols, which the reproduction guard '
               'tends to filter. The bounce scenarios make that the rule (20 cycles per case: a changed tree fails a case with probability 1 - '
               "(3/4)^20, and again in the guard's re-runs); on the unchanged tree the accept future completes in the poll that starts the task, so "
               'nothing can precede established.',
 'trusted_base': ['tools/gen_conn_exits.py: regex-level extractor of the exit sites of start / handle_yamux_substream / handle_negotiated_substream '
                  '/ handle_protocol_command (blanked strings and comments, matched braces); it can mis-classify a site only towards a mismatch with '
                  'the model table (then the check fails)',
                  'end-to-end harness: real sockets and real time; a step counts as settled after its first event and 200 ms of quiet (deadlines '
                  '1.5-7 s); keep-alive is 60 s except in idle-expiry scenarios (1 s, at most one action before the wait)',
                  'transport contract assumed by the manager theorems (Caps.env_ok): a connection id is not reused while live',
                  'tools/gen_c07_skel.py: statement splitter over blanked source (brackets matched, `if let` struct patterns skipped); recognises a '
                  'fixed list of statement shapes, everything else that mentions a function of interest, `?`, return, break, continue, expect, '
                  'unwrap, panic or .await becomes AUnknown/AAwait',
                  'loop-level harness: hand polling with a no-op waker, rounds of yield + 1 ms sleep until no outstanding remote activity and five '
                  'idle rounds; the exit arm is recognised by the debug message of the arm (list extracted from the source)',
                  'quic::verif_loop::verif_pair sets up the two quinn endpoints the way listener.rs / mod.rs do (server config from '
                  'make_server_config, client config from make_client_config): a copy of set-up code, not of logic under test'],
 'assumptions': ['one connection per peer pair at a time in the end-to-end scenarios (several per peer: C05/C06 streams over the same manager model)',
                 'every live protocol eventually drains its event channel (back-pressure: a report waits for room)',
                 'multistream-select negotiates only names that were offered (then C07_codec_total excludes the expect of protocol_codec)'],
 'nontrivial_min_trace': 8,
 'clause_map': [['every connection announced as established ... when it ends for any reason (remote close, network failure, local force-close, idle '
                 'expiry, a local protocol having shut down) every still-running protocol that saw it established and the manager are told exactly '
                 'once',
                 'C07_exit_reports, C07_once, C07_run_shape, C07_lifecycle, C07_cause_exits, C07_loop_lifecycle, C07_loop_silent_while_running, '
                 'C07_loop_ends_iff_cause, C07_loop_running_is_held, C07_block_manager_told_once, C07_block_closed_once_per_channel, '
                 'C07_block_delivered_exactly_once, C07_block_parked_report_completes; source: C07_tcp_skeleton_is_model, C07_ws_skeleton_is_model, '
                 'C07_quic_skeleton_is_model, C07_skeleton_shape, C07_exits_match, C07_source_exits_dominated, C07_model_exit_sites_sound, '
                 'C07_exit_sites_covered, C07_ws_*/C07_quic_* exit theorems, C07_webrtc_exits_report, C07_tcp_arm_site',
                 'loop-level stream (every cause, exit arm and Ok/Err of start() compared), report-level ops 3/6, back-pressure stream, end-to-end '
                 'steps 15-18, 20'],
                ['protocols before the manager',
                 'C07_order, C07_block_told_after_protocols, C07_block_waits_until_drained, C07_report_closed_skeleton',
                 "report-level op 6 and loop-level full-channel observation (manager not told / task not finished while a running protocol's closed "
                 'notice waits for room), back-pressure stream'],
                ['the application sees a connection-closed event exactly when the last connection to that peer is gone',
                 'C07_app_closed_iff_last, C07_manager_invariant, C07_manager_invariant_init, C07_stale_closed_ignored, C07_node_feeds_manager, '
                 'C07_node_init, C07_app_event_map',
                 'end-to-end stream (Litep2pEvent of both applications, one connection per pair); several connections per peer: C05/C06 streams over '
                 'the same coq/Mgr model'],
                ['and never before the matching established event',
                 'C07_app_closed_was_announced, C07_lifecycle (established first), C07_node_no_rollback, C07_rollback_silent_refuted, '
                 'C07_accept_skeleton',
                 'end-to-end oracle seq_ok per observer, loop-level oracle (established at accept only)'],
                ['afterwards the peer counts as disconnected and can be dialed again',
                 'C07_closed_then_dialable',
                 'end-to-end: both applications call dial(peer) at the end of every scenario'],
                ['the shutdown of one local protocol never prevents the remaining protocols from being told about, and using, existing and new '
                 'connections',
                 'C07_exit_only_on_cause, C07_live_protocol_served, C07_dead_protocol_ignored, C07_accept_serves_live, C07_accept_each_once, '
                 'C07_connection_always_started, C07_node_no_rollback, C07_report_established_skeleton, C07_codec_panic_site, C07_codec_total, '
                 'C07_advertised_in_range, C07_loop_events_in_range, C07_loop_ends_iff_cause, C07_unfixed_loop_refuted, C07_unfixed_accept_refuted',
                 'loop-level (receivers dropped before accept and during, then substreams opened from both ends for live and exited protocols), '
                 'report-level ops 2/4/7/8, end-to-end steps 10, 12, 13, 14'],
                ['quantifier: during substream negotiation, with pending substream opens, with full protocol channels, after a protocol handle was '
                 'dropped',
                 'C07_loop_is_model_run (pending negotiations hold a permit: Loop.l_pend), C07_loop_running_is_held, C07_block_*',
                 'loop-level hold cases (unanswered negotiations pending while the connection is closed), stalls until the timeout, full-channel '
                 'operations, handle drops'],
                ['quantifier: all thread schedules of the connection task versus the manager loop; all sequences of connect/disconnect cycles',
                 'C07_node_feeds_manager (every interleaving of node events), C07_manager_invariant (every history), C07_block_* (every schedule of '
                 'sends, receives and polls)',
                 'loop-level: the task is polled by hand, races resolved by the observed arm (both outcomes accepted by the model, each must '
                 'report); end-to-end: 1-2 worker threads, connect/close cycles']],
 'replay_rewrites_case': 7}
