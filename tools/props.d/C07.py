"""Configuration of ./check for C07 (see tools/props.py)."""
ENTRY = {'coq_dir': 'C07',
 'coq_deps': ['Mgr', 'Ts'],
 'harness': 'c07',
 'cases': {'quick': 1500, 'thorough': 30000},
 'harness_timeout': 2400,
 'thorough_streams': [('quic', '{V}/tools/c07_quic_stream.sh {seed} 1200 3')],
 'stream_timeout': 1500,
 'consts': ['CONN_EXIT_SITES', 'WS_EXIT_SITES', 'QUIC_EXIT_SITES'],
 'rule': 'three streams from one seed. (iii) back-pressure, one case per 3 report-level cases: 1-4 protocols with real mpsc channels of capacity 1-3 that are drained only when the case says so, up to 6 connections = real ProtocolSets whose reports (established / substream-open failure / closed) run as tasks that wait for room; accept, loop events, protocol receives k events, protocol exits; after every operation the completed reports, the manager channel, the received events, queue lengths and the phase of every connection are compared with the model coq/C07/Block.v (over coq/Ts/Report.v). (i) report level, one case per --cases: 2-10 operations on the real ProtocolSet built the way '
         'TransportHandle::protocol_set builds it (1-5 protocols): kill a protocol receiver / the manager receiver, '
         'report_connection_established, report_connection_closed, report_substream_open_failure, and report_connection_closed with one '
         "protocol channel full (is the manager told before the protocols are served?); after every operation the result and everything "
         'that arrived on every channel are compared with the extracted model. (ii) end to end, one scenario per 12 (quick) / 15 (thorough) '
         'report-level cases, 24 in parallel: two real nodes over loopback TCP or (one in three) WebSocket through a cuttable proxy, each with 1-3 common user '
         'protocols, one user protocol only it has, a notification and a request-response protocol; fault script of 1-9 steps: a protocol '
         'exits / a handle is dropped (before or after connect, or during the handshake: either order is accepted), connect, open a substream (also for a protocol that has exited on the other '
         'side, also unsupported by the other side, also open-and-exit-at-once), force-close, cut the link, idle expiry (keep-alive 1 s), '
         'shut the remote node down, re-connect, dial a dead node; after every step (settled: first event, then 200 ms of quiet) the new '
         'events of every observer (application and every user protocol of both nodes) are compared with the model, at the end both '
         'applications call dial(peer). Non-trivial: trace >= 8 numbers; distinct (case, trace) pairs.',
 'level_text': 'Proof + translation validation + skeleton tie. Back-pressure composed in: with every report a send that waits on a bounded, shared protocol channel, for every schedule the manager is told at most once, only after every running protocol has the closed notice in its channel, each protocol gets it exactly once after draining, every parked report completes once the protocols have received what is queued, and a connection waits exactly as long as the protocol it waits on neither receives nor exits. Proved for the connection-task model, for every event history and every '
               'moment at which protocols exit: when the loop ends the manager and every still-running protocol are told closed exactly once, '
               'protocols before the manager, nothing afterwards, nothing while it runs; the loop ends exactly on the termination causes '
               '(never because one protocol is gone) and live protocols keep being served. Proved for the manager model along every '
               'id-respecting history: the application sees ConnectionClosed exactly when the last live connection of the peer is gone, only '
               'for a connection it was told about, and the peer can then be dialed; and the node composition discharges the manager\'s '
               'environment assumption for every Closed/AcceptDone the tasks generate. The exit table of the model is proved equal to the list '
               'of `?`/`return`/`Ok(true)` sites extracted from tcp/connection.rs on every run, and likewise the separate tables of the one-function '
               'websocket and quic loops. No known-finding class is left (F-C07a and F-C07b are repaired).',
 'level_note': 'Trusted: Coq kernel, extraction, harness, the regex-level extractor. TCP and WebSocket are exercised end to end by ./check; the '
               'QUIC loop is repaired and tied by its exit table, its end-to-end stream (400 scenarios) is part of the thorough tier only (tools/c07_quic_stream.sh builds the '
               'harness a second time with its optional quic feature; no link cut and no remote kill there). Thread interleavings between the '
               'connection task and the manager loop appear only as event orders, under the atomicity facts checked against the code: the peers RwLock is written only by the manager task for `state` (handles write only `addresses` and read `state`), no manager handler holds the lock across an await, connection ids and substream ids come from AtomicUsize::fetch_add, protocol senders are cloned mpsc senders (no shared map), the connection task is spawned inside the poll of the accept future whose completion the manager consumes in the same poll (so Closed can never overtake AcceptDone), the manager never awaits a protocol channel (try_send only); the try_get_permit failure path is reachable hook-free (the remote keeps opening substreams the node refuses, each as soon as the previous failed, across the moment the node\'s protocols release the connection; needs TCP_NODELAY and more than one worker thread; about 1% per attempt: 2 silent exits in 240 attempts on the tree without the no-permit repair, 0 in 720 with it) and is scripted as step 20, but a quick run rarely hits it: there the skeleton tie is what guards it. A live protocol that never drains its channel holds back the reports of every connection (back-pressure by design; assumed not to happen for liveness).',
 'trusted_base': ['tools/gen_conn_exits.py: regex-level extractor of the exit sites of start / handle_yamux_substream / '
                  'handle_negotiated_substream / handle_protocol_command (blanked strings and comments, matched braces); it can mis-classify a '
                  'site only towards a mismatch with the model table (then the check fails)',
                  'end-to-end harness: real sockets and real time; a step counts as settled after its first event and 200 ms of quiet '
                  '(deadlines 1.5-7 s); keep-alive is 60 s except in idle-expiry scenarios (1 s, at most one action before the wait)',
                  'transport contract assumed by the manager theorems (Caps.env_ok): a connection id is not reused while live'],
 'assumptions': ['single installed transport (TCP); one connection per peer pair at a time in the end-to-end scenarios',
                 'every live protocol eventually drains its event channel (back-pressure: a report waits for room)'],
 'nontrivial_min_trace': 8}
