"""Configuration of ./check for C02 (see tools/props.py)."""
ENTRY = {'coq_dir': 'C02',
 'harness': 'c02',
 'cases': {'quick': 5000, 'thorough': 150000},
 'consts': ['MAX_NOISE_MSG_LEN', 'NOISE_EXTRA_ENCRYPT_SPACE', 'MAX_FRAME_LEN', 'MAX_READ_AHEAD_FACTOR', 'MAX_WRITE_BUFFER_SIZE',
            'TCP_NOISE_READ_AHEAD_DEFAULT', 'TCP_NOISE_WRITE_BUFFER_DEFAULT', 'WS_NOISE_READ_AHEAD_DEFAULT',
            'WS_NOISE_WRITE_BUFFER_DEFAULT', 'NOISE_KIND_TABLE_SIZE'],
 'nontrivial_min_trace': 40,
 'rule': 'seeded random cases, 30% in the single-round format (dialer writes, one manipulation; also produced by C19), 70% as a '
         'CONNECTION of 1-4 rounds in either direction over one real handshake() pair (read-ahead factor in {1,2,3,5}, write-buffer '
         'size in {1,2,4}; 1% each with 0, judged outside the property): per round the writing socket gets 0-8 poll_write calls with '
         'sizes from {0,1,2,3,15,16,17,...,16384}, MAX_FRAME_LEN-1/+0/+1, 2x and 3x MAX_FRAME_LEN +-1, 65520/65521, 131040/131041, '
         '3*65520+1, random up to 200000, 10% of them as poll_write_vectored with empty and extra buffers, interleaved poll_flush and '
         'poll_close (early, repeated, followed by further calls), against a carrier whose every call (write/flush/close) follows a '
         'script: accept 1/2/17/.../65538/all bytes, Pending, Ok(0), or an I/O error of ANY stable io::ErrorKind (table of 39 kinds, '
         'incl. the four the socket produces itself, plus codes outside the table = Other), BrokenPipe once closed; then the network '
         'takes the frames that reached the carrier completely since the last delivery and applies a LIST of 0-3 manipulations (byte '
         'flip in header or body, drop, adjacent replay, replay at a distance, adjacent swap, move at a distance, forged frame with '
         'arbitrary header/body length, byte inserted into / removed from a body, body replaced by the same-length ciphertext of '
         'ANOTHER session with the same nonce, truncation) and appends them to what the reading socket\'s carrier delivers; the '
         'reading socket is polled with buffer sizes from {0,1,2,15,16,17,4096,MAX_FRAME_LEN-16..+1,65504,65519,65520,70000,random} '
         'while its carrier delivers single bytes, 1-3 bytes, frame-sized +-1, max_read-aligned +-2 or random chunks with Pending, '
         'zero-length reads and I/O errors of any kind injected at random calls (start, mid-header, mid-frame), then drains to EOF; '
         'in 45% of the rounds calls on the READING socket\'s own writer half (write/flush/close with their own carrier script) are '
         'interleaved with its poll_read calls, and what they send travels in a later round; reader state, nonces and a carrier end '
         'in mid-frame carry over to the next delivery; in 35% of the connections that start dialer->listener the first round\'s '
         'ciphertext is put behind handshake message 3 before the listener\'s handshake() has read it (early data). BOTH sockets are '
         'polled on after every error and EOF (only a panic ends a run). After EVERY poll_write / poll_write_vectored / poll_flush / '
         "poll_close / poll_read the result and the socket's framing state (write_state, offset, encrypted_len, bytes with the "
         'carrier, carrier closed, SENDING NONCE; read_state tag and fields incl. Failed, nread, offset, current_frame_size, bytes '
         'pulled, RECEIVING NONCE, and whether read_buffer[..nread] equals the wire window) and whether the last carrier call of that '
         'poll returned Pending are compared with the extracted Coq model; the harness checks the content of every delivered chunk '
         "against the position-dependent byte pattern of that direction; compiled constants, buffer lengths and snow's measured "
         'message limit head every trace. Non-trivial = trace of >= 40 numbers; distinct = distinct (case, trace) pairs',
 'trusted_base': ['AEAD abstraction: a slice decrypts iff it is exactly the k-th ciphertext of the peer and k is the receive counter '
                  "(ChaChaPoly integrity, snow's nonce handling and the independence of the two directions' and of different "
                  "sessions' keys are assumed; exercised by every manipulation kind of the harness incl. replay at a distance and "
                  'frames of another session, not proved)',
                  "snow's message-size limit is the literal SNOW_MAX = 65535 in the model; the harness measures it on a snow transport "
                  "state built with litep2p's parameters and resolver and every trace carries the measured value (diffed)",
                  'payload bytes are stream positions; usize arithmetic is unbounded',
                  'the scripted in-memory carrier of the harness stands for the transport: one script entry per carrier call, EOF at '
                  'the end of a read script (a later round brings a new script), BrokenPipe for writes after its poll_close returned '
                  'Ready; "a carrier call that returns Pending has registered the waker" is the AsyncRead/AsyncWrite contract and is '
                  'assumed of the carrier',
                  'poll_write_vectored is the default implementation of futures::AsyncWrite (first non-empty buffer); the model states that',
                  'the table of io::ErrorKinds is the list of stable variants of the toolchain (std marks the enum non_exhaustive); '
                  'tools/gen_c02_kinds.py reads it from harness/src/c02.rs'],
 'level_text': 'Proof: the reader state machine (ReadData/ReadFrameLen/ProcessNextFrame/Failed with read-ahead window, auxiliary tail '
               'and 0/1-byte carry-over) keeps an inductive invariant (window/cursor alignment on frame boundaries, all slice bounds) '
               'for every wire, every carrier behaviour (chunking, Pending, zero-length reads, I/O errors of any kind and EOF at any '
               'point), every buffer-size sequence incl. empty buffers and factor >= 1, with the socket polled on after errors; hence no '
               'panic, delivered chunks are consecutive pieces of the written stream, the plaintext delivered never exceeds the clean '
               'prefix of the wire (nothing of or after a non-authentic frame), an error is either the carrier\'s own (passed through '
               'unchanged, reader goes on) or the socket\'s InvalidData and then every later poll is InvalidData (fail-stop on the Failed '
               'state), an honest wire never fails and is delivered completely by EOF; every LIST of manipulations (flip, drop, replay '
               'and reorder at any distance, forged frames, bytes inserted/removed, foreign-session frames, truncation) yields an '
               'environment these theorems apply to (wf_env discharged); the receive nonce only passes authentic in-order frames; the '
               'byte-level read buffer (carrier writes + one-byte copy of reset_read_state) refines the window abstraction; the writer '
               '(poll_write, vectored, poll_flush, poll_close, used on after carrier errors) frames exactly the accepted bytes in '
               '1..MAX_FRAME_LEN-byte frames, never panics, never fails by itself (every error is BrokenPipe after close, WriteZero, '
               'or the carrier\'s kind), only ever appends, flush = Ready empties the buffer, close = Ready means everything accepted '
               'was handed to the carrier before it was closed and nothing reaches it afterwards; Pending only after the carrier '
               'returned Pending (no lost wake-up) on both sides; the two halves of a socket used in any interleaving behave as each '
               'alone; a whole CONNECTION (any number of rounds in both directions, deliveries appended to a growing wire, arbitrary '
               'manipulation per round, both halves in use) never panics and keeps both directions in order, an untouched direction '
               'delivers everything; end-to-end composition. Constants, config defaults and error-kind tables are re-read from the '
               'source on every run. The model is tied to noise/mod.rs by a per-poll differential run with state dumps (incl. both '
               'nonces and the read-buffer window) over a real handshake pair in both directions.',
 'level_note': 'Trusted: Coq kernel, ExtrOcamlBasic extraction, harness and hooks; the AEAD abstraction; the carrier contract (Pending '
               'registers the waker). Found and fixed earlier (two `fix:` commits in /repo): (1) MAX_FRAME_LEN was 65520 (> 65535-16), '
               'so every poll_write of >= 65520 bytes failed with InvalidData (witness corpus/C02/w01_write_65520.case; '
               'C02_unfixed_refuted); (2) after poll_read had returned InvalidData for a frame that does not decrypt, the next poll_read '
               'panicked on expect("`frame_size` to exist") (witness corpus/C02/w03_repoll_after_error.case); the state machine now has a '
               'sticky Failed state. Observed, not a violation of the property text: (a) NoiseSocket has no closed state of its own — a '
               'poll_write after a completed poll_close is accepted into the encrypt buffer and only the next call fails with the '
               'carrier\'s error; those bytes never reach the peer (C02_close_flushes states exactly this). (b) The pub config fields '
               'noise_read_ahead_frame_count / noise_write_buffer_size are not validated: with a write-buffer size of 0 poll_write '
               'returns Pending without any waker (the caller hangs, nothing is ever written), with a read-ahead factor of 0 every '
               'poll_read reports UnexpectedEof; model and code agree on both (corpus/C02/w09), the theorems assume >= 1 and the '
               'defaults are proved >= 1 (C02_constants). (c) handshake() reads exactly its three messages (early-data stream); the '
               'multistream-select layers around it are C03\'s. Not modelled: tracing side effects; true parallel use of the two halves '
               '(impossible: both need &mut self); the WebRTC transport uses NoiseContext for the handshake only, never NoiseSocket.',
 'assumptions': ['noise_read_ahead_frame_count >= 1 and noise_write_buffer_size >= 1 (true of the defaults: C02_constants)',
                 'frame headers are 16-bit',
                 'the carrier honours the AsyncRead/AsyncWrite contract (Pending registers the waker); its errors are reported as they come'],
 'clause_map': [
     ['After the handshake (no byte of the transport stream is consumed by handshake())',
      'model: the reader starts at wire position 0 (reader_init, C02_read_exact)',
      'early-data connections: first round\'s ciphertext behind handshake message 3 before the listener\'s handshake() returns; corpus w05'],
     ['the bytes read on one side are exactly the bytes written on the other side (both directions)',
      'C02_end_to_end, C02_read_honest, C02_duplex_round (mixed_ok with hon = true), C02_duplex_rounds, C02_rounds_compose',
      'rounds in both directions; content of every delivered chunk compared with the direction\'s byte pattern; per-poll diff'],
     ['in order and without loss or duplication',
      'C02_read_exact (pieces_ok: consecutive positions), C02_read_invariant, C02_poll_read_step; no loss: honest_ok / mixed_ok '
      '(everything delivered by the time EOF follows the whole wire), C02_write_frames (frames = accepted bytes), C02_flush_complete, '
      'C02_close_flushes, C02_writer_monotone',
      'position check of every chunk; oracle: delivered = accepted when EOF follows the whole clean wire; sent = frames_wire(plains)'],
     ['for every write size',
      'C02_write_frames, C02_poll_write_step, C02_write_progress, C02_write_empty (all len), C02_constants (MAX_FRAME_LEN + 16 <= 65535)',
      'sizes at and around 65519/65520, multiples, 0, vectored; snow\'s measured limit in the trace header'],
     ['read-buffer size',
      'C02_read_exact / C02_read_invariant quantify over all buffer-size sequences incl. 0',
      'buffer sizes 0,1,2,15..17,4096,MFL-16..MFL+1,65504,65519,65520,70000,random'],
     ['buffering configuration',
      'all theorems for every c_factor >= 1, c_wbuf >= 1; C02_constants (source constants and the Default impls of tcp/websocket config)',
      'factor in {1,2,3,5}, wbuf in {1,2,4}; 0 compared with the model only'],
     ['fragmentation of the underlying transport (chunking, Pending, errors)',
      'carrier scripts are universally quantified in every theorem; C02_read_pending_has_waker, wres_ok (Pending => waker); '
      'C02_buffer_window, C02_buffer_window_step, C02_buffer_slice (byte-level buffer incl. the 1-byte carry-over); C02_wire_grows',
      'scripted carrier on both sides: 1-byte, frame +-1, max_read +-2, random, Pending, Ok(0), every io::ErrorKind; window bit per poll'],
     ['If ciphertext is modified, truncated, replayed, dropped or reordered in transit',
      'C02_tamper_wf (every list of manipulations is covered), C02_read_tamper, C02_read_clean_prefix, C02_nonce_discipline, C02_nonce_step, C02_connection',
      'manipulation lists of 12 kinds per round; receiving nonce per poll'],
     ['the reader gets an error',
      'C02_read_clean_prefix + C02_read_exact (a non-empty buffer never gets Ready(0): beyond the clean prefix every poll is Pending or '
      'an error), C02_fail_stop, C02_failed_repoll, C02_error_kinds',
      'oracle: delivered <= clean prefix, Failed is sticky, error kinds classified by source'],
     ['and never receives altered plaintext',
      'C02_read_exact (positions), C02_read_clean_prefix (nothing of or after a non-authentic frame)',
      'content check of every delivered chunk on real bytes'],
 ]}
