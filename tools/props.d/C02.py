"""Configuration of ./check for C02 (see tools/props.py)."""
ENTRY = {'coq_dir': 'C02',
 'harness': 'c02',
 'cases': {'quick': 3000, 'thorough': 60000},
 'consts': ['MAX_NOISE_MSG_LEN', 'NOISE_EXTRA_ENCRYPT_SPACE', 'MAX_FRAME_LEN', 'MAX_READ_AHEAD_FACTOR', 'MAX_WRITE_BUFFER_SIZE'],
 'nontrivial_min_trace': 40,
 'rule': 'seeded random cases: read-ahead factor in {1,2,3,5}, write-buffer size in {1,2,4}; 1-10 poll_write calls with sizes from '
         '{1,2,3,15,16,17,...,16384}, MAX_FRAME_LEN-1/+0/+1, 2x and 3x MAX_FRAME_LEN +-1, 65520/65521, 131040/131041, 3*65520+1, random up '
         'to 200000, interleaved poll_flush, against a carrier that accepts 1/2/17/.../65538/all bytes or returns Pending per script; the '
         'recorded ciphertext is left alone (55%) or one frame has a header/body byte flipped, is dropped, replayed, swapped with its '
         'successor, or the stream is truncated; the reader side is polled with buffer sizes from '
         '{0,1,2,15,16,17,4096,MAX_FRAME_LEN-16..+1,65504,65519,65520,70000,random} while the carrier delivers single bytes, 1-3 bytes, '
         'frame-sized +-1, max_read-aligned +-2 or random chunks with Pending injections, then drains to EOF. A real handshake() pair is '
         "made per case. After EVERY poll_write/poll_flush/poll_read the result and the socket's framing state (write_state, offset, "
         'encrypted_len; read_state tag and fields, nread, offset, current_frame_size, bytes pulled from the carrier) are compared with '
         'the extracted Coq model; the harness checks the content of every delivered chunk against the position-dependent byte pattern '
         'that was written; compiled constants and buffer lengths head every trace. Non-trivial = trace of >= 40 numbers; distinct = '
         'distinct (case, trace) pairs',
 'trusted_base': ['AEAD abstraction: a slice decrypts iff it is exactly the k-th ciphertext of the peer and k is the receive counter '
                  "(ChaChaPoly integrity and snow's nonce handling are assumed, exercised by the tamper stream of the harness, not proved)",
                  "snow's message-size checks (payload + 16 <= 65535 on write, message <= 65535 on read, output buffer large enough) are "
                  'written into the model as the constant SNOW_MAX = 65535 (snow 0.9.6 constants.rs), not read by gen_consts.py',
                  'read_buffer[0..nread) is modelled as a contiguous window of the wire (position of its first byte); the one-byte copy of '
                  'reset_read_state is therefore correct by construction in the model and checked on real bytes by the harness only',
                  'payload bytes are stream positions; usize arithmetic is unbounded',
                  'the scripted in-memory carrier of the harness (Pending without wake-up, EOF at end of script) stands for the transport'],
 'level_text': 'Proof: the reader state machine (ReadData/ReadFrameLen/ProcessNextFrame with read-ahead window, auxiliary tail and '
               '0/1-byte carry-over) keeps an inductive invariant (window/cursor alignment on frame boundaries, all slice bounds) for '
               'every wire, chunking, Pending pattern, buffer-size sequence and factor >= 1; hence delivered chunks are consecutive pieces '
               'of the written stream, nothing of or after a non-authentic frame is delivered, an honest wire never yields InvalidData and '
               'is delivered completely by EOF; the writer frames exactly the accepted bytes in 1..MAX_FRAME_LEN-byte frames, never fails, '
               'flush = Ready empties the buffer; end-to-end composition. The model is tied to noise/mod.rs by a per-poll differential run '
               'with state dumps over a real handshake pair.',
 'level_note': 'Trusted: Coq kernel, ExtrOcamlBasic extraction, harness and hooks; AEAD and snow limits abstract; buffer content modelled '
               'by position. Found and fixed: MAX_FRAME_LEN was 65520 (> 65535-16), so every poll_write of >= 65520 bytes failed with '
               'InvalidData (fix commit in /repo; witness corpus/C02/w01_write_65520.case; C02_unfixed_refuted). Not modelled: behaviour '
               'of a socket polled again after it returned an error (the real code would panic on `expect`), poll_close, carrier I/O '
               'errors, wake-ups.',
 'assumptions': ['noise_read_ahead_frame_count >= 1 and noise_write_buffer_size >= 1',
                 'frame headers are 16-bit',
                 'after the first error the socket is not polled again']}
