"""Configuration of ./check for C02 (see tools/props.py)."""
ENTRY = {'coq_dir': 'C02',
 'harness': 'c02',
 'cases': {'quick': 3000, 'thorough': 60000},
 'consts': ['MAX_NOISE_MSG_LEN', 'NOISE_EXTRA_ENCRYPT_SPACE', 'MAX_FRAME_LEN', 'MAX_READ_AHEAD_FACTOR', 'MAX_WRITE_BUFFER_SIZE'],
 'nontrivial_min_trace': 40,
 'rule': 'seeded random cases: read-ahead factor in {1,2,3,5}, write-buffer size in {1,2,4}; 1-10 poll_write calls with sizes from '
         '{0,1,2,3,15,16,17,...,16384}, MAX_FRAME_LEN-1/+0/+1, 2x and 3x MAX_FRAME_LEN +-1, 65520/65521, 131040/131041, 3*65520+1, random '
         'up to 200000, 10% of them as poll_write_vectored with empty and extra buffers, interleaved poll_flush and poll_close (early, '
         'repeated, followed by further calls), against a carrier whose every call (write/flush/close) follows a script: accept '
         '1/2/17/.../65538/all bytes, Pending, Ok(0), or an I/O error (ConnectionReset/BrokenPipe/TimedOut/Other), BrokenPipe once closed; '
         'the recorded ciphertext is left alone (55%) or one frame has a header/body byte flipped, is dropped, replayed, swapped with its '
         'successor, or the stream is truncated; the reader side is polled with buffer sizes from '
         '{0,1,2,15,16,17,4096,MAX_FRAME_LEN-16..+1,65504,65519,65520,70000,random} while the carrier delivers single bytes, 1-3 bytes, '
         'frame-sized +-1, max_read-aligned +-2 or random chunks with Pending, zero-length reads and I/O errors injected at random calls '
         '(start, mid-header, mid-frame), then drains to EOF; BOTH sockets are polled on after every error and EOF (only a panic ends a '
         'run). A real handshake() pair is made per case. After EVERY poll_write/poll_write_vectored/poll_flush/poll_close/poll_read the '
         "result and the socket's framing state (write_state, offset, encrypted_len, bytes with the carrier, carrier closed; read_state "
         'tag and fields incl. Failed, nread, offset, current_frame_size, bytes pulled) and whether the last carrier call of that poll '
         'returned Pending are compared with the extracted Coq model; the harness checks the content of every delivered chunk against '
         'the position-dependent byte pattern that was written; compiled constants and buffer lengths head every trace. Non-trivial = '
         'trace of >= 40 numbers; distinct = distinct (case, trace) pairs',
 'trusted_base': ['AEAD abstraction: a slice decrypts iff it is exactly the k-th ciphertext of the peer and k is the receive counter '
                  "(ChaChaPoly integrity and snow's nonce handling are assumed, exercised by the tamper stream of the harness, not proved)",
                  "snow's message-size checks (payload + 16 <= 65535 on write, message <= 65535 on read, output buffer large enough) are "
                  'written into the model as the constant SNOW_MAX = 65535 (snow 0.9.6 constants.rs), not read by gen_consts.py',
                  'read_buffer[0..nread) is modelled as a contiguous window of the wire (position of its first byte); the one-byte copy of '
                  'reset_read_state is therefore correct by construction in the model and checked on real bytes by the harness only',
                  'payload bytes are stream positions; usize arithmetic is unbounded',
                  'the scripted in-memory carrier of the harness stands for the transport: one script entry per carrier call, EOF for ever '
                  'at the end of the read script, BrokenPipe for writes after its poll_close returned Ready; "a carrier call that returns '
                  'Pending has registered the waker" is the AsyncRead/AsyncWrite contract and is assumed of the carrier',
                  'poll_write_vectored is the default implementation of futures::AsyncWrite (first non-empty buffer); the model states that'],
 'level_text': 'Proof: the reader state machine (ReadData/ReadFrameLen/ProcessNextFrame/Failed with read-ahead window, auxiliary tail and '
               '0/1-byte carry-over) keeps an inductive invariant (window/cursor alignment on frame boundaries, all slice bounds) for '
               'every wire, every carrier behaviour (chunking, Pending, zero-length reads, I/O errors and EOF at any point), every '
               'buffer-size sequence incl. empty buffers and factor >= 1, with the socket polled on after errors; hence no panic, delivered '
               'chunks are consecutive pieces of the written stream, nothing of or after a non-authentic frame is delivered, after '
               'InvalidData every later poll is InvalidData (fail-stop), an honest wire never yields InvalidData and is delivered completely '
               'by EOF; the writer (poll_write, vectored, poll_flush, poll_close, used on after carrier errors) frames exactly the accepted '
               'bytes in 1..MAX_FRAME_LEN-byte frames, never panics or fails by itself, flush = Ready empties the buffer, close = Ready '
               'means everything accepted was handed to the carrier before it was closed and nothing reaches it afterwards; Pending is only '
               'returned after the carrier returned Pending (no lost wake-up) on both sides; end-to-end composition. The model is tied to '
               'noise/mod.rs by a per-poll differential run with state dumps over a real handshake pair.',
 'level_note': 'Trusted: Coq kernel, ExtrOcamlBasic extraction, harness and hooks; AEAD and snow limits abstract; buffer content modelled '
               'by position; the carrier contract (Pending registers the waker). Found and fixed (two `fix:` commits in /repo): (1) '
               'MAX_FRAME_LEN was 65520 (> 65535-16), so every poll_write of >= 65520 bytes failed with InvalidData (witness '
               'corpus/C02/w01_write_65520.case; C02_unfixed_refuted); (2) after poll_read had returned InvalidData for a frame that does '
               'not decrypt, the next poll_read panicked on expect("`frame_size` to exist") (witness corpus/C02/w03_repoll_after_error.case); '
               'the state machine now has a sticky Failed state. Observed, not a violation of the property text: NoiseSocket has no closed '
               'state of its own — a poll_write after a completed poll_close is accepted into the encrypt buffer and only the next call '
               'fails with the carrier\'s error; those bytes never reach the peer (C02_close_flushes states exactly this). Not modelled: '
               'the tracing side effects, poll_close of the read half (there is none), concurrent use of the two halves.',
 'assumptions': ['noise_read_ahead_frame_count >= 1 and noise_write_buffer_size >= 1',
                 'frame headers are 16-bit',
                 'the carrier honours the AsyncRead/AsyncWrite contract (Pending registers the waker); its errors are reported as they come']}
