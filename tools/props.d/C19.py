"""Configuration of ./check for C19 (see tools/props.py)."""
ENTRY = {'coq_dir': 'C19',
 'harness': 'c19',
 'coq_deps': ['C18', 'C03', 'C02', 'C04'],
 'cases': {'quick': 11000, 'thorough': 300000},
 'harness_timeout': 3000,
 'consts': ['C19_KAD_MAX_ADDRESSES', 'C19_KAD_DEFAULT_MAX_MESSAGE_SIZE', 'C19_IDENTIFY_PAYLOAD_SIZE',
            'C19_BITSWAP_MAX_MESSAGE_SIZE', 'C19_WEBRTC_MAX_FRAME_SIZE', 'C19_MDNS_BUFFER', 'C19_PING_PAYLOAD_SIZE', 'C03_MAX_PROTOCOLS', 'C03_MAX_LEN_BYTES',
            'REPLICATION_FACTOR', 'MAX_INLINE_KEY_LENGTH', 'MULTIHASH_IDENTITY_CODE', 'PEER_ID_MULTIHASH_SIZE',
            'MAX_NOISE_MSG_LEN', 'MAX_FRAME_LEN', 'BACKPRESSURE_BOUNDARY'],
 'nontrivial_min_trace': 6,
 'rule': 'the driver generates byte strings and hands each to a WORKER PROCESS (same binary) that runs the real litep2p decoder under '
         'catch_unwind with a #[global_allocator] counter (peak bytes allocated during the call) and answers with the completed case '
         '(oracle dictionary for the curve check and digests) and the trace; a worker that dies (abort, stack overflow, failed '
         'allocation) or is silent for 10 s yields ABORT / TIMEOUT and is replaced. Streams: (i) corpus/C19 witnesses; (ii) systematic: '
         'for fixed seeds of every protobuf kind EVERY truncation offset and, for every length-delimited node, the declared length '
         'replaced by each extreme (0/1/127/128/2^14/2^32-1/2^63/2^64-1 and 2^64-1-k); depth bombs 1/50/98..102/500; ls responses of '
         '999/1000/1001 protocols and with every extreme entry length; every extreme frame length in natural/9/10/11-byte form under '
         'limits {64, 70 KiB}; message-based multistream (webrtc_listener_negotiate, register_response) with every extreme in the first '
         'message and after a valid header, every truncation; NOISE TRANSPORT (C02 case format and model): read-ahead factor 1 and 2, '
         'the wire laid out so that a frame header starts d = 0..19, 64, 300 bytes before the end of the read-ahead window, that '
         'header flipped to >= 65280 / to zero / high bit, garbage ciphertext, the frame before it damaged, frames dropped / duplicated '
         '/ swapped, the wire cut 0..3 bytes into the header; SUBSTREAM CODECS (C04 format and model): every extreme under two limits '
         'polled 6 times (re-polling after the error), Identity(n) for n around the initial buffer with every cut of small payloads; '
         'STREAM-BASED SELECT (C03 mode 3): one real listener / dialer future against every truncation of header+proposal and every '
         'extreme length (1/2/3/10-byte form) first and after a header; yamux frames of every type/flag with extreme lengths; multiaddr / '
         'CID / prefix / peer-id truncations; (iii) seeded random cases from protobuf-aware tree generators with tree- and byte-level '
         'mutation for Kademlia, keys, noise payload, identify, bitswap; multistream messages; framed streams; the whole multiaddr protocol '
         'table with extreme inner lengths; CIDs; yamux streams; Noise / codec / select scenarios; round trips of VALUES through the '
         'library encoders. In the thorough tier (or C19_FEATURES=1) a FEATURE WORKER (generated crate with litep2p features quic+webrtc, '
         'harness/target-c19x) additionally runs the TLS certificate parser on a real certificate truncated at every third offset and '
         'DER-length-damaged, and the WebRTC extract_framed_message + WebRtcMessage::decode. IDENTIFY and BITSWAP run through their '
         'REAL event loops (Identify::run / Bitswap::run on a harness-fed TransportService: connection announced, the substream carries '
         'the bytes, the public IdentifyEvent / BitswapEvent is observed). Trace = status, allocation verdict, capped collection size, '
         'canonical dump of the raw prost struct and of the result (or the embedded property\'s trace); compared with the extracted Coq '
         'model. prop_ok judges the implementation trace itself: returned (no PANIC/ABORT/TIMEOUT), allocation within the stated bound, '
         'caps, round trips equal the value; for embedded kinds the C02 / C03 / C04 oracle',
 'trusted_base': ['prost 0.13.5, multiaddr 0.18.2, cid 0.11.3, multihash 0.19.5 and unsigned-varint 0.8 are modelled from their '
                  'sources as read (coq/common/Protobuf.v, coq/C19/Formats.v); the tie is the differential run, not a proof about '
                  'those crates; prost\'s RECURSION_LIMIT = 100 and the multiaddr protocol table are transcribed',
                  'oracle dictionary (same library calls the implementation makes) only for the ed25519 point check and the '
                  'multihash digests of bitswap blocks',
                  'opaque, checked only for "returns, no panic, allocation within the bound": the yamux crate behind '
                  'litep2p::yamux::Connection (bound 4 MiB) and the TLS certificate parser (x509-parser / webpki / yasna; bound '
                  '96|der| + 80 KiB)',
                  'Noise transport, substream codecs and stream-based select reuse the models, oracles and scenario runners of '
                  'C02 / C04 / C03 unchanged (coq/C19/E02.v, E03.v, E04.v with compile-time in-sync lemmas; harness sources included '
                  'as text by harness/build.rs + src/c19/ext.rs); their allocation is pinned by their own traces (buffer sizes), the '
                  'C19 allocation field only guards against runaway growth (256 MiB)',
                  'the allocation counter is a #[global_allocator] wrapper: peak of (allocated - freed) bytes during the call; for '
                  'the identify / bitswap event loops from handing over the substream onwards; bounds: 96 bytes per input byte + '
                  '16 KiB; + 6 KiB per converted Kademlia peer (<= 2k+1 alive); frame receive max + 2|stream| + 16 KiB',
                  'hooks: prost schema re-exports, KademliaPeer::verif_connection, bitswap prefix/block wrappers, '
                  'verif_read_payload_size, Substream::new_verif, verif_identify_task / verif_bitswap_task (the real event loops on '
                  'TransportService::verif_new), verif_tls_parse / verif_tls_generate (verif+quic), webrtc::verif re-exports'],
 'level_text': 'Proof, for executable models of every decoder named by the property. Protobuf layer (prost): tokeniser with groups and '
               'recursion limit, fuel S|input| proved sufficient and irrelevant, tokens + payload <= |input|, decode(encode) = id. Per '
               'schema (Kademlia, identify, bitswap, noise payload, keys.proto, webrtc.proto): materialised size <= |input| and '
               'decode(encode m) = m. litep2p post-processing: from_bytes keeps <= replication_factor peers; the nine message.rs encoders, '
               'RemotePublicKey, bitswap Prefix, WebRtcMessage round-trip. Frame lengths: Substream receiver total, every buffer <= the '
               'configured maximum (checked first), send/receive identity; read_payload_size; LengthDelimited <= 16383; Message::decode '
               '<= 1000 protocols, fuel irrelevant, ls response round-trips; decode_multistream_message slices inside the payload and '
               'refuses every length beyond it (incl. next to 2^64); WebRTC frames <= 16384 checked before buffering. Formats: '
               'multihash <= 64 digest bytes, CID <= min(|input|, 104), multiaddr component loop total with all inner lengths '
               'bounded by the remaining input. UTF-8: the table-3-7 acceptor is sound and complete against "concatenation of '
               'shortest-form encodings of scalar values". Embedded (theorems of C02 / C03 / C04 apply to the reused models). '
               'Panic-freedom of the Rust code is established by differential testing against these total functions.',
 'level_note': 'Known finding class 1 (third party): yamux 0.13.10 computes `credit + DEFAULT_CREDIT` of a WindowUpdate|SYN frame in u32: '
               'panic where overflow checks are compiled in, silent wrap in release builds (C19_yamux_syn_credit_refuted / _partial; '
               'inputs containing the trigger are classed, the first-frame case is predicted exactly). Tested only (opaque): yamux '
               'connection, TLS certificate parser, ed25519 point check, digests. Quick tier does not run the TLS / WebRTC kinds '
               '(they need litep2p built with quic+webrtc: thorough tier or C19_FEATURES=1). Dropped: keys.proto PrivateKey (the '
               'generated type is not referenced anywhere, not reachable from network input); yamux frame headers are parsed only by '
               'the yamux crate, litep2p\'s own yamux/ directory is a control wrapper. ProtocolCodec::UnsignedVarint(None) has no '
               'limit to enforce (Example C19_ex_unbounded_without_limit). TTL of a record is re-based on Instant::now() by the '
               'encoder, so round trips use records without expiry. The allocation constants are measurements.',
 'assumptions': ['bytes are below 256 (other inputs are rejected by the case decoder)',
                 'byte strings and nested encodings are shorter than 2^64 (hypothesis wf_* of the round-trip theorems)',
                 '64-bit usize; cargo feature `rsa` off',
                 'the replication factor of a case is <= 100000 and stream cases stay below ~20 kB (Noise scenarios are '
                 'length-level) so that the extracted model runs in bounded stack']}
