"""Configuration of ./check for C19 (see tools/props.py)."""
ENTRY = {'coq_dir': 'C19',
 'harness': 'c19',
 'coq_deps': ['C18', 'C03', 'C02', 'C04'],
 'cases': {'quick': 11000, 'thorough': 300000},
 'harness_timeout': 3000,
 'consts': ['C19_KAD_MAX_ADDRESSES',
            'C19_KAD_DEFAULT_MAX_MESSAGE_SIZE',
            'C19_IDENTIFY_PAYLOAD_SIZE',
            'C19_BITSWAP_MAX_MESSAGE_SIZE',
            'C19_WEBRTC_MAX_FRAME_SIZE',
            'C19_MDNS_BUFFER',
            'C19_PING_PAYLOAD_SIZE',
            'C03_MAX_PROTOCOLS',
            'C03_MAX_LEN_BYTES',
            'REPLICATION_FACTOR',
            'MAX_INLINE_KEY_LENGTH',
            'MULTIHASH_IDENTITY_CODE',
            'PEER_ID_MULTIHASH_SIZE',
            'MAX_NOISE_MSG_LEN',
            'MAX_FRAME_LEN',
            'BACKPRESSURE_BOUNDARY'],
 'nontrivial_min_trace': 6,
 'rule': 'the driver generates byte strings and hands each to a WORKER PROCESS (same binary) that runs the real litep2p decoder under catch_unwind '
         'with a #[global_allocator] counter (peak bytes allocated during the call) and answers with the completed case (oracle dictionary for the '
         'curve check and digests) and the trace; a worker that dies (abort, stack overflow, failed allocation) or is silent for 10 s yields ABORT / '
         'TIMEOUT and is replaced. The driver stops early once 12 cases have panicked / aborted / hung (each is a failing input). Streams: (i) '
         'corpus/C19 witnesses (incl. mdns_counts.case, the witness of F-C19a); (ii) systematic: for fixed seeds of every protobuf kind EVERY '
         'truncation offset and, for every length-delimited node, the declared length replaced by each extreme (0/1/127/128/2^14/2^32-1/2^63/2^64-1 '
         'and 2^64-1-k); depth bombs 1/50/98..102/500; ls responses of 999/1000/1001 protocols and with every extreme entry length; every extreme '
         'frame length in natural/9/10/11-byte form under limits {64, 70 KiB}; message-based multistream (webrtc_listener_negotiate, '
         'register_response) with every extreme in the first message and after a valid header, every truncation; NOISE TRANSPORT (C02 case format '
         'and model): read-ahead factor 1 and 2, the wire laid out so that a frame header starts d = 0..19, 64, 300 bytes before the end of the '
         'read-ahead window, that header flipped to >= 65280 / to zero / high bit, garbage ciphertext, the frame before it damaged, frames dropped / '
         'duplicated / swapped, the wire cut 0..3 bytes into the header; SUBSTREAM CODECS (C04 format and model): every extreme under two limits '
         'polled 6 times (re-polling after the error), Identity(n) for n around the initial buffer with every cut of small payloads; STREAM-BASED '
         'SELECT (C03 mode 3): one real listener / dialer future against every truncation of header+proposal and every extreme length (1/2/3/10-byte '
         'form) first and after a header; yamux frames of every type/flag with extreme lengths; multiaddr / CID / prefix / peer-id truncations; '
         '(iii) seeded random cases from protobuf-aware tree generators with tree- and byte-level mutation for Kademlia, keys, noise payload, '
         'identify, bitswap; multistream messages; framed streams; the whole multiaddr protocol table with extreme inner lengths; CIDs; yamux '
         'streams; Noise / codec / select scenarios; round trips of VALUES through the library encoders. In the thorough tier (or C19_FEATURES=1) a '
         'FEATURE WORKER (generated crate with litep2p features quic+webrtc, harness/target-c19x) additionally runs the TLS certificate parser on a '
         'real certificate truncated at every third offset and DER-length-damaged, and the WebRTC extract_framed_message + WebRtcMessage::decode. '
         'IDENTIFY and BITSWAP run through their REAL event loops (Identify::run / Bitswap::run on a harness-fed TransportService: connection '
         'announced, the substream carries the bytes, the public IdentifyEvent / BitswapEvent is observed). Trace = status, allocation verdict, '
         "capped collection size, canonical dump of the raw prost struct and of the result (or the embedded property's trace); compared with the "
         'extracted Coq model. prop_ok judges the implementation trace itself: returned (no PANIC/ABORT/TIMEOUT), allocation within the stated '
         'bound, caps, round trips equal the value; for embedded kinds the C02 / C03 / C04 oracle. TRANSPORT-LEVEL KINDS (extension round): kind 22 '
         'the real `crypto::noise::handshake()` in both roles (a) fed raw bytes: every combination of announced length '
         '{0,1,31,32,33,47..49,63,64,79..81,95..97,255,256,65535} x data available {exact, one short, more} for the first message and '
         '{0,47,48,64,65535} for the next, (b) against a SCRIPTED REMOTE built directly on snow (same parameters and resolver, fixed static key) '
         'that completes a correct Noise XX exchange but puts arbitrary bytes into its identity message and announces that message with an arbitrary '
         'length: a valid identity (signed for the remote static key by the generator), every truncation, every length-prefix lie of the protobuf '
         'tree, foreign / missing signature or key, depth bombs, payloads up to 64.8 kB, declared length n-1 / n / n+1 / 0 / 65535; kind 23 the '
         'WebSocket adapter BufferedStream over tokio-tungstenite with the default configuration: established stream in the server and the client '
         'role (every opcode 0..15 x fin x masking, rsv bits, every length extreme incl. 16 MiB-1 / 16 MiB / 16 MiB+1 / 2^63 / 2^64-1-k in the 7-bit '
         '/ 16-bit / 64-bit form with and without data behind it, control frames of 0/1/2/125/126 bytes, fragment sequences with interleaved ping / '
         'text / missing start, every truncation of a valid stream, caller buffers of 1 / 3 / 64 / 4096 / 65536 bytes), after `accept_async` (the '
         'HTTP upgrade request: every truncation, each header removed / doubled, LF-only, HTTP/1.0, POST, wrong version / key, 200 headers, 20 kB '
         'header, 40 kB path, request and frames in one segment or cut anywhere) and after `client_async_tls` (the upgrade RESPONSE: a responder '
         'carrier reads the request, derives the accept key and fills it into the marker of the case; status codes, wrong / missing accept key, '
         'extensions, header mutations, masked frame from the server); kind 24 one mDNS datagram handed to a real Mdns object (hook '
         'VerifMdns::on_datagram): a libp2p-style response truncated at every offset, PTR to ourselves / another service / other case, two PTR '
         'answers in both orders, TXT shapes (several strings, duplicate keys, no =, empty value, bad UTF-8, 255 bytes), names with compression '
         'pointers (backwards, to itself, forwards, into the header, loops through two names), 63/64-byte labels, 254/255-byte names, record counts '
         'that lie (incl. 65535), rdlength lies, every record type 0..66 (0..110 thorough) with empty / short / long bodies, classes, queries, '
         'datagrams longer than the 4096-byte buffer; kind 25 (feature worker) NoiseContext::with_prologue + first_message + '
         'get_remote_peer_id(reply) for every announced length x amount of data; round trips 20/27 (the adapter writes chunks of 1..65536 bytes in '
         "one role, the other role reads them back) and 20/28 (mDNS reply of instance A read by instance B gives A's listen addresses). Oracle "
         "dictionary additions: kind 5 simple-dns parse summary, 6 text multiaddr parse, 7 ed25519 signature check against the scripted remote's "
         'static key, 8 tungstenite upgrade accepted + bytes consumed. INVENTORY TIE: tools/gen_c19_sites.py scans src/**/*.rs on every check for '
         'every decode / from_bytes / try_from / parse / read_ / varint / from_utf8 / third-party entry / with_capacity / vec![;n] / resize / '
         'reserve / zeroed / split_to / advance / truncate / get_uN / range-slice token (239 sites) and every ProtocolCodec choice (7) -> '
         'coq/gen/DecodeSites.v; coq/C19/Sites.v classifies each site and proves sites_match / codecs_match / codecs_all_bounded / maddr_codes_match '
         '/ third-party limits, so a new or moved parse / allocation site, a protocol without frame limit, a new multiaddr protocol or a changed '
         'default of tungstenite / snow / yamux / prost is a failed obligation CONSUMER STAGE (fourth seeded round): a decoder that returns a value '
         'on which the next line of the event loop panics is, for the node, a decoder that panics on remote bytes; so after a successful decode the '
         'worker hands the value to its first consumers exactly as the real code does, and a panic there is the trace `3 stage` (prop_ok = false), '
         "an abort / hang the worker's ABORT / TIMEOUT. Kind 1 (every Kademlia case, k >= 1): the REAL Kademlia::run loop (VerifKademlia on "
         'TransportService::verif_new, in-memory substreams) receives the very bytes in FIVE ROLES: as an inbound request (no query id) and as the '
         'reply to its own FIND_NODE / GET_VALUE / GET_PROVIDERS / PUT_VALUE query (known peer + connection, command, the substream the loop asks '
         'for carries the bytes) -> on_message_received, update_routing_table -> TransportService::add_known_address + RoutingTable::add_known_peer '
         '(both append /p2p/<peer> with peer.into()), QueryEngine::register_response, MemoryStore::put / put_provider, the user events; observed and '
         'PREDICTED by the model: loop alive, the reply frame byte for byte (request role), RoutingTableUpdate peer list, IncomingRecord, '
         'IncomingProvider (local and remote peer ids come from dictionary entries 9 / 10 written by the worker). Kind 10: every conversion of the '
         "decoded PeerId into the multiaddr / multihash crates' types and back (From<PeerId> for multiaddr::PeerId, Multihash, Vec<u8>, "
         'Protocol::P2p + try_from_multiaddr, AddressRecord::new / from_multiaddr, base58 / Display / FromStr, Kademlia Key): the converted bytes '
         'are predicted. Kinds 5 / 6 / 22: the peer id of the decoded identity key (to_peer_id) and its conversions (predicted for 5 / 6). Kind 11 '
         '(+ every address of an identify event, kind 7, and of an mDNS discovery, kind 24): text form, PeerId::try_from_multiaddr, '
         'AddressRecord::from_multiaddr, the tcp and websocket socket-address parsers (multiaddr_to_socket_address; results predicted), '
         'TransportManagerHandle::supported_transport / add_known_address under three peer ids, the /p2p append. Kinds 12 / 16: the trace carries '
         'the index of the negotiated name in the offered list (the lookup accept_substream / protocol_codec do); the random stream also draws C03 '
         "mode-5 cases (a real ProtocolSet: protocol_codec under every advertised name) and mode-6 cases (the transports' negotiate_protocol). "
         'GENERATORS: every multihash shape (code in {identity, sha2-256, sha2-512, sha1, blake2b} x digest length 0..66) as kind 10, as /p2p of '
         'kind 11, and (first three codes) as closer peer / provider / publisher of five Kademlia message shapes; over-long varints; the local and '
         'the remote peer inside messages; peers with no / empty / duplicate / unspecified / empty-DNS / 300-byte-DNS / p2p-first / '
         'trailing-component addresses under k in {1, 20}; records with empty key / value and ttl extremes; every message type with empty and odd '
         'keys; more peers than k; identify under every valid peer shape; key messages padded across the inlining boundary. PANIC-PATH INVENTORY: '
         'tools/gen_c19_sites.py also extracts every non-test `expect` / `unwrap` / `unreachable!` / `panic!` / `todo!` / `assert!` and every CALL '
         'of the panicking conversion From<PeerId> for multiaddr::PeerId (110 sites) -> DecodeSites.panic_sites; coq/C19/PanicSites.v classifies '
         'each (PV = reachable by a decoded value: invariant + theorem + harness kind with a consumer stage; PS own state machine; PL local '
         'configuration; PE encoder; PT third-party validated) and proves panic_sites_match, so a new `expect` one step behind a decoder is a failed '
         'obligation until classified',
 'trusted_base': ['prost 0.13.5, multiaddr 0.18.2, cid 0.11.3, multihash 0.19.5 and unsigned-varint 0.8 are modelled from their sources as read '
                  "(coq/common/Protobuf.v, coq/C19/Formats.v); the tie is the differential run, not a proof about those crates; prost's "
                  'RECURSION_LIMIT = 100 and the multiaddr protocol table are transcribed',
                  'oracle dictionary (same library calls the implementation makes) only for the ed25519 point check and the multihash digests of '
                  'bitswap blocks',
                  'opaque, checked only for "returns, no panic, allocation within the bound": the yamux crate behind litep2p::yamux::Connection '
                  '(bound 4 MiB) and the TLS certificate parser (x509-parser / webpki / yasna; bound 96|der| + 80 KiB)',
                  'Noise transport, substream codecs and stream-based select reuse the models, oracles and scenario runners of C02 / C04 / C03 '
                  'unchanged (coq/C19/E02.v, E03.v, E04.v with compile-time in-sync lemmas; harness sources included as text by harness/build.rs + '
                  'src/c19/ext.rs); their allocation is pinned by their own traces (buffer sizes), the C19 allocation field only guards against '
                  'runaway growth (256 MiB)',
                  'the allocation counter is a #[global_allocator] wrapper: peak of (allocated - freed) bytes during the call; for the identify / '
                  'bitswap event loops from handing over the substream onwards; bounds: 96 bytes per input byte + 16 KiB; + 6 KiB per converted '
                  'Kademlia peer (<= 2k+1 alive); frame receive max + 2|stream| + 16 KiB',
                  'hooks: prost schema re-exports, KademliaPeer::verif_connection, bitswap prefix/block wrappers, verif_read_payload_size, '
                  'Substream::new_verif, verif_identify_task / verif_bitswap_task (the real event loops on TransportService::verif_new), '
                  'verif_tls_parse / verif_tls_generate (verif+quic), webrtc::verif re-exports',
                  'snow 0.9.6 (Noise state machine), tokio-tungstenite / tungstenite 0.27 HTTP upgrade parsers (httparse) and simple-dns 0.11.3 '
                  'Packet::parse are opaque: run for real under the panic / watchdog / allocation checks; what the models need from them comes '
                  'through the oracle dictionary (kinds 5 6 7 8) computed by the same library calls. The WebSocket FRAME layer of tungstenite is '
                  'modelled from its source as read (coq/C19/Net.v ws_read) and tied by the differential run',
                  'cryptographic assumption of the Noise models: bytes not produced by a Noise peer never decrypt (noise_raw predicts SnowError once '
                  'the lengths are plausible), and a truncated AEAD message never authenticates',
                  'new hooks (repo commit "verif hooks: a real Mdns object ..."): protocol::mdns::verif::VerifMdns (real Mdns::new, '
                  'on_inbound_response / on_inbound_request / parse_packet; the 8-line dispatch of the recv_from arm of Mdns::start is transcribed '
                  'in on_datagram), transport::websocket::verif_stream::VerifWsStream (the production BufferedStream built by accept_async / '
                  'client_async_tls / from_raw_socket exactly as accept_connection / dial_peer do, over a caller-supplied socket)',
                  'allocation bounds of the new kinds (measurements + the third-party defaults): Noise handshake 2 MiB (NoiseSocket buffers '
                  '5*65535+..), WebSocket 16 MiB (tungstenite max_frame_size, reserved when the header arrives) + 8|stream| + 1 MiB, mDNS 96 bytes '
                  'per datagram byte + 80 KiB',
                  'consumer stage: hooks of C14 / C16 / C17 reused unchanged (VerifKademlia = the crate-private Kademlia object and its unmodified '
                  'run(), VerifServiceInput, TransportManager::verif_handle, AddressRecord, TcpAddress / WebSocketAddress parsers); no new hook, no '
                  'copy of production logic; the substream codec limit 70 KiB is passed by the harness (DEFAULT_MAX_MESSAGE_SIZE, extracted constant '
                  'in the model)'],
 'level_text': 'Proof, for executable models of every decoder named by the property. Protobuf layer (prost): tokeniser with groups and recursion '
               'limit, fuel S|input| proved sufficient and irrelevant, tokens + payload <= |input|, decode(encode) = id. Per schema (Kademlia, '
               'identify, bitswap, noise payload, keys.proto, webrtc.proto): materialised size <= |input| and decode(encode m) = m. litep2p '
               'post-processing: from_bytes keeps <= replication_factor peers; the nine message.rs encoders, RemotePublicKey, bitswap Prefix, '
               'WebRtcMessage round-trip. Frame lengths: Substream receiver total, every buffer <= the configured maximum (checked first), '
               'send/receive identity; read_payload_size; LengthDelimited <= 16383; Message::decode <= 1000 protocols, fuel irrelevant, ls response '
               'round-trips; decode_multistream_message slices inside the payload and refuses every length beyond it (incl. next to 2^64); WebRTC '
               'frames <= 16384 checked before buffering. Formats: multihash <= 64 digest bytes, CID <= min(|input|, 104), multiaddr component loop '
               'total with all inner lengths bounded by the remaining input. UTF-8: the table-3-7 acceptor is sound and complete against '
               '"concatenation of shortest-form encodings of scalar values". Embedded (theorems of C02 / C03 / C04 apply to the reused models). '
               'Panic-freedom of the Rust code is established by differential testing against these total functions. EXTENSION: WebSocket adapter '
               '(BufferedStream over tungstenite frames): reader total, delivered bytes <= bytes arrived, a frame announced above the 16 MiB limit '
               'ends the stream before its payload is awaited, whatever the adapter writes in one role (any 4-byte mask) the other role reads back; '
               'Noise handshake: a handshake message is cut out exactly and is <= 65535 bytes, raw bytes never yield a peer, a peer is reported only '
               'for a payload that decodes, carries a key passing the curve check and a signature the oracle confirms (its id is the id of THAT '
               'key), a lying length prefix never yields a peer; mDNS: every reported address is the parse of a TXT value of an additional record '
               'whose name is the first foreign PTR target, at most as many as TXT values, our own name is ignored. Inventory ties (sites, codecs, '
               'multiaddr codes, third-party limits) are theorems over tables generated from the Rust / vendored sources. CONSUMER STAGE (fourth '
               'seeded round): for every conversion of the crate with a panic path that a decoded value can reach, the accepted set of the producing '
               "decoder implies the invariant that keeps it safe: every byte string PeerId::from_bytes accepts converts into the multiaddr crate's "
               "PeerId (C18's models of litep2p's from_multihash and of libp2p-identity's), the conversion is safe on EXACTLY the admitted "
               'multihashes (witness identity/43), the id of an Ed25519 identity key converts, an inlined key fits the multihash; whatever '
               'KademliaMessage::from_bytes lets through has only convertible peer ids (closer peers, providers, publisher), the peers '
               'update_routing_table walks over are decoded, convertible, never the node itself and at most as many as decoded, a request never '
               'reaches update_routing_table; an address AddressRecord keeps (parsed, ends in /p2p, or /p2p appended for a decoded peer) carries an '
               'id (dial_address); the message-based listener only accepts one of the offered names (accept_substream / protocol_codec). The '
               'panic-path inventory is a theorem over the table extracted from the source.',
 'level_note': 'FIXED in this round: F-C19a (repo db7fd73): simple-dns reserves memory for the record counts announced by the DNS header, ~9.4 MiB '
               'for a 12..60-byte mDNS datagram; litep2p now refuses headers that announce more than the datagram can hold (witness '
               'corpus/C19/mdns_counts.case). Known finding class 1 (third party): yamux 0.13.10 computes `credit + DEFAULT_CREDIT` of a '
               'WindowUpdate|SYN frame in u32: panic where overflow checks are compiled in, silent wrap in release builds '
               '(C19_yamux_syn_credit_refuted / _partial; inputs containing the trigger are classed, the first-frame case is predicted exactly). '
               'Tested only (opaque): yamux connection, TLS certificate parser, ed25519 point check, digests. Quick tier does not run the TLS / '
               'WebRTC kinds (they need litep2p built with quic+webrtc: thorough tier or C19_FEATURES=1). Dropped: keys.proto PrivateKey (the '
               'generated type is not referenced anywhere, not reachable from network input); yamux frame headers are parsed only by the yamux '
               "crate, litep2p's own yamux/ directory is a control wrapper. ProtocolCodec::UnsignedVarint(None) has no limit to enforce (Example "
               'C19_ex_unbounded_without_limit). TTL of a record is re-based on Instant::now() by the encoder, so round trips use records without '
               'expiry. The allocation constants are measurements. NOT COVERED (class X of the inventory, 16 sites): the str0m side of WebRTC (first '
               'datagram / STUN parse in on_socket_input, rtc.handle_input, WebRTC substream read buffer), url::Url::parse of a dialed /ws multiaddr '
               '(multiaddr_into_url), the rustls handshake of wss:// and the whole QUIC packet layer (quinn). Tested only (opaque, class H, 19 '
               'sites): yamux connection, TLS certificate parser, ed25519 point / signature checks, tungstenite HTTP upgrade request / response '
               'parsers, simple-dns packet parser, snow. Copy of production logic in a hook: VerifMdns::on_datagram transcribes the 8-line dispatch '
               'of Mdns::start (parse_packet -> has_flags(RESPONSE) -> on_inbound_response + discovered filter | on_inbound_request); the parsers '
               'and handlers it calls are the real ones. Observations recorded in KNOWN_FINDINGS.txt (outside the property text): tungstenite '
               'reserves the announced frame length up to its default 16 MiB limit on the header alone; a local listen address longer than 247 '
               'characters makes Mdns::on_inbound_request panic on any query. Semantic disagreements of the new kinds (a wrong error class, wrongly '
               'delivered bytes) break the correspondence but are a VIOLATION only when they show as panic / hang / allocation / cap / round-trip '
               "failure in the implementation trace. CONSUMER STAGE, not modelled: the outcome of the loop's own query after the reply (QueryEngine "
               'decisions, FindNodeSuccess / QueryFailed / GetRecordPartialResult events), the content of the routing table and of the store, and '
               'what add_known_address keeps are executed for real but not predicted (the engine, the table, the store and the address book are C15 '
               '/ C14 / C17 / C10). The dial that follows (TransportManager not polled) is not reached. Kademlia consumer stage needs k >= 1 and the '
               'default 70 KiB frame limit (larger messages never reach the decoder). Text form of an address (Display / FromStr) is run, not '
               'predicted (some valid binary addresses have no text form that parses back). debug_assert! sites are not in the panic-path inventory '
               "(compiled out of release builds). ProtocolSet lookups are driven through the embedded C03 cases, their model is C03's. The WebRTC "
               "opening path's conversion (opening.rs) is covered only through the id derivation (kinds 6 / 22).",
 'assumptions': ['bytes are below 256 (other inputs are rejected by the case decoder)',
                 'byte strings and nested encodings are shorter than 2^64 (hypothesis wf_* of the round-trip theorems)',
                 '64-bit usize; cargo feature `rsa` off',
                 'the replication factor of a case is <= 100000 and stream cases stay below ~20 kB (Noise scenarios are length-level) so that the '
                 'extracted model runs in bounded stack',
                 'mDNS user names are single alphanumeric labels and local listen addresses are short (<= 60 bytes): local configuration, not remote '
                 'input',
                 'Noise: see the cryptographic assumption in trusted_base (the scripted remote uses a fixed static key 0x07*32)'],
 'clause_map': [['every decoder that consumes bytes chosen by a remote peer ... returns a value or an error for every input (no endless loop)',
                 'C19_pb_total, C19_pb_fuel_irrelevant, C19_pb_sub_total, C19_multistream_fuel, C19_webrtc_dialer_fuel, C19_frames_total, '
                 'C19_read_payload_size_ok, C19_maddr_total, C19_maddr_fuel_irrelevant, C19_utf8_sound_complete, C19_ws_total, '
                 'C19_noise_raw_rejected, C19_noise_length_lie_rejected (all model functions are total Gallina functions)',
                 'every kind 1..25: the worker answers or the driver records TIMEOUT (watchdog 10 s) / ABORT; systematic truncation + length-lie '
                 'streams'],
                ['... without panicking',
                 'C19_sites_match, C19_sites_kinds_ok (every parse / slice / cursor site of the crate is listed and driven or named as not covered)',
                 'catch_unwind in the worker + process death detection: PANIC / ABORT traces fail prop_ok for every kind'],
                ['... or allocating more than the configured message limit',
                 'C19_pb_alloc_bound, C19_alloc_kad_message, C19_alloc_kad_peer_count, C19_kad_peers_cap, C19_alloc_multistream, '
                 'C19_multistream_protocols_cap, C19_length_delimited_frame_len, C19_frame_alloc_checked_first, C19_frames_within_stream, '
                 'C19_alloc_public_key, C19_alloc_noise_payload, C19_alloc_identify, C19_alloc_bitswap, C19_alloc_multihash, C19_alloc_cid, '
                 'C19_alloc_maddr, C19_webrtc_frame_bounded, C19_webrtc_oversized_rejected_first, C19_alloc_webrtc_proto, C19_alloc_webrtc_message, '
                 'C19_ws_delivered_bounded, C19_ws_oversized_checked_first, C19_noise_frame_bounded, C19_mdns_response_count, C19_codecs_match, '
                 'C19_codecs_all_bounded, C19_third_party_limits',
                 'peak-allocation counter (#[global_allocator]) around every decode call, compared with the per-kind bound in prop_ok; cap field '
                 '(peers / protocols / frame length / delivered bytes / addresses)'],
                ['negotiation messages',
                 'C19_multistream_*, C19_roundtrip_multistream_protocols, C19_webrtc_decode_slice, C19_webrtc_truncated_rejected, '
                 'C19_webrtc_dialer_fuel, C19_webrtc_listener_reply_bound + C03 theorems (embedded)',
                 'kinds 2, 12, 13, 16 (C03 runner), 23 modes 1 / 3 (HTTP upgrade, opaque)'],
                ['frame length prefixes',
                 'C19_read_payload_size_ok, C19_frames_total, C19_frame_alloc_checked_first, C19_length_delimited_frame_len, '
                 'C19_webrtc_frame_bounded, C19_ws_oversized_checked_first, C19_noise_frame_bounded + C02 / C04 theorems (embedded)',
                 'kinds 3, 4, 14 (C02 runner), 15 (C04 runner), 19, 21 (yamux, opaque), 22, 23'],
                ['handshake payloads',
                 'C19_alloc_noise_payload, C19_roundtrip_noise_payload, C19_noise_identity_ok, C19_noise_length_lie_rejected',
                 'kinds 6, 22 (real handshake() against a scripted snow peer), 25, 18 (TLS certificate, opaque)'],
                ['public keys and peer ids',
                 'C19_alloc_public_key, C19_roundtrip_public_key(_schema), C19_alloc_multihash + C18 model',
                 'kinds 5, 10'],
                ['Kademlia, identify and Bitswap messages and the multiaddresses inside them',
                 'C19_alloc_kad_*, C19_kad_peers_cap, C19_alloc_identify, C19_identify_addresses_subset, C19_alloc_bitswap, '
                 'C19_prefix_fields_in_range, C19_alloc_cid, C19_maddr_total, C19_alloc_maddr, C19_maddr_codes_match',
                 'kinds 1, 7 (real Identify::run), 8 (real Bitswap::run), 9, 11, 17'],
                ['(beyond the enumeration) mDNS datagrams',
                 'C19_mdns_response_sound, C19_mdns_response_count, C19_mdns_own_name_ignored',
                 'kind 24, corpus/C19/mdns_counts.case (F-C19a)'],
                ["every message produced by the library's own encoders decodes to the value that was encoded",
                 'C19_pb_roundtrip, C19_roundtrip_kad_schema, C19_roundtrip_kad, C19_roundtrip_find_node .. C19_roundtrip_get_providers_response '
                 '(nine encoders), C19_roundtrip_multistream_protocols, C19_roundtrip_read_payload_size, C19_roundtrip_frames, '
                 'C19_roundtrip_public_key, C19_roundtrip_noise_payload, C19_roundtrip_identify, C19_roundtrip_bitswap, C19_roundtrip_prefix, '
                 'C19_roundtrip_webrtc_message, C19_ws_roundtrip',
                 'kind 20 subs 1-9, 20-28: the value is given to the real encoder, its bytes to the real decoder, prop_ok compares with the value '
                 '(ls response for every first-name length 1..130; WebSocket chunks; mDNS reply)'],
                ['(consumer stage) ... without panicking: a panic one step behind the decoder, on a value the decoder let through',
                 'C19_peer_id_convertible, C19_conversion_boundary, C19_ed25519_peer_convertible, C19_inline_key_fits, C19_kad_decoded_usable, '
                 'C19_kad_update_peers_convertible, C19_kad_update_peers_spec, C19_kad_request_events, C19_record_has_id_parsed, '
                 'C19_record_has_id_appended, C19_negotiated_in_set, C19_sock_parse_ws_shape, C19_panic_sites_match, C19_panic_sites_classified',
                 'kind 1 (real Kademlia::run in five roles, events and reply predicted), 10 (conversions predicted), 5 / 6 / 22 (key peer id), 11 / '
                 '7 / 24 (address consumers, parsers predicted), 12 / 16 (negotiated index; C03 modes 5 / 6); trace `3 stage` = consumer panic']]}
