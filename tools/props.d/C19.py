"""Configuration of ./check for C19 (see tools/props.py)."""
ENTRY = {'coq_dir': 'C19',
 'harness': 'c19',
 'coq_deps': ['C18', 'C03', 'C02', 'C04'],
 'cases': {'quick': 13000, 'thorough': 330000},
 'harness_timeout': 3000,
 'consts': ['C19_KAD_MAX_ADDRESSES', 'C19_KAD_DEFAULT_MAX_MESSAGE_SIZE', 'C19_IDENTIFY_PAYLOAD_SIZE',
            'C19_BITSWAP_MAX_MESSAGE_SIZE', 'C03_MAX_PROTOCOLS', 'C03_MAX_LEN_BYTES', 'REPLICATION_FACTOR',
            'MAX_INLINE_KEY_LENGTH', 'MULTIHASH_IDENTITY_CODE', 'PEER_ID_MULTIHASH_SIZE'],
 'nontrivial_min_trace': 6,
 'rule': 'the driver generates byte strings and hands each to a WORKER PROCESS (same binary) that computes the oracle dictionary, runs '
         'the real litep2p decoder under catch_unwind with a #[global_allocator] counter (peak bytes allocated during the call) and '
         'answers with the completed case and the trace; a worker that dies (abort, stack overflow, failed allocation) or is silent for '
         '10 s yields the trace ABORT / TIMEOUT and is replaced. Three streams: (i) corpus/C19 witnesses; (ii) systematic: for fixed '
         'seeds of every kind EVERY truncation offset and, for every length-delimited node of the protobuf tree, the declared length '
         'replaced by 0/1/127/128/2^14/2^32-1/2^63/2^64-1; unknown-group and nested-message depth bombs of depth '
         '1/50/98..102/500 at top level and inside Peer / Wantlist.Entry / NoiseExtensions; ls responses of 999/1000/1001 protocols; '
         'every extreme frame length in natural, 9-, 10- and 11-byte form under limits {64, 70 KiB} with and without data behind it; '
         'message-based multistream payloads (webrtc_listener_negotiate with header_received in {false,true}, WebRtcDialerState::register_response '
         'in one or two payloads) whose first message, or second message after a valid header, declares every extreme length incl. '
         'usize::MAX-k for k in 0..16 (natural and 10-byte form, body kept or dropped), and every truncation of header+proposal / '
         'proposal / header+na; ls responses with every extreme entry length; the extreme set everywhere is '
         '0/1/127/128/2^14/2^32-1/2^63/2^64-1 plus 2^64-1-k, k in 1..15; '
         '(iii) seeded random cases from protobuf-aware tree generators (Kademlia Message/Record/Peer with valid and invalid peer ids, '
         'valid/invalid/foreign-/p2p multiaddresses, 31..65 addresses per peer, 18-30 peers, connection types out of range; keys.proto; '
         'noise payload with extensions; identify; bitswap wantlist/blocks/payload prefixes/presences) mutated at tree level (duplicate, '
         'swap, drop, wrong wire type, unknown fields incl. field numbers 0 / 2^29-1 / 2^29, fixed32/64, groups, unbalanced end-group, '
         'non-minimal and 10/11-byte varints, invalid UTF-8 of every class, renumbering) and at byte level (bit flips, insert/delete, '
         'truncation, extreme varint overwrite, self-splice), multistream messages, varint-framed streams under limits {64, 1024, 70 KiB}, '
         'prefix / peer-id / multiaddress strings, and round trips of VALUES through the library encoders (the nine KademliaMessage '
         'constructors, multistream Message::encode of all five kinds, PublicKey::to_protobuf_encoding, prost encode of identify / bitswap '
         '/ noise payload, Prefix::to_bytes, the Substream sink). Mix: 28% Kademlia, 8% multistream Message, 4% message-based multistream (listener/dialer), 10% frames, 3% read_payload_size, '
         '5% keys, 5% noise, 10% identify, 10% bitswap, 3% prefix, 2% peer id, 3% multiaddr, 9% round trips. Trace = status, allocation '
         'verdict (bound if peak <= bound else the peak), capped collection size, canonical dump of the RAW prost struct (via the '
         're-exported generated types) and of the post-processed result; compared with the extracted Coq model. prop_ok judges the '
         'implementation trace itself: returned (no PANIC/ABORT/TIMEOUT), peak allocation within the stated bound, |peers| <= k / '
         '|protocols| <= 1000 / frame length <= max, and for round trips the decoded dump equals the encoded value; a case is '
         'non-trivial when its trace has >= 6 numbers',
 'trusted_base': ['prost 0.13.5 is modelled from its source as read (decode_varint, decode_key, skip_field incl. groups and '
                  'RECURSION_LIMIT = 100, merge_loop, bytes/string/message merge, field order of the derive encoder); the tie is the '
                  'differential run on the RAW decoded structs, not a proof about prost; the constant 100 is transcribed, not read '
                  'from the crate',
                  'third-party parsers enter as an oracle dictionary computed by the harness with the same library calls the '
                  'implementation makes: Multiaddr::try_from (+ is_empty, trailing /p2p id), ed25519 VerifyingKey::from_bytes, '
                  'Cid::read_bytes, multihash Code::try_from + digest; for these only "returns, within the allocation bound" is checked',
                  'identify: on_outbound_substream decodes and filters inside an async block that no add-only hook can call; the harness '
                  'runs the real prost decoder and the real multiaddr calls through a TRANSCRIPTION of the ~40 lines of filter logic; '
                  'bitswap on_message_received likewise (Cid::read_bytes filter transcribed, block_to_response and Prefix::from_bytes are '
                  'the real functions via wrappers)',
                  'the allocation counter is a #[global_allocator] wrapper in the harness: peak of (allocated - freed) bytes between '
                  'entering and leaving the decode call, input container included; the bound constants (96 bytes per input byte + 16 KiB; '
                  '+ 6 KiB per converted Kademlia peer, at most 2k+1 alive; frame receive: max + 2|stream| + 16 KiB) are measured, '
                  'stated in Model.v and mirrored in harness/src/c19/run.rs',
                  'PeerId::from_bytes is C18\'s model (coq/C18), Message::decode / LengthDelimited are C03\'s model (coq/C03), reused',
                  'hooks: prost schema re-exports, KademliaPeer::verif_connection, bitswap verif_prefix_from_bytes / verif_prefix_to_bytes / '
                  'verif_block_to_response, substream verif_read_payload_size, and the substream carrier arm Substream::new_verif '
                  '(cherry-picked unchanged from the C04 workspace)'],
 'level_text': 'Proof, for executable models of every decoder named by the property. Protobuf layer (prost): a tokeniser with groups and '
               'recursion limit whose fuel S|input| is proved never to run out and to be irrelevant beyond that, tokens + payload <= '
               '|input| (and <= |input|/2 tokens), and decode(encode fs) = fs for all well-formed token lists. Per schema (Kademlia '
               'Message/Record/Peer, identify, bitswap Message/Wantlist/Entry/Block/BlockPresence, noise payload + extensions, '
               'keys.proto): everything materialised (all byte strings + one unit per list element) <= |input|, and decode(encode m) = m '
               'for every well-formed message. litep2p post-processing: KademliaMessage::from_bytes keeps <= replication_factor peers in '
               'every list for every input and oracle; each of the nine message.rs encoders decodes back to the value encoded '
               '(peers: first k); RemotePublicKey::from_protobuf_encoding inverts to_protobuf_encoding; bitswap Prefix::from_bytes inverts '
               'to_bytes and yields in-range fields; identify keeps a sub-list of the listen addresses. Frame lengths: the varint-framed '
               'Substream receiver is total, every buffer it allocates and every frame it yields is <= the configured maximum for every '
               'stream (the check precedes the allocation), frames come out of the stream, send-then-receive is the identity; '
               'read_payload_size returns sizes < 2^64 in 1..10 bytes and inverts the encoder; multistream LengthDelimited never sizes '
               'its buffer above 16383 under any read script; Message::decode yields <= 1000 protocols, materialises <= |input| and its '
               'loop fuel is irrelevant, and the ls response (Message::Protocols, up to 1000 names) round-trips; '
               'decode_multistream_message (C03\'s model, reused) hands Message::decode a slice of the payload, leaves a strictly '
               'shorter rest, refuses EVERY declared length beyond what is left (no offset arithmetic, so lengths next to 2^64 '
               'included), register_response\'s loop fuel is irrelevant and the listener\'s reply is within MAX_FRAME_SIZE or the echoed payload. Panic-freedom of the Rust code is established by differential testing against these total '
               'functions (tested, not proved).',
 'level_note': 'Tested only (diffed against "returns, no panic, within the allocation bound", no model of their own): '
               'Multiaddr::try_from, Cid::read_bytes, the curve-point check, multihash digests. Modelled and diffed but tied to the '
               'inline Rust code by transcription: identify address filtering, bitswap wantlist/presence filtering. Not proved: '
               'UTF-8 validation is modelled (table 3-7) without theorems; the numeric allocation constants are measurements. '
               'Left out: the webrtc.proto message, PrivateKey of keys.proto, TLS certificate parsing, yamux / noise frame decoding '
               '(C02), the stream-based listener_select/dialer_select state machines (C03 runs and models them), the Identity(n) codec and re-polling a Substream after an error (C04: panics there are its findings). '
               'ProtocolCodec::UnsignedVarint(None) has no limit to enforce: the model shows 10 bytes requesting 2^63 bytes '
               '(Example C19_ex_unbounded_without_limit); no built-in protocol uses it and the harness runs it only with tiny lengths. '
               'TTL of a record is re-based on Instant::now() by the encoder, so round trips use records without expiry.',
 'assumptions': ['bytes are below 256 (other inputs are rejected by the case decoder)',
                 'byte strings and nested encodings are shorter than 2^64 (hypothesis wf_* of the round-trip theorems)',
                 '64-bit usize; cargo feature `rsa` off',
                 'the replication factor of a case is <= 100000 and stream cases stay below ~20 kB so that the extracted model runs in '
                 'bounded stack']}
