"""Configuration of ./check C09 (shared model coq/Ts)."""

ENTRY = {'coq_dir': 'C09',
 'coq_deps': ['Ts'],
 'model_files': ['Glue'],
 'harness': 'c09',
 'cases': {'quick': 160, 'thorough': 2400},
 'harness_timeout': 3000,
 'consts': [],
 'nontrivial_min_trace': 40,
 'rule': '`cases` real-time schedules (T = 100/300/500 ms, ops on a 200 ms grid so that every keep-alive deadline is 100 ms away from every poll; '
         '6-14 ops: establish, open, answer, inbound substream, drop substream, shut down the write half of a held substream '
         "(tcp::Substream::poll_shutdown) and keep holding it, other protocols' senders, close, idle polls; keep-alive and non-keep-alive protocol; "
         'a run whose steps drifted > 45 ms from the grid is repeated) plus 2*cases untimed reference-counting histories, all against a real '
         'TransportService; compared per op with the extracted model: events, Active->Inactive flips, handle active flags, tracked keys, number of '
         'armed sleeps, per channel whether a strong sender exists (= the connection task keeps running); plus max(2, cases/8) end-to-end cases: two '
         'real litep2p nodes over loopback TCP or WebSocket, keep-alive timeout 400/700 ms, a keep-alive user protocol on both opening / holding / '
         'half-closing / dropping substreams in slots of 300 ms (op at 300k, observation at 300k+200, deadlines 100 ms from both), ping every 100 ms '
         'as non keep-alive traffic in half of them; observed: whether both applications have been told ConnectionClosed at every observation point; '
         "predicted by two instances of the Ts model (a node's connection task ends when strong = 0); repeated when a step drifted > 45 ms",
 'trusted_base': ['tokio: sleep does not fire early, mpsc WeakSender::upgrade succeeds iff a strong sender exists, the connection task exits when '
                  'the last strong sender is gone (tcp/connection.rs, not exercised here)',
                  'real time: the tracker reads std::time::Instant; the behavioural tie holds on a 200 ms grid with 100 ms margins (runs with > 45 '
                  'ms drift are repeated), not at the deadline itself',
                  'atomic-handler abstraction: the service is polled to quiescence after every input; a sleep is armed when first polled'],
 'level_text': 'Proof (logical time, every timeout T, every history): the recorded last-activity time of a tracked connection equals the time of its '
               'last keep-alive activity per an independent specification, an armed sleep due <= last + T always exists and (feasible histories) '
               'there is exactly one per tracked connection and never more than one per key; a handle is downgraded only when that activity is >= T '
               'old, and at exactly last + T when the step does not jump over a due time; after every poll nothing tracked is overdue and (feasible '
               'histories) every Active handle has an activity less than T ago; substreams of a non-keep-alive protocol move no time and re-activate '
               "nothing; a permit in flight or a live keep-alive substream keeps the channel's strong count positive, and with none of them and no "
               'other protocol it is zero; half-closing a held substream (write half shut down, still read) releases nothing. Tied to the code by a '
               'real-time differential run.',
 'level_note': 'Partial for real time: timer accuracy, executor latency and tokio channel semantics are assumptions; the end-to-end stream observes '
               'the close of the real TCP/WebSocket connection task on a 300 ms grid with 100 ms margins (not at the deadline itself; QUIC is not in '
               'the stream). The single-sleep theorem needs the per-connection FIFO assumption (a counterexample without it is proved).',
 'assumptions': ["armed sleeps are polled (the protocol's event loop polls the service when woken)", 'time is monotone']}
