"""Configuration of ./check C09 (shared model coq/Ts)."""

ENTRY = {'coq_dir': 'C09',
 'coq_deps': ['Ts', 'Mgr', 'C06', 'Link'],
 'model_files': ['Glue'],
 'harness': 'c09',
 'cases': {'quick': 160, 'thorough': 2400},
 'harness_timeout': 3000,
 'consts': [],
 'nontrivial_min_trace': 40,
 'rule': '`cases` real-time schedules (T = 100/300/500 ms, ops on a 200 ms grid so that every keep-alive deadline is 100 ms away from every poll; '
         '6-14 ops: establish, open, answer, inbound substream, drop substream, shut down the write half of a held substream '
         "(tcp::Substream::poll_shutdown) and keep holding it, other protocols' senders, close, idle polls; keep-alive and non-keep-alive protocol; "
         'a run whose steps drifted > 45 ms from the grid is repeated) (35 % of them start with two overlapping connections of a peer, activity on '
         'one, and the primary closing first: promotion) plus 2*cases untimed reference-counting histories, all against a real TransportService; '
         'compared per op with the extracted model: events, Active->Inactive flips, handle active flags, tracked keys, number of armed sleeps, per '
         'channel whether a strong sender exists (= the connection task keeps running); plus cases/2 timed and cases/2 untimed MULTI-SERVICE cases '
         '(kind 5, see C08): 2-3 real TransportServices with DIFFERENT keep-alive timeouts (100/300/500 ms) and mixed keep-alive flags on the same '
         'connections through real ProtocolSets and real ConnectionHandles; substreams in both directions negotiated over the main or the fallback '
         'name, the lifetime permit of an inbound substream decided from the real protocols_with_keep_alives() table; observed per op: every '
         "service's downgrades, handle flags, tracked keys, armed sleeps, whether the connection's command channel still has a strong sender, and "
         'what ProtocolSet::next() returns (None = the connection task would end); judged on the trace alone: a service downgrades only when ITS '
         "last activity is >= ITS timeout old and no later, the channel has a strong sender exactly when some service's handle is Active or some "
         'service holds a keep-alive substream or has an open queued / in flight, next() is None only then; plus max(10, cases/4) name-table cases '
         '(kind 6): real ProtocolSet::new over protocols with 0-3 fallback names and mixed flags, every negotiable name must carry the flag of its '
         'protocol; plus max(2, cases/8) end-to-end cases: two real litep2p nodes over loopback TCP or WebSocket, keep-alive timeout 400/700 ms, a '
         'keep-alive user protocol on both opening / holding / half-closing / dropping substreams in slots of 300 ms (op at 300k, observation at '
         '300k+200, deadlines 100 ms from both), ping every 100 ms as non keep-alive traffic in half of them; observed: whether both applications '
         "have been told ConnectionClosed at every observation point; predicted by two instances of the Ts model (a node's connection task ends when "
         'strong = 0); repeated when a step drifted > 45 ms; plus max(2, cases/10) end-to-end request-response cases: both nodes also run a '
         'request-response protocol /c09/rr/2 with fallback /c09/rr/1; requests answered at once or held by the responder across one or more '
         'timeouts; the requester knows both names, or only the legacy name (the RESPONDER accepts over its FALLBACK name), or the responder only '
         "knows the legacy name (the REQUESTER's outbound substream is negotiated over its fallback name)",
 'trusted_base': ['tokio: sleep does not fire early, mpsc WeakSender::upgrade succeeds iff a strong sender exists, the connection task exits when '
                  'the last strong sender is gone (tcp/connection.rs, not exercised here)',
                  'real time: the tracker reads std::time::Instant; the behavioural tie holds on a 200 ms grid with 100 ms margins (runs with > 45 '
                  'ms drift are repeated), not at the deadline itself',
                  'atomic-handler abstraction: the service is polled to quiescence after every input; a sleep is armed when first polled',
                  "multi-service and end-to-end request-response streams: as for C08's multi-service stream; the harness-as-connection-task "
                  'transcribes two lines of tcp/connection.rs (keep_alive = table[negotiated name]; lifetime_permit = '
                  'keep_alive.then(permit.clone())), the end-to-end stream runs the real ones'],
 'level_text': 'Proof (logical time, every timeout T, every history): the recorded last-activity time of a tracked connection equals the time of its '
               'last keep-alive activity per an independent specification, an armed sleep due <= last + T always exists and (feasible histories) '
               'there is exactly one per tracked connection and never more than one per key; a handle is downgraded only when that activity is >= T '
               'old, and at exactly last + T when the step does not jump over a due time; after every poll nothing tracked is overdue and (feasible '
               'histories) every Active handle has an activity less than T ago; substreams of a non-keep-alive protocol move no time and re-activate '
               "nothing; a permit in flight or a live keep-alive substream keeps the channel's strong count positive, and with none of them and no "
               'other protocol it is zero; half-closing a held substream (write half shut down, still read) releases nothing. EXACT per connection: '
               'at the end of every feasible history, for every open connection of a peer (primary, secondary, promoted former secondary) the handle '
               'is Active IF AND ONLY IF the last keep-alive activity on it is less than T old; a tracked connection has an Active handle; activity '
               'on one connection leaves the other connection of the peer untouched; after the primary closed, opens count for the former secondary. '
               'COMPOSITION (coq/Ts/Multi.v, N protocols with own flags and timeouts T_j on shared connections): for every feasible history and '
               'every open connection, its command channel has NO strong sender left (ProtocolSet::next() returns None, the connection closes) IF '
               'AND ONLY IF EVERY service has let go: its own last activity is >= its own T_j old, none of its keep-alive substreams lives, none of '
               'its opens is queued or in flight; each service inside the composition keeps the exact Active <-> recent characterisation with its '
               'own T_j; all clocks agree. NAME TABLES (coq/Ts/Names.v = ProtocolSet::new): every negotiable name, main and every fallback, is '
               'classified with the keep-alive flag of its protocol and a fallback is reported under the main name (the own-name lookup of a seeded '
               'regression is refuted). Tied to the code by real-time differential runs.',
 'level_note': 'Partial for real time: timer accuracy, executor latency and tokio channel semantics are assumptions; the end-to-end stream observes '
               'the close of the real TCP/WebSocket connection task on a 300 ms grid with 100 ms margins (not at the deadline itself; QUIC is not in '
               'the stream). The single-sleep theorem needs the per-connection FIFO assumption (a counterexample without it is proved). The '
               'end-to-end oracle reads the property per node: the connection may close as soon as ONE endpoint has let go (a node cannot know what '
               'the remote still holds). Observation, clean tree: a response written by a responder that thereby releases the last permit of an idle '
               'connection is not flushed before the connection task ends (yamux connection dropped on the None command); the requester sees '
               'RequestFailed(Rejected(ConnectionClosed)) — not a C09 clause, reported.',
 'assumptions': ["armed sleeps are polled (the protocol's event loop polls the service when woken)",
                 'time is monotone',
                 'the `feasible 2` hypothesis of C09_rearm_single / C09_idle_close_exact / C09_tracked_is_active / C09_view_is_live (fresh '
                 "connection ids, at most two open connections per peer: C06's guarantee) is DISCHARGED for a service under the manager model by the "
                 "link coq/Link/C06_C08.v (the C09_*_under_manager corollaries); left there: the manager's environment `xtrace` and the connection "
                 "task's side `feasible_rest`"]}
