"""Configuration of ./check for C01 (see tools/props.py)."""
ENTRY = {'coq_dir': 'C01',
 'harness': 'c01',
 'coq_deps': ['C18'],
 'cases': {'quick': 1500, 'thorough': 40000},
 'harness_timeout': 2400,
 'consts': ['C01_STATIC_KEY_DOMAIN_BE', 'C01_STATIC_KEY_DOMAIN_LEN', 'MAX_INLINE_KEY_LENGTH', 'MULTIHASH_IDENTITY_CODE',
            'PEER_ID_MULTIHASH_SIZE'],
 'nontrivial_min_trace': 40,
 'rule': 'every case runs the REAL crypto::noise::handshake() or TcpConnection::negotiate_connection(). Streams: (1) honest sessions '
         'between two real handshake() futures over in-memory pipes with seeded identity keys and random fragmentation (1-byte to '
         '1000-byte chunks, spurious Pending); the real payload and static key of each honest session are read back through accessors '
         'and fed to the decision model with an independently computed ed25519 verdict; (2) a scripted man in the middle between the '
         'two futures, EXHAUSTIVE in both tiers: every byte position of each of the three framed handshake messages (34, 202, 170 bytes) '
         'xor 0x01, 0x80, 0xff; the stream cut after every byte; every body truncated to every shorter length with the length prefix '
         'adjusted; plus each message dropped, duplicated, replaced by random bytes, replaced by the corresponding message of another '
         "honest session, and component splices (dialer's ephemeral key reflected, message 2's ciphertexts replayed as message 3, "
         'ciphertexts swapped, components of a foreign session); random: other masks, bytes appended inside/after a frame, a byte '
         'inserted, arbitrary length prefixes, all under fragmentation; when nothing moves both directions are closed; (3) a rogue peer '
         'built directly on the snow crate (same parameters and resolver as litep2p) that completes a valid Noise XX session in either '
         'role and presents a forged identity payload: 22 forgery classes x 16 variants x 2 roles always, then random: valid (control), '
         'missing/empty key, missing/empty signature, empty payload, signature by another identity, signature over another static key '
         "(random, one bit off, the victim's identity key), over the bare static key, over 6 other domain strings, 16 key-type values "
         '(incl. 2^32+1 and 2^63+1 which prost truncates to Ed25519), key lengths 0/1/16/31/33/64, unknown fields of every wire type and '
         'nested groups, reordered and repeated fields (last wins), non-minimal varints up to 10 bytes, NoiseExtensions valid / invalid '
         'UTF-8 (6 kinds) / over-running / wrong wire type, truncation, bit flips, random bytes, small-order keys with the universal '
         'signature, keys off the curve, signatures of 63/65 bytes / zero / S+L / bit flip, group nesting 96-103 deep in payload, '
         "extensions and key blob, the victim's own key reflected, an honest payload of another session replayed, structure-aware "
         "mixtures (4% of them 2-40 kB large or with thousands of unknown fields). The payload bytes, the rogue's static key and real ed25519 / curve verdicts for every candidate key and signature "
         '(oracle tables) go into the case; the trace logs what prost makes of the payload (NoiseHandshakePayload::decode), of the key '
         'blob (keys_proto::PublicKey::decode), RemotePublicKey::from_protobuf_encoding, parse_and_verify_peer_id and the '
         "victim's handshake() verdict; each is compared with the extracted Coq model; (4) dialed-peer expectations through "
         'negotiate_connection over loopback TCP in BOTH tiers: honest pairs with {none, right, wrong} on both roles, and the rogue peer '
         '(speaking multistream-select, Noise and, in transport mode, the yamux negotiation) against a victim dialing {none, the '
         "rogue's identity, another identity, the key in the payload}. prop_ok is judged on the implementation's trace without the "
         "model's decoders: a side reports peer P only if the ed25519 table has a `true` verdict for a key with id P over DOMAIN ++ "
         'this session\'s remote static key with both key and signature occurring in the payload, and P equals the dialed peer if '
         'one was given; both ends connect only if the bytes consumed by the handshakes are the bytes sent; any connected end names the '
         "other end's identity key. A case is non-trivial when its trace has >= 40 numbers",
 'trusted_base': ['signatures: `verify` and `on_curve` are arbitrary functions in the theorems; in runs they are tables of real '
                  'ed25519-dalek / curve25519 results computed by the harness through the public ed25519 API. C01_binding additionally '
                  'ASSUMES the single-message hypothesis (verify pk m sg = verify pk m\' sg = true -> m = m\'): this is the '
                  'unforgeability idealisation, not a fact about ed25519 — it is false for small-order keys under non-strict '
                  'verification (C01_binding_needs_hypothesis; corpus w01, forgery 16)',
                  'Noise XX / the snow crate (0.9.6), ChaChaPoly, SHA-256, X25519 are not modelled byte for byte: the transcript layer '
                  'is symbolic (ciphertext = term tagged with key and handshake hash, decryption iff both agree, hash injective, '
                  'no_forgery = AEAD idealisation for a session whose four DH secrets the attacker does not know); that snow behaves '
                  'like this is tested by the exhaustive tamper sweep, not proved',
                  'prost 0.13.5 is modelled from its source for the two schemas only (varint, key, skip_field with recursion limit '
                  '100, optional/last-wins, nested NoiseExtensions with UTF-8 check); RECURSION_LIMIT = 100 is written into the model; '
                  'the nested message is parsed on its delimited slice (argued equivalent in Model.v), decoder errors are one class; '
                  'agreement with prost is differential (field-by-field on every rogue case)',
                  'peer-id derivation is the C18 model (identity multihash of 08 01 12 20 || key); the cargo feature `rsa` is off',
                  'the rogue peer, the man in the middle, the in-memory pipes and the loopback TCP set-up of the harness'],
 'level_text': 'Proof (decision layer): for the executable model of what handshake() and negotiate_connection do with the decrypted '
               'identity payload, the remote static key and the dialed peer — prost decoding of payload and key blob, Ed25519 '
               'admission (type, 32 bytes, on curve), verification over STATIC_KEY_DOMAIN ++ static key (constant read from the '
               'source), id derivation from the decoded key, dialed-peer comparison — acceptance is characterised exactly '
               '(C01_accept_sound / C01_accept_complete), every reason to refuse yields its specific error and never acceptance '
               '(10 theorems), a dialed expectation never rescues a refusal, the verdict depends on the decoded fields only, the '
               'reported id determines the verified key, an honest payload is accepted, and under the single-message hypothesis a '
               'payload accepted for one static key is refused for every other (C01_binding; the hypothesis is shown necessary). '
               'Partial (transcript layer, theorems *_partial): in a symbolic model of the three XX messages with an injective '
               'handshake hash and the AEAD idealisation, a side that accepts has read exactly what its peer sent and reaches exactly '
               "the decision layer's verdict on the peer's genuine payload and static key; any replaced message means the reader of "
               'message 2 (if 1 or 2 was replaced) and the reader of message 3 (always) refuse; the honest run succeeds; the hash '
               'instance used in runs is injective. The model is tied to the Rust code by the differential run described under rule.',
 'level_note': 'Trusted: Coq kernel, ExtrOcamlBasic extraction, harness and hooks; ed25519, curve25519, snow, prost as stated in the '
               'trusted base. "Never yields a connection" means: never both ends, and never the end that reads a damaged message or '
               'anything after it — with the XX pattern the dialer returns from handshake() after WRITING message 3, so a damaged '
               'message 3 leaves the dialer with Ok(genuine listener id) and the listener with an error (the connection then dies in '
               'the yamux negotiation; seen in kind-4 runs as class 11). Bytes that follow the last handshake frame of a direction '
               'are not part of the handshake (they are the first transport frame; C02). Observation, not counted as a violation: '
               'litep2p (like rust-libp2p) uses non-strict ed25519 verification, so the small-order keys 0100..00 / ecff..7f / 0000..00 '
               'authenticate with the fixed signature 0100..00||00..00 in every session without any secret; the resulting peer id is '
               'the hash of that weak key, which no honest node owns. Not modelled: the WebRTC caller (get_remote_peer_id, same '
               'parse_and_verify_peer_id), RSA keys, timeouts (the Timeout arm of handshake()), the WebSocket twin of the dialed-peer '
               'comparison (identical three lines, read but not run).',
 'assumptions': ['the single-message hypothesis on `verify` for C01_binding (unforgeability idealisation)',
                 'injective handshake hash and no_forgery (AEAD idealisation, attacker without the four DH secrets) for the *_partial theorems',
                 'bytes are below 256',
                 'cargo feature `rsa` off (RSA keys are UnknownKeyType)']}
