"""Configuration of ./check for C01 (see tools/props.py)."""
ENTRY = {'coq_dir': 'C01',
 'harness': 'c01',
 'coq_deps': ['C18', 'C02'],
 'cases': {'quick': 1500, 'thorough': 30000},
 'harness_timeout': 2400,
 'quick_streams': [('extra', '{V}/tools/c01_extra_streams.sh {seed} 200')],
 'thorough_streams': [('extra', '{V}/tools/c01_extra_streams.sh {seed} 6000')],
 'stream_timeout': 2400,
 'consts': ['C01_STATIC_KEY_DOMAIN_BE',
            'C01_STATIC_KEY_DOMAIN_LEN',
            'C01_TLS_SIGNING_PREFIX_BE',
            'C01_TLS_SIGNING_PREFIX_LEN',
            'C01_WEBRTC_PROLOGUE_PREFIX_BE',
            'C01_WEBRTC_PROLOGUE_PREFIX_LEN',
            'MAX_INLINE_KEY_LENGTH',
            'MULTIHASH_IDENTITY_CODE',
            'PEER_ID_MULTIHASH_SIZE'],
 'nontrivial_min_trace': 40,
 'rule': 'every case runs the REAL crypto::noise::handshake() or TcpConnection::negotiate_connection(). Streams: (1) honest sessions '
         'between two real handshake() futures over in-memory pipes with seeded identity keys and random fragmentation (1-byte to '
         '1000-byte chunks, spurious Pending); the real payload and static key of each honest session are read back through accessors and '
         'fed to the decision model with an independently computed ed25519 verdict; (2) a scripted man in the middle between the two '
         'futures, EXHAUSTIVE in both tiers: every byte position of each of the three framed handshake messages (34, 202, 170 bytes) xor '
         '0x01, 0x80, 0xff; the stream cut after every byte; every body truncated to every shorter length with the length prefix adjusted; '
         'plus each message dropped, duplicated, replaced by random bytes, replaced by the corresponding message of another honest '
         "session, and component splices (dialer's ephemeral key reflected, message 2's ciphertexts replayed as message 3, ciphertexts "
         'swapped, components of a foreign session); random: other masks, bytes appended inside/after a frame, a byte inserted, arbitrary '
         'length prefixes, all under fragmentation; when nothing moves both directions are closed; (3) a rogue peer built directly on the '
         'snow crate (same parameters and resolver as litep2p) that completes a valid Noise XX session in either role and presents a '
         'forged identity payload: 22 forgery classes x 16 variants x 2 roles always, then random: valid (control), missing/empty key, '
         'missing/empty signature, empty payload, signature by another identity, signature over another static key (random, one bit off, '
         "the victim's identity key), over the bare static key, over 6 other domain strings, 16 key-type values (incl. 2^32+1 and 2^63+1 "
         'which prost truncates to Ed25519), key lengths 0/1/16/31/33/64, unknown fields of every wire type and nested groups, reordered '
         'and repeated fields (last wins), non-minimal varints up to 10 bytes, NoiseExtensions valid / invalid UTF-8 (6 kinds) / '
         'over-running / wrong wire type, truncation, bit flips, random bytes, small-order keys with the universal signature, keys off the '
         'curve, signatures of 63/65 bytes / zero / S+L / bit flip, group nesting 96-103 deep in payload, extensions and key blob, the '
         "victim's own key reflected, an honest payload of another session replayed, structure-aware mixtures (4% of them 2-40 kB large or "
         "with thousands of unknown fields). The payload bytes, the rogue's static key and real ed25519 / curve verdicts for every "
         'candidate key and signature (oracle tables) go into the case; the trace logs what prost makes of the payload '
         '(NoiseHandshakePayload::decode), of the key blob (keys_proto::PublicKey::decode), RemotePublicKey::from_protobuf_encoding, '
         "parse_and_verify_peer_id and the victim's handshake() verdict; each is compared with the extracted Coq model; (4) dialed-peer "
         'expectations through negotiate_connection over loopback TCP in BOTH tiers: honest pairs with {none, right, wrong} on both roles, '
         'and the rogue peer (speaking multistream-select, Noise and, in transport mode, the yamux negotiation) against a victim dialing '
         "{none, the rogue's identity, another identity, the key in the payload}. (5) early data: in stream (1)/(2) sessions the dialer's "
         'application writes 1 B - 100 kB through its NoiseSocket the moment handshake() returns, so that message 3 and the transport '
         "frames reach the listener in one piece; the listener's application reads what its socket delivers: everything after an honest "
         'handshake (no read-ahead in read_handshake_message), nothing when message 3 was damaged; (6) two complete Litep2p nodes through '
         'the public API over TCP and over WebSocket, dialing the right or a wrong peer id (ConnectionEstablished / '
         'DialFailure(PeerIdMismatch); the listener reports nothing on a mismatch); (7) three-way key admission: every identity_key blob '
         'of stream (3) also goes through libp2p-identity 0.2.14 (PublicKey::try_decode_protobuf + to_peer_id): same verdict, same key, '
         'same id required by the oracle; maximal handshake messages (65535 bytes) included. (8) kind 9, the REAL TransportManager over a '
         'scripted transport installed as TCP / WebSocket (/ QUIC in the extra stream): dial_address(../p2p/<dialed>), then the transport '
         "reports ConnectionEstablished under the dial's connection id for the dialed peer or for another one, or an inbound connection: "
         'does next() hand out ConnectionEstablished (after transport.accept) or is the connection refused (transport.reject; a debug '
         'build stops at debug_assert!(false) first: both count as refused). The ed25519 / curve oracle tables are computed by an '
         "INDEPENDENT implementation (libp2p-identity 0.2.14 calling ed25519-dalek), not through litep2p's crypto::ed25519, so a change to "
         'PublicKey::try_from_bytes / verify does not move the oracle with it. EXTRA STREAM, run by ./check in BOTH tiers (props keys '
         "quick_streams / thorough_streams -> tools/c01_extra_streams.sh; crate harness_c01x built with litep2p's quic+webrtc features "
         "into C19's harness/target-c19x/target; 380 fixed and 200 / 6000 random cases, a few seconds): kind 7 the TLS certificate checks "
         'of the QUIC transport (verify_server_cert with none/right/wrong expected peer, verify_client_cert) on certificates generated by '
         "litep2p's own rcgen path with a crafted LIST of extensions in a chosen order (libp2p extension valid / none / malformed DER / "
         'signature by another identity / for another certificate key / without or with a wrong prefix, non-canonical key encodings, other '
         'key types and lengths, small-order keys, bit flips, extra certificates in the chain; other OIDs, critical or not, before / after '
         '/ around it; two libp2p extensions in every combination of good / refused key / malformed so that the first offending extension '
         'decides; random lists); kind 8 the WebRTC Noise path on byte vectors (NoiseContext::with_prologue, first_message, '
         "get_remote_peer_id; prologue from litep2p's noise_prologue) against a snow responder whose prologue is computed from the same or "
         'from a differing fingerprint pair (bit flips, swapped, truncated) or who uses no prologue / only the prefix, with all '
         'forged-payload classes of stream (3); the reply handed to get_remote_peer_id also with a length prefix that does not match '
         '(smaller but enough for the payload, one byte too small for the payload, 65535, 0), with a byte appended behind the message, or '
         "cut to a single byte; kind 6 over QUIC: two complete Litep2p nodes, right / wrong peer id dialed ('Wrong peer ID in p2p "
         "extension' arrives as the reason of a TLS transport error); kind 9 with the scripted transport installed as QUIC. A stream trace "
         'that fails prop_ok yields STREAM-VIOLATION with a replay file (replays/C01-x-<seed>-<n>.case; the harness_c01x binary takes '
         "--replay), a disagreement yields a replay of the first differing case. prop_ok is judged on the implementation's trace without "
         "the model's decoders: a side reports peer P only if the ed25519 table has a `true` verdict for a key with id P over DOMAIN ++ "
         "this session's remote static key with both key and signature occurring in the payload, and P equals the dialed peer if one was "
         'given; both ends connect only if the bytes consumed by the handshakes are the bytes sent; any connected end names the other '
         "end's identity key; a TLS identity is accepted only from a certificate with exactly one libp2p extension and no other critical "
         'extension; the manager hands out a dialed connection only for the peer it dialed. A case is non-trivial when its trace has >= 40 '
         'numbers',
 'trusted_base': ['signatures: `verify` and `on_curve` are arbitrary functions in the theorems; in runs they are tables of real '
                  'ed25519-dalek / curve25519 results computed by the harness with libp2p-identity 0.2.14 (ed25519-dalek called directly, '
                  "not through litep2p's crypto::ed25519; same non-strict verification). C01_binding additionally ASSUMES the "
                  "single-message hypothesis (verify pk m sg = verify pk m' sg = true -> m = m'): this is the unforgeability idealisation, "
                  'not a fact about ed25519 — it is false for small-order keys under non-strict verification '
                  '(C01_binding_needs_hypothesis; corpus w01, forgery 16)',
                  'Noise XX / the snow crate (0.9.6), ChaChaPoly, SHA-256, X25519 are not modelled byte for byte: the transcript layer is '
                  'symbolic (ciphertext = term tagged with key and handshake hash, decryption iff both agree, hash injective, no_forgery = '
                  'AEAD idealisation for a session whose four DH secrets the attacker does not know); that snow behaves like this is '
                  'tested by the exhaustive tamper sweep, not proved',
                  'prost 0.13.5 is modelled from its source for the two schemas only (varint, key, skip_field with recursion limit 100, '
                  'optional/last-wins, nested NoiseExtensions with UTF-8 check); RECURSION_LIMIT = 100 is written into the model; the '
                  'nested message is parsed on its delimited slice (argued equivalent in Model.v), decoder errors are one class; agreement '
                  'with prost is differential (field-by-field on every rogue case)',
                  'peer-id derivation is the C18 model (identity multihash of 08 01 12 20 || key); the cargo feature `rsa` is off',
                  'the rogue peer, the man in the middle, the in-memory pipes and the loopback TCP set-up of the harness',
                  'Dolev-Yao layer (coq/C01/Symbolic.v): idealisations I1-I5 listed at the head of the file — free term algebra (no '
                  'collisions of hash / KDF / signatures / encryption; only DH commutativity), every group element is g^x and a DH output '
                  'needs one of the two secrets, AEAD plaintext only with the key and ciphertext only from key+ad+plaintext, signatures '
                  "only with the identity secret, honest sessions draw fresh secrets outside the attacker's set and never send a secret. "
                  "They are the definitions of `term`, `knows` and `valid`, not axioms; the attacker's DH secrets `asec` and compromised "
                  'identities `bad` are arbitrary Section variables',
                  'TLS caller: the X.509 layer (x509-parser, yasna, certificate validity, self-signature with ring, rustls invoking the '
                  "verifier, TLS 1.3 CertificateVerify) is trusted; the model starts at the certificate's list of extensions in order "
                  '(each: libp2p OID with a SignedKey / libp2p OID not a SignedKey / another OID, critical or not) and the '
                  'SubjectPublicKeyInfo bytes. WebRTC caller: DTLS and the fingerprints handed to noise_prologue are trusted; litep2p has '
                  'no WebRTC dial path (it only accepts), so there is no dialed-peer comparison there',
                  'early data: composition with C02 is at the level of the two models (listener_app_bytes); that handshake() performs no '
                  'read-ahead and that a NoiseSocket exists only after acceptance is read from the code and tested by stream (5)',
                  'the reference for key admission is libp2p-identity 0.2.14 as linked into the harness (prost 0.14.4 generated decoder): '
                  'agreement is differential',
                  'comparison sites: TCP negotiate_connection (optional expectation taken from the /p2p part of the dialed address: run, '
                  'kinds 4-6), WebSocket negotiate_connection (dialer always Some: run end to end, kind 6), QUIC make_client_config(.., '
                  'Some(peer)) -> verify_server_cert (run: kind 7 through the hook, kind 6 end to end over QUIC), '
                  'TransportManager::on_connection_established (run: kind 9), listeners of all three and WebRTC: no expectation. READ, not '
                  'run: that WebSocket / QUIC dial() and open() refuse an address without /p2p (AddressError::PeerIdMissing) and that TCP '
                  'takes Option from TcpAddress::multiaddr_to_socket_address — dial_setup in the model; C01_every_dial_checked does not '
                  "depend on it (the manager's comparison covers every case), and the manager itself only dials addresses carrying /p2p",
                  'Dolev-Yao agreement theorems: the events NewD/NewL/Answered/AcceptD/AcceptL are bookkeeping of the model (what a '
                  'session did), the prologue assignment `pro` is arbitrary; the listener reads message 3 only against the message 2 it '
                  'wrote itself (v_L4 requires Answered), as handshake() does (one HandshakeState per call)'],
 'level_text': 'Proof (decision layer, all callers): for the executable model of what handshake()/negotiate_connection (TCP, WebSocket), '
               'certificate::parse + Libp2pCertificateVerifier (QUIC) and get_remote_peer_id (WebRTC) do with the identity material — '
               'prost decoding of payload and key blob, Ed25519 admission, signature over STATIC_KEY_DOMAIN ++ static key (Noise) or '
               'P2P_SIGNING_PREFIX ++ SPKI (TLS), id derivation from the decoded key, comparison with the dialed peer — acceptance is '
               "characterised exactly (C01_accept_sound/_complete, C01_tls_accept_sound/_complete: the TLS model walks the certificate's "
               'extensions in order as parse_unverified does — exactly one libp2p extension among skipped ones; a critical unknown or a '
               'second libp2p extension is never accepted), every reason to refuse yields its error (10 theorems), a key blob of another '
               'type (RSA, Secp256k1, ECDSA, unknown) is never accepted on either path, binding to the session static key / certificate '
               'key under the single-message hypothesis (shown necessary), decoder fuel adequacy, honest payload accepted. Every caller: '
               'on EVERY transport a connection dialed through the manager is accepted only for the dialed peer and on authentic evidence '
               '(C01_every_dial_checked: the transport compares, and where it does not — TCP with an address lacking /p2p — '
               'TransportManager::on_connection_established does; C01_transport_and_manager_checks, C01_inbound_authentic). Framing: what '
               'first_message / second_message write is read back exactly by read_handshake_message and nothing behind a frame is touched; '
               "the listener's handshake consumes exactly its two frames (C01_handshake_framing, C01_honest_message_sizes). Proof "
               '(Dolev-Yao layer, C01_dy_*): over ALL interleavings of any number of honest dialer/listener sessions, each with its own '
               'prologue, with an active attacker owning any DH secrets and any identity keys: whoever completes believing in an '
               'uncompromised P holds a session key bound to a static key that P signed in one of its honest sessions, the attacker never '
               'knows that key nor any session or identity secret; AGREEMENT without any no-forgery hypothesis (derived from a '
               'ciphertext-origin invariant): an accepting dialer received ephemeral and static key of ONE listener session of P, which '
               "wrote message 2 in answer to this dialer's own ephemeral key under the SAME PROLOGUE (WebRTC fingerprints), the accepted "
               'message 2 being that message component for component; an accepting listener talked to a dialer session of P that COMPLETED '
               'accepting exactly this listener (agent and static key) with the very same session key and the same prologue; a dialer and '
               "a listener session with the same key are each other's peers; secrets have unique owners; the honest run is a valid trace "
               'whenever the two prologues agree. Partial (linear transcript layer, *_partial and the three theorems built on it: '
               'C01_webrtc_prologue_binds, C01_xx_order, C01_early_data): one dialer and one listener session, injective handshake hash, '
               'AEAD idealisation no_forgery: an accepting side read exactly what its peer sent, byte string for byte string, and reaches '
               "the decision layer's verdict on the peer's genuine payload/static key; replaced message or differing prologue => refusal; "
               "the dialer finishes first, the listener only after the dialer wrote message 3, message 2 is independent of the dialer's "
               "identity, message 3 is written before the dialer's verdict; composed with C02: no early byte reaches the listener's "
               'application unless its handshake accepted, and never anything of or after a non-authentic transport frame.',
 'level_note': 'Trusted: Coq kernel, ExtrOcamlBasic extraction, harness and hooks; ed25519, curve25519, snow, prost as stated in the '
               'trusted base. "Never yields a connection" means: never both ends, and never the end that reads a damaged message or '
               'anything after it — with the XX pattern the dialer returns from handshake() after WRITING message 3, so a damaged message '
               '3 leaves the dialer with Ok(genuine listener id) and the listener with an error (the connection then dies in the yamux '
               'negotiation; seen in kind-4 runs as class 11). Bytes that follow the last handshake frame of a direction are not part of '
               'the handshake (they are the first transport frame; C02). Observation, not counted as a violation: litep2p (like '
               'rust-libp2p) uses non-strict ed25519 verification, so the small-order keys 0100..00 / ecff..7f / 0000..00 authenticate '
               'with the fixed signature 0100..00||00..00 in every session without any secret; the resulting peer id is the hash of that '
               'weak key, which no honest node owns. Not modelled: RSA keys (cargo feature off), timeouts (the Timeout arm of '
               'handshake()), the X.509 / TLS 1.3 / DTLS layers, the byte-level split of a Noise message into its components (done in Glue '
               'by fixed offsets, tested). Observation (harmless): the WebRTC caller get_remote_peer_id does not check its two-byte length '
               'prefix against the reply — the prefix only sizes the output buffer and all bytes behind it go to snow; a wrong prefix that '
               'still leaves room for the payload is accepted, anything appended breaks the last AEAD tag (run8 in Glue.v, tested by kind '
               "8). In a debug build the manager's comparison stops at debug_assert!(false) before it rejects: kind 9 counts the panic as "
               'a refusal (a release build calls transport.reject). WHAT IS MISSING FROM THE *_partial THEOREMS: (a) they speak about the '
               'linear script (one session pair) at the level of byte strings; the Dolev-Yao theorems close the multi-session / '
               'interleaving gap for authentication, key secrecy, session matching and now also for agreement on the transcript and on the '
               'prologue (C01_dy_dialer_agreement, C01_dy_listener_agreement), at the level of terms; (b) no_forgery is a hypothesis on '
               'the run there (a delivered ciphertext bound to a handshake hash its reader will use was produced by the peer), whereas in '
               "the Dolev-Yao layer the attacker's inability is derived from the closure rules; (c) in both layers the hash is "
               'collision-free and terms stand for bytes: that snow/ChaChaPoly/SHA-256/X25519 realise the symbolic operations is tested, '
               'not proved; C01_transcript_hash_instance (formerly _partial) is a complete theorem: it shows the injectivity hypothesis '
               'satisfiable. Further observations: (i) the dialer writes message 3 — its own identity, readable by the holder of the '
               "static key it was given — before checking the listener's signature (C01_xx_order (iv)): a rogue listener learns the "
               "dialer's identity even though it is then rejected; (ii) TCP takes the expectation from the /p2p part of the dialed address "
               '(Option): an address without it would skip the comparison; the manager only dials addresses carrying /p2p (dial_address '
               'refuses others; stored addresses: C10).',
 'assumptions': ['the single-message hypothesis on `verify` for C01_binding (unforgeability idealisation)',
                 'injective handshake hash and no_forgery (AEAD idealisation, attacker without the four DH secrets) for the *_partial '
                 'theorems',
                 'bytes are below 256',
                 'cargo feature `rsa` off (RSA keys are UnknownKeyType)',
                 'Dolev-Yao idealisations I1-I5 (Symbolic.v) for the C01_dy_* theorems',
                 'X.509/TLS 1.3/DTLS layers trusted for the QUIC and WebRTC callers']}
