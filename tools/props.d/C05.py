"""Configuration of ./check for C05 (see tools/props.py)."""
ENTRY = {'coq_dir': 'C05',
 'coq_deps': ['Mgr', 'C10'],
 'model_files': ['Glue'],
 'harness': 'c05',
 'cases': {'quick': 1500, 'thorough': 400000},
 'consts': [],
 'rule': 'adaptive seeded event histories (5-60 events quick, 10-120 thorough) against the real TransportManager with a scripted '
         'transport: dial requests by peer and by address, address additions, open/negotiate outcomes, inbound connections (ids drawn from '
         'the shared counter), accept futures, closures, limit configurations from {none,0,1,2,3}; 85% follow the transport contract and '
         'end with a settle phase (all owed answers delivered, every peer re-dialled), 15% add infeasible noise (unknown ids, failing '
         'transport calls, failing accepts). 9% of the events are dial_address calls with arbitrary multiaddress shapes from the C10 '
         "grammar (accepted shapes, missing /p2p, components after the peer id, wrong first/second component, ws/quic shapes, the node's "
         'own listen address). After every event the transport calls, protocol notifications, manager events, return code and a dump of '
         'peer states / pending / counted sets are compared with the extracted Coq model. Non-trivial: trace >= 8 numbers; distinct (case, '
         'trace) pairs are counted.',
 'level_text': 'Proof: the dial ledger is an inductive invariant (LInv) of the manager model over every event history the transport '
               "contract allows and every limit configuration: every pending attempt is owed an answer by the transport and is its peer's "
               'dial record, ids are fresh, terminal outputs close an attempt for good; consequences proved for all feasible histories: no '
               'connection id is named by two terminal outputs, at quiescence every accepted attempt has a terminal output or was '
               'superseded by a reported connection of the same peer or belongs to the recorded finding (limit-rejected outbound '
               'connection), and no peer is wedged; plus per-handler theorems (re-dial attempted, failure consumes the attempt, limit '
               'rejection clears the dial record, panics need contradictory ids). The same ledger is evaluated by the extracted oracle on '
               "the implementation's own traces; the model is tied to manager/mod.rs step by step.",
 'level_note': 'Trusted: Coq kernel, extraction, harness + ScriptedTransport hook. Transport contract `feas` (calls succeed, each is '
               'answered once unless cancelled, cancel is effective, accept futures succeed) is an assumption validated for TCP by reading '
               "tcp/mod.rs; one transport (TCP) only; the address book is abstracted to 'has an address' (scores are C10); `.await` on "
               'full protocol channels inside the DialFailure fan-out is not modelled.',
 'trusted_base': ['transport contract assumed for the feasible stream: open/dial/negotiate calls succeed, each is answered once unless '
                  'cancelled, accept futures succeed (validated for TCP by reading tcp/mod.rs)',
                  'connection ids: inbound ids are drawn from the counter shared with the manager (AllocConn event / '
                  'verif_alloc_connection_id hook)'],
 'assumptions': ['single installed transport (default cargo features of the harness build)',
                 'debug build: a reachable debug_assert!(false) shows up as a panic']}
