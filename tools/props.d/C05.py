"""Configuration of ./check for C05 (see tools/props.py)."""
ENTRY = {'coq_dir': 'C05',
 'coq_deps': ['Mgr', 'C10', 'Tcp'],
 'model_files': ['Glue'],
 'harness': 'c05',
 'cases': {'quick': 1500, 'thorough': 400000},
 'consts': [],
 'rule': 'THREE STREAMS. (1) Manager stream: adaptive seeded event histories (5-60 events quick, 10-120 thorough) against the '
         'real TransportManager with TWO scripted transports (TCP and WebSocket; 70% of the cases install both, the others TCP '
         'only or WebSocket only) and through the real user-facing TransportManagerHandle: dial requests by peer (manager.dial, '
         'and handle.dial whose command travels over the real command channel and is executed by next()), by address '
         '(manager.dial_address, handle.dial_address), address additions (handle.add_known_address) of a tcp and/or a /ws '
         'address per peer, open outcomes per (connection id, transport) in every order (fail/fail, fail/opened, opened first, '
         'inbound connection wins while both transports are owed), negotiate outcomes, inbound connections (ids drawn from the '
         'shared counter), accept futures, closures, limit configurations from {none,0,1,2,3} incl. free outbound capacity 1 '
         "with both kinds of addresses stored (the implementation's choice of transports is read from the Opening state it "
         'created, written into the case and validated by the oracle: choice_ok); 85% follow the transport contract (mirrored '
         'per (id, transport) by the generator) and end with a settle phase (all owed answers delivered, every peer re-dialled), '
         '15% add infeasible noise (unknown ids, failing open on either or both transports, failing dial/negotiate/accept). 9% '
         'of the events are dial_address calls with arbitrary multiaddress shapes from the C10 grammar (accepted tcp and ws '
         "shapes, missing /p2p, components after the peer id, wrong first/second component, quic shapes, the node's own listen "
         "address, a peer's canonical address). After every event the calls each transport saw (tagged with the transport), "
         'protocol notifications, manager events (OpenFailure with its error count), return code and a dump of peer states '
         '(Opening with its transport mask) / address book by kind / pending / counted sets / opening_errors are compared with '
         'the extracted Coq model. (2) transport streams (harness/src/c05_tcp.rs; first number 9000 TCP / 9001 WebSocket / 9002 '
         'QUIC; one TCP and one WebSocket case in 20 quick / 1000 thorough; QUIC: the aux stream of the thorough tier, the '
         'harness built a second time with --features quic, 300 cases + corpus/C05-quic): the REAL TcpTransport / '
         'WebSocketTransport / QuicTransport (VerifTcpTransport / VerifWsTransport / VerifQuicTransport facades) is driven over '
         'loopback sockets through its Transport trait and Stream::poll_next (polled until Pending without a self-wake) with '
         'adaptive call sequences (5-40 steps quick, 8-70 thorough, max_parallel_dials from {8,1,2,3}): ids drawn from the '
         'shared counter, dial, open with 0-5 addresses, negotiate (incl. the manager pattern cancel+negotiate without a poll '
         'between), cancel before / after completion, accept / reject, inbound connections with accept_pending / reject_pending, '
         'polls; 15% of the TCP / WebSocket cases also reuse or invent ids (QUIC cases keep to owners that draw their ids, see '
         'level_note). Every address is built in the shape of the transport under test and points at a gate (a loopback TCP '
         'listener / UDP relay that connects through to one of two further real transports of the same kind, nodes A and B with '
         'different identities, holds the bytes and is released by the harness: pass or close), at a closed port, is malformed, '
         'is a well-formed address of ANOTHER transport (ws-shaped for TCP, tcp-shaped for WebSocket / QUIC), or (WebSocket) is '
         'a /wss address, and independently NAMES a peer (none, A, B, nobody): an address without /p2p is an attempt for TCP and '
         'is refused by WebSocket / QUIC; listeners that complete the handshake, stall, close at once, or answer with a '
         'different identity than the address names (on the dial path and on the open+negotiate path, also as the first of '
         'several addresses); 3% of the cases instead use a 250 ms connection_open_timeout and let a stalled dial, a stalled '
         'open and (TCP, WebSocket) the overall open deadline time out. The harness ends one attempt at a time (the completion '
         'order of the inner futures is decided by construction) and feeds that order to the model as events; the model side '
         'builds the same multiaddresses in the C10 grammar (coq/Tcp/Glue.v addr_of) and decides with expect_of of '
         'coq/Tcp/Variants.v whether the transport takes them; after every step the call result, the TransportEvents polled '
         '(kind, connection id, authenticated peer, endpoint direction), the warn/debug lines of the branches of poll_next that '
         'drop a future (log tap) and a dump of pending_dials / pending_inbound_connections / opened (opened_raw) / '
         'cancel_futures (with is_aborted) / pending_open and the lengths of the two future sets are compared with the extracted '
         'Coq model (coq/Tcp). A panic of the implementation ends the case with the panic marker as its trace. prop_ok of these '
         "streams is the transport contract judged on the implementation's own trace: open-phase events only for an owed open, "
         'outbound ConnectionEstablished (dialer endpoint) / DialFailure only for an owed negotiate, ConnectionEstablished names '
         'a peer the address of that id names, dial succeeds exactly on an address the transport parses, negotiate succeeds '
         'exactly on an opened id, no owed answer is dropped, inbound ids come from the shared counter. Non-trivial: trace >= 8 '
         'numbers; distinct (case, trace) pairs are counted.',
 'level_text': 'Proof: the dial ledger is an inductive invariant (LInv) of the manager model over every event history the '
               'transport contract allows and every configuration (limits, installed transports), with dial attempts owed by '
               "SEVERAL transports in parallel: every pending attempt is owed an answer and is its peer's dial record, the "
               'transports that still owe an open answer for an id are exactly the transport set of the Opening state '
               '(non-empty, installed only), ids are fresh, terminal outputs close an attempt for good, the address book holds '
               'installed kinds only (KInv, inductive over every history); consequences proved for all feasible histories: no '
               'connection id is named by two terminal outputs, at quiescence every accepted attempt has a terminal output or '
               'was superseded by a reported connection of the same peer or belongs to the recorded finding (limit-rejected '
               'outbound connection), no peer is wedged, no panic site is reached; OpenFailure is reported exactly by the '
               'failure of the last transport of the set (with the accumulated error count) and a non-last failure is silent and '
               'keeps the attempt owed; ConnectionOpened cancels on every transport of the set, negotiates on the winner only '
               'and ends the open phase; an inbound connection cancels on all transports and leaves nothing owed; the handle '
               'gate (TransportManagerHandle::dial / dial_address) is sound and agrees with the manager on the same state, the '
               'only refusal of a queued command being the connection limit (finding class 2); plus per-handler theorems '
               '(re-dial attempted on every transport of any allowed choice, failure consumes the attempt, limit rejection '
               'clears the dial record, panics need contradictory ids or an uninstalled transport in an Opening set, which the '
               'invariant excludes; C05_uninstalled_transport_refuted shows what would happen otherwise). The same ledger is '
               "evaluated by the extracted oracle on the implementation's own traces; the model is tied to "
               'manager/{mod,peer_state,limits,handle}.rs step by step. The transport contract assumed by that invariant is '
               'PROVED for a model of TcpTransport (coq/Tcp: the Transport trait methods and poll_next over pending_dials, '
               'pending_raw_connections + cancel_futures/is_aborted, opened, pending_connections, pending_inbound_connections, '
               'pending_open, plus the futures built by dial/open: per-address attempts carrying the peer the address names, '
               'first success wins, Failed when none is left) for every history of calls and future completions: (a) '
               'ConnectionOpened/OpenFailure only for an owed open (needs an earlier open(c), at most once, never after '
               'cancel(c)) for ANY owner; (b) outbound ConnectionEstablished/DialFailure only for an owed dial/negotiate, at '
               'most once; (c) open and well-formed dial succeed, negotiate(c) succeeds exactly when ConnectionOpened c was '
               'emitted and not negotiated since; (d) every completed future of an un-cancelled call is answered by the poll '
               'that observes it: the silent branches of poll_next (two "raw connection without a cancel handle", the foreign '
               'is_aborted handle, a dial failing without a pending_dials entry) are unreachable, what is owed is backed by a '
               'pending future; (e) ids: outbound ids come from the owner, inbound ids are the next counter value; identity: an '
               'outbound ConnectionEstablished names a peer the addresses of that id name (an answer by another identity ends in '
               "a failure). (b), (d), (e) assume the owner's hygiene caller_ok (ids passed to dial/open were drawn from the "
               'shared counter and are used once), shown necessary by a witness. Over whole histories (Once.v, a token argument '
               'on the ghost state): an id is answered by at most one of ConnectionOpened / OpenFailure and by at most one of '
               'outbound ConnectionEstablished / DialFailure, what is still owed has not been answered, nothing is answered for '
               'an id the owner never passed in. Never silence (Settle.v, a measure argument over owed opens + owed negotiates + '
               'addresses still being tried, using the progress theorems): from every reachable state the environment has a '
               'finite schedule of attempts ending and polls after which nothing is owed, and an environment event takes an id '
               'out of the owed sets only by emitting its answer; a refused dial changes nothing and an open none of whose '
               'addresses the transport takes is answered by OpenFailure at the next poll. The SAME contract is proved for '
               'WebSocketTransport and QuicTransport (C05_tr_* / C05_ws_* / C05_quic_*): the three transports keep the same '
               'books with the same poll_next, and differ in their front end, which is modelled per transport over the '
               'multiaddress grammar of coq/C10 (Variants.v: expect_of = which addresses dial accepts and which addresses of an '
               'open become attempts: TCP multiaddr_to_socket_address, optional /p2p; WebSocket multiaddr_into_url, /ws|/wss and '
               '/p2p required; QUIC get_socket_address, /quic-v1 and /p2p required; QUIC has no overall open deadline); every '
               'history of a transport is a history of the bookkeeping model (refinement C05_tr_refines_model), so (a)-(e), the '
               'progress theorems and the at-most-once theorems hold per transport; in addition: dial returns Ok exactly on an '
               'address the transport parses, open never fails, every address TransportManager can hand over (the shapes '
               'dial_address lets through, coq/Mgr/DialShape.v; the `supported` addresses of the store, routed by `route`) is '
               'accepted by the transport it is routed to and the expected peer is the dialled one, WebSocket and QUIC report an '
               'outbound connection only for a peer an address names literally. The model is tied to tcp/mod.rs, '
               'websocket/mod.rs and quic/mod.rs by the transport streams. COMPOSITION (coq/C05/TcpCompose.v, theorems '
               'C05_sys_*): the manager model and the TcpTransport model are plugged into each other — every call the manager '
               'model makes (open with the addresses of the dialled peer, dial, negotiate, cancel, accept, reject, '
               'accept_pending, reject_pending, and next_connection_id as a draw from the shared counter) is executed by the TCP '
               'model, every event a poll of the TCP model emits is handled by the manager model one after the other (its calls '
               "executed before the next event is handled; the negotiate / accept results the handlers see are the TCP model's), "
               'with TCP as the one installed transport; coq/C05/TrCompose.v (theorems C05_sysT_*) is the same composition with '
               'the transport tag abstracted: it holds for ANY ONE installed transport, in particular WebSocket alone, and '
               'C05_sysT_calls_are_real / C05_sysT_transport_side_is_its_model say that the bookkeeping model inside the '
               'composed system is the model of that transport (coq/Tcp/Variants.v) run on the real trait calls with the '
               'canonical addresses of the dialled peer. For EVERY history of outside inputs (user / protocol side: dial '
               'requests by peer and by address incl. through the handle, address additions, closed connections, accept futures; '
               'network / runtime: a socket arrives, an attempt of a pending future ends with an identity or fails, a deadline '
               'fires, a poll) the manager is handed an event history that satisfies the transport contract `feas` '
               "(C05_sys_feasible, C05_sys_step; proof: a coupling invariant between the manager's ledger and the ledger of the "
               "TCP contract — what the manager thinks TCP owes is what TCP's ledger says, same peer named, same counter — kept "
               'while the events of one poll are delivered one by one, using the C05_tcp contract theorems, commutation of the '
               "manager's calls with the events not delivered yet, and the shape of a poll: events about inbound sockets come "
               'last). Hence C05_sys_at_most_one_outcome, C05_sys_no_silence, C05_sys_no_wedge, C05_sys_no_stuck hold for '
               'manager + TCP together with NO assumption about the transport; what is still assumed is only the part of `feas` '
               'about the address store (choice_ok), the protocols (accept futures succeed) and that open() / dial() of a '
               'shape-checked address return Ok (true in the TCP model). The network assumption is explicit: quiescence is a '
               "statement about the TCP model's own ledger (C05_sys_quiescent), whatever the manager waits for is backed by a "
               'pending un-cancelled future of the TCP model (C05_sys_owed_is_pending), and for each such id there is an allowed '
               'network / runtime input — the deadline of the open fires, the dial attempt ends, the transport is polled — whose '
               'handling hands the manager an answer for that id (C05_sys_progress): the only liveness assumption left is that '
               'the network lets every pending future end (answer, failure or timeout) and the runtime polls the transport.',
 'level_note': 'Trusted: Coq kernel, extraction, harness + ScriptedTransport hooks. Transport contract `feas` (calls succeed, '
               'each open is answered once per transport unless cancelled on it, cancel is effective, accept futures succeed, '
               'events come from installed transports) is an assumption of the C05 ledger theorems; it is a THEOREM about the '
               'transport models of all three socket transports (C05_tcp_* / C05_tr_*, see below), and the composition with the '
               'manager model is proved for any one installed transport (C05_sys_* for TCP, C05_sysT_* for any tag); in the '
               'manager stream two of the three transports (TCP, WebSocket) are installed as scripted transports, QUIC is '
               'compiled out of the default harness build; the address book is abstracted to the set of stored addresses (which '
               'of them AddressStore::addresses(limit) hands out is an input validated by choice_ok; scores are C10; fewer than '
               '64 addresses per peer so that no eviction happens); the handle call and the execution of its command happen in '
               'one step (the asynchronous gap between them is not modelled: C05_handle_gate_agrees is about the same state); '
               'ChannelClogged is modelled as a possible result (clog) but never driven; `.await` on full protocol channels '
               'inside the DialFailure fan-out is not modelled. For TCP, WebSocket and QUIC the contract is no longer an '
               'assumption: it is proved for the model coq/Tcp (+ the per-transport front ends of Variants.v) and tied to '
               'tcp/mod.rs, websocket/mod.rs (quick + thorough tier) and quic/mod.rs (thorough tier only: aux stream, harness '
               'built with --features quic) by the transport streams; still assumed there: the negotiation (connection.rs '
               'negotiate_connection) authenticates the remote and honours its dialed_peer argument (exercised with real '
               'handshakes, not modelled), timeouts fire (connection_open_timeout / the dial deadline are the model events '
               '"attempt failed" / EExpire; 3% of the transport-stream cases and the stored timeout cases '
               '(corpus/C05/tcp_timeouts.case, ws_transport.case) run with a 250 ms timeout and end one future at a time by '
               'waiting, all other cases use 60 s timeouts that never fire), tokio wakes ready futures, the OS delivers socket '
               'events, the listener does not terminate; the composition of the TCP model with the manager model is PROVED '
               '(C05_sys_*) for configurations with TCP as the only installed transport; in it the owner hygiene caller_ok of '
               'the TCP theorems is discharged (the manager draws every id it passes to open / dial from the shared counter '
               'right before the call, at most one such call per step: Mgr/Calls.v), the glue is part of the statement: all '
               'addresses of one open / dial call name the dialled peer (every stored address ends in /p2p/<peer>; C10), a dial '
               "address that passed the manager's shape check parses in TCP (valid = true), a failure event carries an address "
               "of the call (the peer is read from the TCP ledger's g_att), one poll = poll_next until Pending with the manager "
               'handling the batch in order (the granularity at which the TCP model is tied to tcp/mod.rs); the same composition '
               'is proved for any ONE installed transport (C05_sysT_*, e.g. WebSocket alone); for TWO transports installed at '
               'the same time (one connection id opened on both) the COMPOSITION is not proved: it needs one instance of the '
               "transport model per transport with the shared counter kept in step, the manager's negotiate ledger split by "
               "transport and the coupling lemmas redone with calls to and events of the other transport; the manager's theorems "
               'then rest on `feas` as an assumption about the pair, although each transport model satisfies its own contract '
               '(C05_tr_*); "accept futures succeed" is still an assumption; QUIC: the code tells a dialed from an accepted '
               'connection by its pending_dials entry (TCP / WebSocket carry the endpoint inside the negotiated connection); the '
               "model's endpoint direction is TCP's, the two coincide for an owner that draws its ids (invariant c_conn_dial), "
               "so the QUIC stream keeps to such owners and the dump maps QUIC's pending_dials to the model's plus the ids of "
               'pending negotiate futures; QUIC has no log line for a failed inbound handshake (that mark is not compared for '
               'QUIC); which of the addresses of an open are in flight at a time (max_parallel_dials / buffer_unordered; QUIC: '
               'all) is not modelled: the model lets the environment answer any attempt that is left, a superset; /wss: the TLS '
               'layer is environment (exercised against a plain listener: the attempt fails; F-C05g); the transport models are '
               "proved one at a time (the multi-transport Opening is the manager model's side).",
 'trusted_base': ['transport contract of the feasible manager stream: open/dial/negotiate calls succeed, each is answered once '
                  'unless cancelled, the reported peer is the dialled one: for TCP, WebSocket and QUIC proved for the model '
                  'coq/Tcp (C05_tcp_* / C05_tr_* / C05_ws_* / C05_quic_* theorems) and tied to the code by the transport streams '
                  '(QUIC: thorough tier only); what remains trusted: noise/yamux negotiation authenticates the remote and '
                  'compares it with dialed_peer, timeouts fire, tokio, the OS; accept futures succeed (assumed)',
                  'composition manager + TCP (C05_sys_*): proved for the two MODELS; the glue between them (which calls are '
                  'forwarded, what an event looks like to the manager, the shared counter) is a definition in '
                  'coq/C05/TcpCompose.v checked by a concrete composed history (C05_sys_history), not by a separate harness '
                  'stream: each model is tied to its code separately (manager stream with scripted transports, TCP stream with '
                  'the real TcpTransport); remaining assumptions there: choice_ok (address store), accept futures succeed '
                  '(protocols alive, C07), network liveness (every pending future ends or times out, the transport is polled)',
                  'connection ids: inbound ids are drawn from the counter shared with the manager (AllocConn event / '
                  'verif_alloc_connection_id hook)',
                  'the invariant "only installed kinds are stored" (KInv) is proved for add_known_address (supported_transport '
                  'filter) and dial_address (shape + installed check); for addresses REPORTED by transports (DialFailure / '
                  'OpenFailure / ConnectionOpened / ConnectionEstablished) it rests on the harness: a scripted transport only '
                  'reports the canonical address of its own kind (a real transport reports the addresses it was handed by the '
                  'manager)',
                  'TransportManagerHandle: the ChannelClogged / TaskClosed results of try_send are not driven by the harness '
                  '(the channel never fills: every command is executed in the step that queued it)',
                  'multiaddress grammar and socket-address parsers of coq/C10/Model.v (tied to common/listener.rs and '
                  'quic/listener.rs by the C10 stream); ws_url of coq/Tcp/Variants.v is a transcription of '
                  'WebSocketTransport::multiaddr_into_url, tied by the WebSocket stream (dial results and attempt tables for '
                  'every address shape the harness builds: own shape with and without /p2p, /wss, foreign, malformed)'],
 'assumptions': ['manager stream: two installed transports at most (TCP, WebSocket: cargo feature websocket on, quic off in the '
                 'default harness build)',
                 'debug build: a reachable debug_assert!(false) shows up as a panic',
                 'fewer than MAX_ADDRESSES (64) distinct addresses per peer (no eviction from the address store; at most 40 '
                 'dial_address shapes per case)',
                 'transport streams: loopback sockets / UDP relay; a completion that does not show up within 20 s is recorded as '
                 'a missing answer',
                 'QUIC stream: only in the thorough tier (second harness build with --features quic); a failing QUIC attempt '
                 'ends by its idle timeout, so failing answers are generated only in the short-timeout cases'],
 'aux_stream': {'tiers': ['thorough'],
                'features': 'quic',
                'target_dir': 'target-quic',
                'args': '--only-transport 9002',
                'cases': {'thorough': 300},
                'corpus': 'corpus/C05-quic'}}
