"""Configuration of ./check for C05 (see tools/props.py)."""
ENTRY = {'coq_dir': 'C05',
 'coq_deps': ['Mgr', 'C10', 'Tcp'],
 'model_files': ['Glue'],
 'harness': 'c05',
 'cases': {'quick': 1500, 'thorough': 400000},
 'consts': [],
 'rule': 'TWO STREAMS. (1) Manager stream: adaptive seeded event histories (5-60 events quick, 10-120 thorough) against the real '
         'TransportManager with TWO scripted transports (TCP and WebSocket; 70% of the cases install both, the others TCP only '
         'or WebSocket only) and through the real user-facing TransportManagerHandle: dial requests by peer (manager.dial, and '
         'handle.dial whose command travels over the real command channel and is executed by next()), by address '
         '(manager.dial_address, handle.dial_address), address additions (handle.add_known_address) of a tcp and/or a /ws '
         'address per peer, open outcomes per (connection id, transport) in every order (fail/fail, fail/opened, opened first, '
         'inbound connection wins while both transports are owed), negotiate outcomes, inbound connections (ids drawn from the '
         'shared counter), accept futures, closures, limit configurations from {none,0,1,2,3} incl. free outbound capacity 1 '
         "with both kinds of addresses stored (the implementation's choice of transports is read from the Opening state it "
         'created, written into the case and validated by the oracle: choice_ok); 85% follow the transport contract (mirrored '
         'per (id, transport) by the generator) and end with a settle phase (all owed answers delivered, every peer re-dialled), '
         '15% add infeasible noise (unknown ids, failing open on either or both transports, failing dial/negotiate/accept). 9% '
         'of the events are dial_address calls with arbitrary multiaddress shapes from the C10 grammar (accepted tcp and ws '
         "shapes, missing /p2p, components after the peer id, wrong first/second component, quic shapes, the node's own listen "
         "address, a peer's canonical address). After every event the calls each transport saw (tagged with the transport), "
         'protocol notifications, manager events (OpenFailure with its error count), return code and a dump of peer states '
         '(Opening with its transport mask) / address book by kind / pending / counted sets / opening_errors are compared with '
         'the extracted Coq model. (2) TCP transport stream (one case in 10 quick / 400 thorough, first number 9000; '
         'harness/src/c05_tcp.rs): the REAL TcpTransport (VerifTcpTransport facade) is driven over loopback sockets through its '
         'Transport trait and Stream::poll_next with adaptive call sequences (5-40 steps quick, 8-70 thorough, '
         'max_parallel_dials from {8,1,2,3}): ids drawn from the shared counter, dial, open with 0-5 addresses, negotiate (incl. '
         'the manager pattern cancel+negotiate without a poll between), cancel before / after completion, accept / reject, '
         'inbound sockets with accept_pending / reject_pending, polls; 15% of the cases also reuse or invent ids. Every address '
         'points at a gate (a loopback listener that connects through to one of two further real TcpTransport nodes A, B with '
         'different identities, holds the bytes and is released by the harness: pass or close), at a closed port, or is '
         'malformed, and independently NAMES a peer (none, A, B, nobody): listeners that complete the noise/yamux handshake, '
         'stall, close at once, or answer with a different identity than the address names (on the dial path and on the '
         'open+negotiate path, also as the first of several addresses); 3% of the cases instead use a 250 ms '
         'connection_open_timeout and let a stalled dial, a stalled open and the overall open deadline time out. The harness '
         'ends one attempt at a time (the completion order of the inner futures is decided by construction) and feeds that order '
         'to the model as events; after every step the call result, the TransportEvents polled (kind, connection id, '
         'authenticated peer), the warn/debug lines of the branches of poll_next that drop a future (log tap) and a dump of '
         'pending_dials / pending_inbound_connections / opened / cancel_futures (with is_aborted) / pending_open and the lengths '
         'of the two future sets are compared with the extracted Coq model (coq/Tcp). prop_ok of this stream is the transport '
         "contract judged on the implementation's own trace: open-phase events only for an owed open, outbound "
         'ConnectionEstablished / DialFailure only for an owed negotiate, ConnectionEstablished names a peer the address of that '
         'id names, negotiate succeeds exactly on an opened id, no owed answer is dropped, inbound ids come from the shared '
         'counter. Non-trivial: trace >= 8 numbers; distinct (case, trace) pairs are counted.',
 'level_text': 'Proof: the dial ledger is an inductive invariant (LInv) of the manager model over every event history the '
               'transport contract allows and every configuration (limits, installed transports), with dial attempts owed by '
               "SEVERAL transports in parallel: every pending attempt is owed an answer and is its peer's dial record, the "
               'transports that still owe an open answer for an id are exactly the transport set of the Opening state '
               '(non-empty, installed only), ids are fresh, terminal outputs close an attempt for good, the address book holds '
               'installed kinds only (KInv, inductive over every history); consequences proved for all feasible histories: no '
               'connection id is named by two terminal outputs, at quiescence every accepted attempt has a terminal output or '
               'was superseded by a reported connection of the same peer or belongs to the recorded finding (limit-rejected '
               'outbound connection), no peer is wedged, no panic site is reached; OpenFailure is reported exactly by the '
               'failure of the last transport of the set (with the accumulated error count) and a non-last failure is silent and '
               'keeps the attempt owed; ConnectionOpened cancels on every transport of the set, negotiates on the winner only '
               'and ends the open phase; an inbound connection cancels on all transports and leaves nothing owed; the handle '
               'gate (TransportManagerHandle::dial / dial_address) is sound and agrees with the manager on the same state, the '
               'only refusal of a queued command being the connection limit (finding class 2); plus per-handler theorems '
               '(re-dial attempted on every transport of any allowed choice, failure consumes the attempt, limit rejection '
               'clears the dial record, panics need contradictory ids or an uninstalled transport in an Opening set, which the '
               'invariant excludes; C05_uninstalled_transport_refuted shows what would happen otherwise). The same ledger is '
               "evaluated by the extracted oracle on the implementation's own traces; the model is tied to "
               'manager/{mod,peer_state,limits,handle}.rs step by step. The transport contract assumed by that invariant is '
               'PROVED for a model of TcpTransport (coq/Tcp: the Transport trait methods and poll_next over pending_dials, '
               'pending_raw_connections + cancel_futures/is_aborted, opened, pending_connections, pending_inbound_connections, '
               'pending_open, plus the futures built by dial/open: per-address attempts carrying the peer the address names, '
               'first success wins, Failed when none is left) for every history of calls and future completions: (a) '
               'ConnectionOpened/OpenFailure only for an owed open (needs an earlier open(c), at most once, never after '
               'cancel(c)) for ANY owner; (b) outbound ConnectionEstablished/DialFailure only for an owed dial/negotiate, at '
               'most once; (c) open and well-formed dial succeed, negotiate(c) succeeds exactly when ConnectionOpened c was '
               'emitted and not negotiated since; (d) every completed future of an un-cancelled call is answered by the poll '
               'that observes it: the silent branches of poll_next (two "raw connection without a cancel handle", the foreign '
               'is_aborted handle, a dial failing without a pending_dials entry) are unreachable, what is owed is backed by a '
               'pending future; (e) ids: outbound ids come from the owner, inbound ids are the next counter value; identity: an '
               'outbound ConnectionEstablished names a peer the addresses of that id name (an answer by another identity ends in '
               "a failure). (b), (d), (e) assume the owner's hygiene caller_ok (ids passed to dial/open were drawn from the "
               'shared counter and are used once), shown necessary by a witness. That model is tied to tcp/mod.rs by the TCP '
               'stream. COMPOSITION (coq/C05/TcpCompose.v, theorems C05_sys_*): the manager model and the TcpTransport model are '
               'plugged into each other — every call the manager model makes (open with the addresses of the dialled peer, dial, '
               'negotiate, cancel, accept, reject, accept_pending, reject_pending, and next_connection_id as a draw from the '
               'shared counter) is executed by the TCP model, every event a poll of the TCP model emits is handled by the '
               'manager model one after the other (its calls executed before the next event is handled; the negotiate / accept '
               "results the handlers see are the TCP model's), with TCP as the one installed transport. For EVERY history of "
               'outside inputs (user / protocol side: dial requests by peer and by address incl. through the handle, address '
               'additions, closed connections, accept futures; network / runtime: a socket arrives, an attempt of a pending '
               'future ends with an identity or fails, a deadline fires, a poll) the manager is handed an event history that '
               'satisfies the transport contract `feas` (C05_sys_feasible, C05_sys_step; proof: a coupling invariant between the '
               "manager's ledger and the ledger of the TCP contract — what the manager thinks TCP owes is what TCP's ledger "
               'says, same peer named, same counter — kept while the events of one poll are delivered one by one, using the '
               "C05_tcp contract theorems, commutation of the manager's calls with the events not delivered yet, and the shape "
               'of a poll: events about inbound sockets come last). Hence C05_sys_at_most_one_outcome, C05_sys_no_silence, '
               'C05_sys_no_wedge, C05_sys_no_stuck hold for manager + TCP together with NO assumption about the transport; what '
               'is still assumed is only the part of `feas` about the address store (choice_ok), the protocols (accept futures '
               'succeed) and that open() / dial() of a shape-checked address return Ok (true in the TCP model). The network '
               "assumption is explicit: quiescence is a statement about the TCP model's own ledger (C05_sys_quiescent), whatever "
               'the manager waits for is backed by a pending un-cancelled future of the TCP model (C05_sys_owed_is_pending), and '
               'for each such id there is an allowed network / runtime input — the deadline of the open fires, the dial attempt '
               'ends, the transport is polled — whose handling hands the manager an answer for that id (C05_sys_progress): the '
               'only liveness assumption left is that the network lets every pending future end (answer, failure or timeout) and '
               'the runtime polls the transport.',
 'level_note': 'Trusted: Coq kernel, extraction, harness + ScriptedTransport hooks. Transport contract `feas` (calls succeed, '
               'each open is answered once per transport unless cancelled on it, cancel is effective, accept futures succeed, '
               'events come from installed transports) is an assumption of the C05 ledger theorems for WebSocket; for TCP it is '
               'a theorem (see below); two of the three transports (TCP, WebSocket) are installed, QUIC is compiled out of the '
               'harness build; the address book is abstracted to the set of stored addresses (which of them '
               'AddressStore::addresses(limit) hands out is an input validated by choice_ok; scores are C10; fewer than 64 '
               'addresses per peer so that no eviction happens); the handle call and the execution of its command happen in one '
               'step (the asynchronous gap between them is not modelled: C05_handle_gate_agrees is about the same state); '
               'ChannelClogged is modelled as a possible result (clog) but never driven; `.await` on full protocol channels '
               'inside the DialFailure fan-out is not modelled. For TCP the contract is no longer an assumption, it is proved '
               'for the model coq/Tcp and tied to tcp/mod.rs by the TCP stream; still assumed there: the negotiation '
               '(connection.rs negotiate_connection) authenticates the remote and honours its dialed_peer argument (exercised '
               'with real handshakes, not modelled), timeouts fire (connection_open_timeout / the dial deadline are the model '
               'events "attempt failed" / EExpire; 3% of the TCP cases and corpus/C05/tcp_timeouts.case run with a 250 ms '
               'timeout and end one future at a time by waiting, all other cases use 60 s timeouts that never fire), tokio wakes '
               'ready futures, the OS delivers socket events, the listener does not terminate; the composition of the TCP model '
               'with the manager model is PROVED (C05_sys_*) for configurations with TCP as the only installed transport; in it '
               'the owner hygiene caller_ok of the TCP theorems is discharged (the manager draws every id it passes to open / '
               'dial from the shared counter right before the call, at most one such call per step: Mgr/Calls.v), the glue is '
               'part of the statement: all addresses of one open / dial call name the dialled peer (every stored address ends in '
               "/p2p/<peer>; C10), a dial address that passed the manager's shape check parses in TCP (valid = true), a failure "
               "event carries an address of the call (the peer is read from the TCP ledger's g_att), one poll = poll_next until "
               'Pending with the manager handling the batch in order (the granularity at which the TCP model is tied to '
               'tcp/mod.rs); for a second transport (WebSocket) the contract stays the assumption `feas`; "accept futures '
               'succeed" is still an assumption; WebSocket / quic: contract still by reading.',
 'trusted_base': ['transport contract of the feasible manager stream: open/dial/negotiate calls succeed, each is answered once '
                  'unless cancelled, the reported peer is the dialled one: for TCP proved for the model coq/Tcp (C05_tcp_* '
                  'theorems) and tied to the code by the TCP stream; what remains trusted for TCP: noise/yamux negotiation '
                  'authenticates the remote and compares it with dialed_peer, timeouts fire, tokio, the OS; accept futures '
                  'succeed (assumed)',
                  'composition manager + TCP (C05_sys_*): proved for the two MODELS; the glue between them (which calls are '
                  'forwarded, what an event looks like to the manager, the shared counter) is a definition in '
                  'coq/C05/TcpCompose.v checked by a concrete composed history (C05_sys_history), not by a separate harness '
                  'stream: each model is tied to its code separately (manager stream with scripted transports, TCP stream with '
                  'the real TcpTransport); remaining assumptions there: choice_ok (address store), accept futures succeed '
                  '(protocols alive, C07), network liveness (every pending future ends or times out, the transport is polled)',
                  'connection ids: inbound ids are drawn from the counter shared with the manager (AllocConn event / '
                  'verif_alloc_connection_id hook)',
                  'the invariant "only installed kinds are stored" (KInv) is proved for add_known_address (supported_transport '
                  'filter) and dial_address (shape + installed check); for addresses REPORTED by transports (DialFailure / '
                  'OpenFailure / ConnectionOpened / ConnectionEstablished) it rests on the harness: a scripted transport only '
                  'reports the canonical address of its own kind (a real transport reports the addresses it was handed by the '
                  'manager)',
                  'TransportManagerHandle: the ChannelClogged / TaskClosed results of try_send are not driven by the harness '
                  '(the channel never fills: every command is executed in the step that queued it)'],
 'assumptions': ['two installed transports at most (TCP, WebSocket: cargo feature websocket on, quic off in the harness build)',
                 'debug build: a reachable debug_assert!(false) shows up as a panic',
                 'fewer than MAX_ADDRESSES (64) distinct addresses per peer (no eviction from the address store; at most 40 '
                 'dial_address shapes per case)',
                 'TCP stream: loopback sockets; a completion that does not show up within 20 s is recorded as a missing answer']}
