"""Configuration of ./check for C05 (see tools/props.py)."""
ENTRY = {'coq_dir': 'C05',
 'coq_deps': ['Mgr', 'C10', 'Tcp'],
 'model_files': ['Glue'],
 'harness': 'c05',
 'cases': {'quick': 1500, 'thorough': 400000},
 'consts': [],
 'rule': 'THREE STREAMS. (1) Manager stream: adaptive seeded event histories (5-60 events quick, 10-120 thorough) against the real '
         'TransportManager with a scripted transport: dial requests by peer and by address, address additions, open/negotiate outcomes, '
         'inbound connections (ids drawn from the shared counter), accept futures, closures, limit configurations from {none,0,1,2,3}; 85% '
         'follow the transport contract and end with a settle phase (all owed answers delivered, every peer re-dialled), 15% add '
         'infeasible noise (unknown ids, failing transport calls, failing accepts). 9% of the events are dial_address calls with arbitrary '
         'multiaddress shapes from the C10 grammar (accepted shapes, missing /p2p, components after the peer id, wrong first/second '
         "component, ws/quic shapes, the node's own listen address). After every event the transport calls, protocol notifications, "
         'manager events, return code and a dump of peer states / pending / counted sets are compared with the extracted Coq model. (2) '
         'transport streams (harness/src/c05_tcp.rs; first number 9000 TCP / 9001 WebSocket / 9002 QUIC; one TCP and one WebSocket case in '
         '20 quick / 600 thorough; QUIC: the aux stream of the thorough tier, the harness built a second time with --features quic, 500 '
         'cases + corpus/C05-quic): the REAL TcpTransport / WebSocketTransport / QuicTransport (VerifTcpTransport / VerifWsTransport / '
         'VerifQuicTransport facades) is driven over loopback sockets through its Transport trait and Stream::poll_next (polled until '
         'Pending without a self-wake) with adaptive call sequences (5-40 steps quick, 8-70 thorough, max_parallel_dials from {8,1,2,3}): '
         'ids drawn from the shared counter, dial, open with 0-5 addresses, negotiate (incl. the manager pattern cancel+negotiate without '
         'a poll between), cancel before / after completion, accept / reject, inbound connections with accept_pending / reject_pending, '
         'polls; 15% of the TCP / WebSocket cases also reuse or invent ids (QUIC cases keep to owners that draw their ids, see '
         'level_note). Every address is built in the shape of the transport under test and points at a gate (a loopback TCP listener / UDP '
         'relay that connects through to one of two further real transports of the same kind, nodes A and B with different identities, '
         'holds the bytes and is released by the harness: pass or close), at a closed port, is malformed, is a well-formed address of '
         'ANOTHER transport (ws-shaped for TCP, tcp-shaped for WebSocket / QUIC), or (WebSocket) is a /wss address, and independently '
         'NAMES a peer (none, A, B, nobody): an address without /p2p is an attempt for TCP and is refused by WebSocket / QUIC; listeners '
         'that complete the handshake, stall, close at once, or answer with a different identity than the address names (on the dial path '
         'and on the open+negotiate path, also as the first of several addresses); 3% of the cases instead use a 250 ms '
         'connection_open_timeout and let a stalled dial, a stalled open and (TCP, WebSocket) the overall open deadline time out. The '
         'harness ends one attempt at a time (the completion order of the inner futures is decided by construction) and feeds that order '
         'to the model as events; the model side builds the same multiaddresses in the C10 grammar (coq/Tcp/Glue.v addr_of) and decides '
         'with expect_of of coq/Tcp/Variants.v whether the transport takes them; after every step the call result, the TransportEvents '
         'polled (kind, connection id, authenticated peer, endpoint direction), the warn/debug lines of the branches of poll_next that '
         'drop a future (log tap) and a dump of pending_dials / pending_inbound_connections / opened (opened_raw) / cancel_futures (with '
         'is_aborted) / pending_open and the lengths of the two future sets are compared with the extracted Coq model (coq/Tcp). A panic '
         'of the implementation ends the case with the panic marker as its trace. prop_ok of these streams is the transport contract '
         "judged on the implementation's own trace: open-phase events only for an owed open, outbound ConnectionEstablished (dialer "
         'endpoint) / DialFailure only for an owed negotiate, ConnectionEstablished names a peer the address of that id names, dial '
         'succeeds exactly on an address the transport parses, negotiate succeeds exactly on an opened id, no owed answer is dropped, '
         'inbound ids come from the shared counter. Non-trivial: trace >= 8 numbers; distinct (case, trace) pairs are counted.',
 'level_text': 'Proof: the dial ledger is an inductive invariant (LInv) of the manager model over every event history the transport '
               "contract allows and every limit configuration: every pending attempt is owed an answer by the transport and is its peer's "
               'dial record, ids are fresh, terminal outputs close an attempt for good; consequences proved for all feasible histories: no '
               'connection id is named by two terminal outputs, at quiescence every accepted attempt has a terminal output or was '
               'superseded by a reported connection of the same peer or belongs to the recorded finding (limit-rejected outbound '
               'connection), and no peer is wedged; plus per-handler theorems (re-dial attempted, failure consumes the attempt, limit '
               'rejection clears the dial record, panics need contradictory ids). The same ledger is evaluated by the extracted oracle on '
               "the implementation's own traces; the model is tied to manager/mod.rs step by step. The transport contract assumed by that "
               'invariant is PROVED for a model of TcpTransport (coq/Tcp: the Transport trait methods and poll_next over pending_dials, '
               'pending_raw_connections + cancel_futures/is_aborted, opened, pending_connections, pending_inbound_connections, '
               'pending_open, plus the futures built by dial/open: per-address attempts carrying the peer the address names, first success '
               'wins, Failed when none is left) for every history of calls and future completions: (a) ConnectionOpened/OpenFailure only '
               'for an owed open (needs an earlier open(c), at most once, never after cancel(c)) for ANY owner; (b) outbound '
               'ConnectionEstablished/DialFailure only for an owed dial/negotiate, at most once; (c) open and well-formed dial succeed, '
               'negotiate(c) succeeds exactly when ConnectionOpened c was emitted and not negotiated since; (d) every completed future of '
               'an un-cancelled call is answered by the poll that observes it: the silent branches of poll_next (two "raw connection '
               'without a cancel handle", the foreign is_aborted handle, a dial failing without a pending_dials entry) are unreachable, '
               'what is owed is backed by a pending future; (e) ids: outbound ids come from the owner, inbound ids are the next counter '
               'value; identity: an outbound ConnectionEstablished names a peer the addresses of that id name (an answer by another '
               "identity ends in a failure). (b), (d), (e) assume the owner's hygiene caller_ok (ids passed to dial/open were drawn from "
               'the shared counter and are used once), shown necessary by a witness. Over whole histories (Once.v, a token argument on the '
               'ghost state): an id is answered by at most one of ConnectionOpened / OpenFailure and by at most one of outbound '
               'ConnectionEstablished / DialFailure, what is still owed has not been answered, nothing is answered for an id the owner '
               'never passed in. Never silence (Settle.v, a measure argument over owed opens + owed negotiates + addresses still being '
               'tried, using the progress theorems): from every reachable state the environment has a finite schedule of attempts ending '
               'and polls after which nothing is owed, and an environment event takes an id out of the owed sets only by emitting its '
               'answer; a refused dial changes nothing and an open none of whose addresses the transport takes is answered by OpenFailure '
               'at the next poll. The SAME contract is proved for WebSocketTransport and QuicTransport (C05_tr_* / C05_ws_* / C05_quic_*): '
               'the three transports keep the same books with the same poll_next, and differ in their front end, which is modelled per '
               'transport over the multiaddress grammar of coq/C10 (Variants.v: expect_of = which addresses dial accepts and which '
               'addresses of an open become attempts: TCP multiaddr_to_socket_address, optional /p2p; WebSocket multiaddr_into_url, '
               '/ws|/wss and /p2p required; QUIC get_socket_address, /quic-v1 and /p2p required; QUIC has no overall open deadline); every '
               'history of a transport is a history of the bookkeeping model (refinement C05_tr_refines_model), so (a)-(e), the progress '
               'theorems and the at-most-once theorems hold per transport; in addition: dial returns Ok exactly on an address the '
               'transport parses, open never fails, every address TransportManager can hand over (the shapes dial_address lets through, '
               'coq/Mgr/DialShape.v; the `supported` addresses of the store, routed by `route`) is accepted by the transport it is routed '
               'to and the expected peer is the dialled one, WebSocket and QUIC report an outbound connection only for a peer an address '
               'names literally. The model is tied to tcp/mod.rs, websocket/mod.rs and quic/mod.rs by the transport streams.',
 'level_note': 'Trusted: Coq kernel, extraction, harness + ScriptedTransport hook. Transport contract `feas` (calls succeed, each is '
               'answered once unless cancelled, cancel is effective, the reported peer is the dialled one): no longer an assumption for '
               'TCP, WebSocket and QUIC: it is proved for the model coq/Tcp (+ the per-transport front ends of Variants.v) and tied to '
               'tcp/mod.rs, websocket/mod.rs (quick + thorough tier) and quic/mod.rs (thorough tier only: aux stream, harness built with '
               '--features quic) by the transport streams; still assumed there: the negotiation (connection.rs negotiate_connection) '
               'authenticates the remote and honours its dialed_peer argument (exercised with real handshakes, not modelled), timeouts '
               'fire (connection_open_timeout / the dial deadline are the model events "attempt failed" / EExpire; 3% of the '
               'transport-stream cases and the stored timeout cases, e.g. corpus/C05/tcp_timeouts.case run with a 250 ms timeout and end '
               'one future at a time by waiting, all other cases use 60 s timeouts that never fire), tokio wakes ready futures, the OS '
               'delivers socket events, the listener does not terminate; the composition of the TCP model with the manager model '
               '(caller_ok is what the manager does: ids come from next_connection_id, li_fresh) is stated, not proved; "accept futures '
               'succeed" is still an assumption; QUIC: the code tells a dialed from an accepted connection by its pending_dials entry (TCP '
               "/ WebSocket carry the endpoint inside the negotiated connection); the model's endpoint direction is TCP's, the two "
               'coincide for an owner that draws its ids (invariant c_conn_dial), so the QUIC stream keeps to such owners and the dump '
               "maps QUIC's pending_dials to the model's plus the ids of pending negotiate futures; QUIC has no log line for a failed "
               'inbound handshake (that mark is not compared for QUIC); which of the addresses of an open are in flight at a time '
               '(max_parallel_dials / buffer_unordered; QUIC: all) is not modelled: the model lets the environment answer any attempt that '
               'is left, a superset; /wss: the TLS layer is environment (exercised against a plain listener: the attempt fails; F-C05g); '
               'the transports are modelled one at a time (the multi-transport Opening of the manager is the other model); the address '
               "book is abstracted to 'has an address' (scores are C10); `.await` on full protocol channels inside the DialFailure fan-out "
               'is not modelled.',
 'trusted_base': ['transport contract of the feasible manager stream: open/dial/negotiate calls succeed, each is answered once unless '
                  'cancelled, the reported peer is the dialled one: for TCP, WebSocket and QUIC proved for the model coq/Tcp (C05_tcp_* / '
                  'C05_tr_* / C05_ws_* / C05_quic_* theorems) and tied to the code by the transport streams (QUIC: thorough tier only); '
                  'what remains trusted: noise/yamux negotiation authenticates the remote and compares it with dialed_peer, timeouts fire, '
                  'tokio, the OS; accept futures succeed (assumed)',
                  'owner hygiene caller_ok of the TCP theorems (ids passed to dial/open were drawn from the shared counter, each used '
                  'once) is what TransportManager does (next_connection_id; li_fresh in LInv); the composition of the two models is not '
                  'proved',
                  'connection ids: inbound ids are drawn from the counter shared with the manager (AllocConn event / '
                  'verif_alloc_connection_id hook)',
                  'multiaddress grammar and socket-address parsers of coq/C10/Model.v (tied to common/listener.rs and quic/listener.rs by '
                  'the C10 stream); ws_url of coq/Tcp/Variants.v is a transcription of WebSocketTransport::multiaddr_into_url, tied by the '
                  'WebSocket stream (dial results and attempt tables for every address shape the harness builds: own shape with and '
                  'without /p2p, /wss, foreign, malformed)'],
 'assumptions': ['manager stream: single installed transport (default cargo features of the harness build)',
                 'debug build: a reachable debug_assert!(false) shows up as a panic',
                 'transport streams: loopback sockets / UDP relay; a completion that does not show up within 20 s is recorded as a missing '
                 'answer',
                 'QUIC stream: only in the thorough tier (second harness build with --features quic); a failing QUIC attempt ends by its '
                 'idle timeout, so failing answers are generated only in the short-timeout cases'],
 'aux_stream': {'tiers': ['thorough'],
                'features': 'quic',
                'target_dir': 'target-quic',
                'args': '--only-transport 9002',
                'cases': {'thorough': 500},
                'corpus': 'corpus/C05-quic'}}
