"""Configuration of ./check for C05 (see tools/props.py)."""
ENTRY = {'coq_dir': 'C05',
 'coq_deps': ['Mgr', 'C10', 'Tcp'],
 'model_files': ['Glue'],
 'harness': 'c05',
 'cases': {'quick': 1500, 'thorough': 400000},
 'consts': [],
 'rule': 'TWO STREAMS. (1) Manager stream: adaptive seeded event histories (5-60 events quick, 10-120 thorough) against the real '
         'TransportManager with a scripted transport: dial requests by peer and by address, address additions, open/negotiate outcomes, '
         'inbound connections (ids drawn from the shared counter), accept futures, closures, limit configurations from {none,0,1,2,3}; 85% '
         'follow the transport contract and end with a settle phase (all owed answers delivered, every peer re-dialled), 15% add '
         'infeasible noise (unknown ids, failing transport calls, failing accepts). 9% of the events are dial_address calls with arbitrary '
         'multiaddress shapes from the C10 grammar (accepted shapes, missing /p2p, components after the peer id, wrong first/second '
         "component, ws/quic shapes, the node's own listen address). After every event the transport calls, protocol notifications, "
         'manager events, return code and a dump of peer states / pending / counted sets are compared with the extracted Coq model. (2) '
         'TCP transport stream (one case in 10 quick / 400 thorough, first number 9000; harness/src/c05_tcp.rs): the REAL TcpTransport '
         '(VerifTcpTransport facade) is driven over loopback sockets through its Transport trait and Stream::poll_next with adaptive call '
         'sequences (5-40 steps quick, 8-70 thorough, max_parallel_dials from {8,1,2,3}): ids drawn from the shared counter, dial, open '
         'with 0-5 addresses, negotiate (incl. the manager pattern cancel+negotiate without a poll between), cancel before / after '
         'completion, accept / reject, inbound sockets with accept_pending / reject_pending, polls; 15% of the cases also reuse or invent '
         'ids. Every address points at a gate (a loopback listener that connects through to one of two further real TcpTransport nodes A, '
         'B with different identities, holds the bytes and is released by the harness: pass or close), at a closed port, or is malformed, '
         'and independently NAMES a peer (none, A, B, nobody): listeners that complete the noise/yamux handshake, stall, close at once, or '
         'answer with a different identity than the address names (on the dial path and on the open+negotiate path, also as the first of '
         'several addresses); 3% of the cases instead use a 250 ms connection_open_timeout and let a stalled dial, a stalled open and the '
         'overall open deadline time out. The harness ends one attempt at a time (the completion order of the inner futures is decided by '
         'construction) and feeds that order to the model as events; after every step the call result, the TransportEvents polled (kind, '
         'connection id, authenticated peer), the warn/debug lines of the branches of poll_next that drop a future (log tap) and a dump of '
         'pending_dials / pending_inbound_connections / opened / cancel_futures (with is_aborted) / pending_open and the lengths of the '
         'two future sets are compared with the extracted Coq model (coq/Tcp). prop_ok of this stream is the transport contract judged on '
         "the implementation's own trace: open-phase events only for an owed open, outbound ConnectionEstablished / DialFailure only for "
         'an owed negotiate, ConnectionEstablished names a peer the address of that id names, negotiate succeeds exactly on an opened id, '
         'no owed answer is dropped, inbound ids come from the shared counter. Non-trivial: trace >= 8 numbers; distinct (case, trace) '
         'pairs are counted.',
 'level_text': 'Proof: the dial ledger is an inductive invariant (LInv) of the manager model over every event history the transport '
               "contract allows and every limit configuration: every pending attempt is owed an answer by the transport and is its peer's "
               'dial record, ids are fresh, terminal outputs close an attempt for good; consequences proved for all feasible histories: no '
               'connection id is named by two terminal outputs, at quiescence every accepted attempt has a terminal output or was '
               'superseded by a reported connection of the same peer or belongs to the recorded finding (limit-rejected outbound '
               'connection), and no peer is wedged; plus per-handler theorems (re-dial attempted, failure consumes the attempt, limit '
               'rejection clears the dial record, panics need contradictory ids). The same ledger is evaluated by the extracted oracle on '
               "the implementation's own traces; the model is tied to manager/mod.rs step by step. The transport contract assumed by that "
               'invariant is PROVED for a model of TcpTransport (coq/Tcp: the Transport trait methods and poll_next over pending_dials, '
               'pending_raw_connections + cancel_futures/is_aborted, opened, pending_connections, pending_inbound_connections, '
               'pending_open, plus the futures built by dial/open: per-address attempts carrying the peer the address names, first success '
               'wins, Failed when none is left) for every history of calls and future completions: (a) ConnectionOpened/OpenFailure only '
               'for an owed open (needs an earlier open(c), at most once, never after cancel(c)) for ANY owner; (b) outbound '
               'ConnectionEstablished/DialFailure only for an owed dial/negotiate, at most once; (c) open and well-formed dial succeed, '
               'negotiate(c) succeeds exactly when ConnectionOpened c was emitted and not negotiated since; (d) every completed future of '
               'an un-cancelled call is answered by the poll that observes it: the silent branches of poll_next (two "raw connection '
               'without a cancel handle", the foreign is_aborted handle, a dial failing without a pending_dials entry) are unreachable, '
               'what is owed is backed by a pending future; (e) ids: outbound ids come from the owner, inbound ids are the next counter '
               'value; identity: an outbound ConnectionEstablished names a peer the addresses of that id name (an answer by another '
               "identity ends in a failure). (b), (d), (e) assume the owner's hygiene caller_ok (ids passed to dial/open were drawn from "
               'the shared counter and are used once), shown necessary by a witness. That model is tied to tcp/mod.rs by the TCP stream.',
 'level_note': 'Trusted: Coq kernel, extraction, harness + ScriptedTransport hook. Transport contract `feas` (calls succeed, each is '
               'answered once unless cancelled, cancel is effective, the reported peer is the dialled one): no longer an assumption for '
               'TCP, it is proved for the model coq/Tcp and tied to tcp/mod.rs by the TCP stream; still assumed there: the negotiation '
               '(connection.rs negotiate_connection) authenticates the remote and honours its dialed_peer argument (exercised with real '
               'handshakes, not modelled), timeouts fire (connection_open_timeout / the dial deadline are the model events "attempt '
               'failed" / EExpire; 3% of the TCP cases and corpus/C05/tcp_timeouts.case run with a 250 ms timeout and end one future at a '
               'time by waiting, all other cases use 60 s timeouts that never fire), tokio wakes ready futures, the OS delivers socket '
               'events, the listener does not terminate; the composition of the TCP model with the manager model (caller_ok is what the '
               'manager does: ids come from next_connection_id, li_fresh) is stated, not proved; "accept futures succeed" is still an '
               "assumption; websocket / quic: contract still by reading; one transport (TCP) only; the address book is abstracted to 'has "
               "an address' (scores are C10); `.await` on full protocol channels inside the DialFailure fan-out is not modelled.",
 'trusted_base': ['transport contract of the feasible manager stream: open/dial/negotiate calls succeed, each is answered once unless '
                  'cancelled, the reported peer is the dialled one: for TCP proved for the model coq/Tcp (C05_tcp_* theorems) and tied to '
                  'the code by the TCP stream; what remains trusted for TCP: noise/yamux negotiation authenticates the remote and compares '
                  'it with dialed_peer, timeouts fire, tokio, the OS; accept futures succeed (assumed)',
                  'owner hygiene caller_ok of the TCP theorems (ids passed to dial/open were drawn from the shared counter, each used '
                  'once) is what TransportManager does (next_connection_id; li_fresh in LInv); the composition of the two models is not '
                  'proved',
                  'connection ids: inbound ids are drawn from the counter shared with the manager (AllocConn event / '
                  'verif_alloc_connection_id hook)'],
 'assumptions': ['single installed transport (default cargo features of the harness build)',
                 'debug build: a reachable debug_assert!(false) shows up as a panic',
                 'TCP stream: loopback sockets; a completion that does not show up within 20 s is recorded as a missing answer']}
