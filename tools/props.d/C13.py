"""C13 entry for tools/props.py (PROPS["C13"] = ENTRY)."""

ENTRY = {'coq_dir': 'C13',
 'harness': 'c13',
 'cases': {'quick': 3000, 'thorough': 40000},
 'consts': ['REQUEST_TIMEOUT_SECS'],
 'nontrivial_min_trace': 40,
 'rule': 'seeded random histories (3-50 stimuli quick, 5-120 thorough) over <=4 peers; 45% dialogue-shaped (the generator tracks a rough '
         'estimate of connections, open commands, carriers and waiting inbound requests so that most stimuli hit), the rest in four random '
         'styles. Stimuli: send_request / send_request_with_fallback with Dial/Reject (also to the local peer id and after the manager was '
         'dropped), bursts of try_send_request against a command channel of capacity 1-3, cancel_request, send_response / '
         'send_response_with_feedback / reject_request, ConnectionEstablished (also with a dead command channel, or one with room for only '
         'k substream-open commands so that open_substream succeeds for the first k requests queued behind the dial and fails for the '
         'others), ConnectionClosed, DialFailure, SubstreamOpened (negotiated with the main or a fallback name) / SubstreamOpenFailure in '
         'any order, carriers that block, accept or fail writes, remote responses / EOF / reset / oversize frames, clock advances across '
         'the request timeout, a response (or a cancel) and the timeout made ready at the same instant (the order the implementation chose '
         'is observed and handed to the model), inbound substreams with and without a bound (several request frames on one substream, '
         'several peers), payload lengths {0,1,2,7,max-1,max,max+1}. Every case is run on three fresh protocol objects: (A) the REAL '
         'RequestResponseProtocol::run future polled by hand on a paused clock - its events are the ones printed and judged; (B) the '
         'cfg-gated single-step copy of the loop, which supplies the sorted private bookkeeping after every stimulus '
         '(peers/active/active_inbound, pending_dials, pending_outbound, cancel handles, the three future counts); (C) the real run with '
         'an event channel of capacity 1, the loop parking inside handlers until the user drains; any difference between A and B or C is '
         'marked in the trace. User-visible events, OpenSubstream commands, frames that reached the remote end and the dumps are compared '
         'with the extracted Coq model after every stimulus; non-trivial = trace of >= 40 numbers; distinct = distinct (case, trace) pairs',
 'trusted_base': ['the real event loop run() is driven directly (hand-polled future); the cfg-gated single-step copy VerifProtocol::step '
                  'is used only for the bookkeeping dumps and is compared with the real loop on every stimulus',
                  'environment of the model = the scripted harness: transport events arrive only through TransportService, the remote side '
                  'answers a request only after the whole request frame arrived, TransportManagerHandle::dial succeeds exactly for peers '
                  'with a known address while the manager lives (the manager itself is not run; its dial bookkeeping is C05/C06; '
                  'ImmediateDialError::AlreadyConnected / ChannelClogged of the manager are not reachable in this harness), scripted '
                  'connections read their command channel after the loop has come to rest',
                  'tokio paused clock drives request timeouts; clock advances are chosen so that no deadline is hit exactly; when a '
                  "response and a timeout are ready at once tokio's unbiased select! decides - the harness observes the outcome and reruns "
                  'the twin objects until they made the same choice',
                  "in-memory carrier under the crate's Substream type (Substream::verif_new); framing itself is C04's subject"],
 'level_text': 'Proof: for every sequence of stimuli (user commands, transport-service events in any order, carrier events of the remote '
               'side, clock advances) the model of the event loop emits at most one terminal event per request id (C13_at_most_one). '
               'Exactly one: C13_exactly_one_contract states the premise as a transport contract - a ghost ledger computed from the '
               'stimuli and from the calls the protocol makes (dial accepted, open_substream accepted, carrier handed to a request future) '
               "records what the environment still owes (an answer to every dial, an answer to every open or the peer's ConnectionClosed, "
               'for every carrier a terminal event of its request or the passing of the request timeout); once that is discharged every '
               'accepted send_request has exactly one terminal event unless the user asked to cancel it (C13_exactly_one and '
               'C13_exactly_one_settled give the same with premises on the final state; ledger invariants: an unanswered id waits in '
               'pending_dials or is in peers[..].active, an active id has a pending_outbound entry or an in-flight future, and every such '
               'entry is covered by the ghost ledger). Matching payload: a ResponseReceived(rid, bytes) is caused only by the remote side '
               "answering exactly those bytes on a carrier that on_outbound_substream had handed to rid's future, carriers and request ids "
               'are paired one-to-one (C13_payload), and the request frame that reached the remote end of that carrier is the request '
               'given to send_request for rid or its fallback variant (C13_request_wire). A RequestReceived is caused only by a request '
               'frame on an inbound carrier, carries its bytes, and no carrier yields two (C13_responder_once); the inbound bound is an '
               'invariant for every interleaving of peers (C13_inbound_bound); send_response_with_feedback reports () only in a step in '
               'which a response frame went out (C13_feedback); a bounded event channel with a parking producer loses, duplicates and '
               'reorders nothing (C13_channel_nothing_lost); a dial refused at once yields its single RequestFailed and queues nothing '
               '(C13_dial_refused_one_failure). The model is tied to mod.rs/handle.rs by a per-stimulus differential run of the real run() '
               "loop with full bookkeeping dumps; the oracle prop_ok re-judges the clauses of the property text on the implementation's "
               'traces.',
 'level_note': 'The unrepaired code violated the property (F-C13a: a second request to a peer that is still being dialed overwrote '
               'pending_dials[peer]; the first request never got an outcome; C13_unrepaired_refuted) - repaired by a fix: commit, witness '
               'kept in corpus/C13. Modelled since round 3: fallback protocol names, bursts against a bounded command channel (ids burned '
               'by ChannelClogged), a bounded event channel (third run with capacity 1), dial() refused with TriedToDialSelf / TaskClosed '
               '/ NoAddressAvailable, a response racing with the timeout or with a cancel, send_response after the peer disconnected. Not '
               'modelled: partial frames (C04), dropping the RequestResponseHandle (the loop exits; nobody is left to observe), a DialPeer '
               'command silently refused by the manager later on (F-C05c: then a dial stays owed forever and the contract premise never '
               'holds). Timeouts are events that fire when the clock passes their deadline; the request timeout must be positive for '
               'C13_exactly_one_contract (it is 5 s in the source).',
 'assumptions': ['request ids come from the shared allocator (send_request/try_send_request), never chosen by the user',
                 'C13_exactly_one_contract: the environment discharges what it owes - every accepted dial is answered by '
                 'ConnectionEstablished or DialFailure, every accepted open_substream by SubstreamOpened, SubstreamOpenFailure or the '
                 "peer's ConnectionClosed, and every carrier handed to a request future sees a terminal event of its request or the "
                 'request timeout (> 0) passes',
                 'HashMap/FuturesUnordered iteration order is not observable (events of one step and dumps are sorted); the order in which '
                 "tokio's select! looks at two simultaneously ready branches is an input of the model"]}
