"""C13 entry for tools/props.py (PROPS["C13"] = ENTRY)."""

ENTRY = {'coq_dir': 'C13',
 'harness': 'c13',
 'cases': {'quick': 3000, 'thorough': 40000},
 'consts': ['REQUEST_TIMEOUT_SECS'],
 'nontrivial_min_trace': 40,
 'rule': 'seeded random histories (3-50 stimuli quick, 5-120 thorough) over <=4 peers; 45% dialogue-shaped (the generator tracks a rough '
         'estimate of connections, open commands, carriers and waiting inbound requests so that most stimuli hit), the rest in four random '
         'styles (outbound-, dial-, inbound-heavy, uniform): send_request with Dial/Reject, cancel_request, '
         'send_response/send_response_with_feedback/reject_request, ConnectionEstablished (also with a dead command '
         'channel, or one with room for only k substream-open commands so that open_substream succeeds for the first k requests queued '
         'behind the dial and fails for the others)/ConnectionClosed/DialFailure/SubstreamOpened/SubstreamOpenFailure in any order, carriers that block, accept or fail '
         'writes, remote responses/EOF/reset, clock advances across the request timeout, inbound substreams with and without a bound (also '
         'several request frames on one inbound substream), payload lengths {0,1,2,7,max-1,max,max+1}; the real RequestResponseProtocol '
         'over a real TransportService is single-stepped until idle after every stimulus, and the user-visible events, the frames that '
         'reached the remote end and the sorted private bookkeeping (peers/active/active_inbound, pending_dials, pending_outbound, cancel '
         'handles, the three future counts) are compared with the extracted Coq model after every stimulus; non-trivial = trace of >= 40 '
         'numbers; distinct = distinct (case, trace) pairs',
 'trusted_base': ['the single-step shim VerifProtocol::step is a cfg-gated COPY of the select! of RequestResponseProtocol::run (same arms, '
                  'same biased order, plus an idle arm); a change to the arms of run itself is not seen by the harness, changes to every '
                  'handler are',
                  'environment of the model = the scripted harness: transport events arrive only through TransportService, the remote side '
                  'answers a request only after the whole request frame arrived, TransportManagerHandle::dial succeeds exactly for peers '
                  'with a known address (the manager itself is not run; its dial bookkeeping is C05/C06)',
                  'tokio paused clock drives request timeouts; clock advances are chosen so that no deadline is hit exactly',
                  "in-memory carrier under the crate's Substream type (Substream::verif_new); framing itself is C04's subject"],
 'level_text': 'Proof: for every sequence of stimuli (user commands, transport-service events in any order, carrier events of the remote '
               'side, clock advances) the model of the event loop emits at most one terminal event per request id (C13_at_most_one); once '
               'no dial, no substream opening and no request future is outstanding every request id handed out has exactly one terminal '
               'event unless the user asked to cancel it (C13_exactly_one; ledger invariant: an unanswered id waits in pending_dials or is '
               'in peers[..].active, and an active id has a pending_outbound entry or an in-flight future); a ResponseReceived(rid, bytes) '
               'is caused only by the remote side answering exactly those bytes on a carrier that on_outbound_substream had handed to '
               "rid's future, carriers and request ids are paired one-to-one (C13_payload: no cross-talk between concurrent requests); a "
               'RequestReceived is caused only by a request frame on an inbound carrier, carries its bytes, and no carrier yields two '
               '(C13_responder_once); the inbound bound is an invariant (C13_inbound_bound). The model is tied to mod.rs/handle.rs by a '
               'per-stimulus differential run of the real protocol object with full bookkeeping dumps; the oracle prop_ok re-judges all '
               "clauses on the implementation's traces.",
 'level_note': 'The unrepaired code violated the property (F-C13a: a second request to a peer that is still being dialed overwrote '
               'pending_dials[peer]; the first request never got an outcome; C13_unrepaired_refuted) - repaired by a fix: commit, witness '
               'kept in corpus/C13. Not modelled: fallback protocol names (would need a hook parameter), a full event/command channel '
               'parking the loop (.await inside handlers), partial frames (C04), a DialPeer command silently refused by the manager '
               '(F-C05c: then a dial stays outstanding forever and the quiescence premise never holds). Not theorems (modelled, diffed and '
               'oracle-checked only): the frame written on the carrier bound to rid is byte-identical to the request given to '
               'send_request; the feedback of send_response_with_feedback is () only when the response frame went out.',
 'assumptions': ['request ids come from the shared allocator (send_request/try_send_request), never chosen by the user',
                 'quiescence (no pending dial, no substream being opened, no request future in flight) is a premise of exactly-one: every '
                 'dial is eventually answered by ConnectionEstablished or DialFailure, every open_substream by SubstreamOpened or '
                 'SubstreamOpenFailure, every future ends (response, EOF, timeout)',
                 'HashMap/FuturesUnordered iteration order is not observable (events of one step and dumps are sorted)']}
