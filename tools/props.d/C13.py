"""C13 entry for tools/props.py (PROPS["C13"] = ENTRY)."""

ENTRY = {'coq_dir': 'C13',
 'harness': 'c13',
 'cases': {'quick': 20000, 'thorough': 120000},
 'consts': ['REQUEST_TIMEOUT_SECS', 'DEFAULT_CHANNEL_SIZE', 'C13_SELECT_ARMS', 'C13_ERROR_VARIANTS'],
 'nontrivial_min_trace': 40,
 'rule': 'seeded random histories (3-50 stimuli quick, 5-120 thorough) over <=4 peers; 45% dialogue-shaped (the generator tracks a rough estimate of '
         'connections, open commands, carriers and waiting inbound requests so that most stimuli hit), the rest in five random styles (one with a '
         'transport manager whose belief about the peers changes all the time). Stimuli: try_send_request / try_send_request_with_fallback and the '
         'async send_request / send_request_with_fallback with Dial/Reject (also to the local peer id), bursts of try_send_request against a command '
         'channel of capacity 1-3 optionally followed by an async send_request that has to wait (and either gets through or is dropped while '
         'waiting), cancel_request, send_response / send_response_with_feedback / reject_request (for a pending request or for an arbitrary request '
         'id), the environment of dial(): the manager is made to believe the peer unknown / disconnected with an address / connected / dialing / '
         'disconnected with an empty address store / disconnected with a dial record / opening (usually the truth after ConnectionEstablished and '
         'ConnectionClosed, often lagging behind or running ahead), its command channel is filled up or closed - so that dial() returns Ok (with and '
         'without a DialPeer command), TriedToDialSelf, AlreadyConnected, NoAddressAvailable, TaskClosed and ChannelClogged; ConnectionEstablished '
         '(also with a dead command channel, or one with room for only k substream-open commands), ConnectionClosed, DialFailure, SubstreamOpened '
         '(main or fallback name) / SubstreamOpenFailure (three error kinds) in any order, carriers that block, accept or fail writes, remote '
         'responses / EOF / reset / oversize frames, clock advances across the request timeout, a response (or a cancel) and the timeout made ready '
         'at the same instant, inbound substreams with and without a bound, payload lengths {0,1,2,7,200,max-1,max,max+1} with max in '
         '{16,300,1024,70000,2^20}, the user dropping the handle / the service channel closing (the loop ends). 80% of the histories end with the '
         'environment discharging what it owes (DialFailure for every accepted unanswered dial, then either ConnectionClosed for every connection or '
         'SubstreamOpenFailure for every unanswered open with the connections staying, then 2*timeout+1 ms pass), which makes the exactly-one clause '
         'decidable for every request of the history. Every case is run on two fresh protocol objects, both as the REAL RequestResponseProtocol::run '
         'future polled by hand on a paused clock: (A) default channel sizes - its events and the bookkeeping the loop itself publishes each time it '
         'comes back to its select! (peers/active/active_inbound, pending_dials, pending_outbound, cancel handles, the three future counts) are '
         'printed; (C) event channel of capacity 1, the loop parking inside handlers until the user drains - any difference to A is marked in the '
         'trace. User-visible events, dial() calls with their results, OpenSubstream commands, frames that reached the remote end and the '
         'bookkeeping are compared with the extracted Coq model after every stimulus; non-trivial = trace of >= 40 numbers; distinct = distinct '
         '(case, trace) pairs',
 'trusted_base': ['the real event loop run() is driven directly (hand-polled future, noop waker, paused tokio clock); the bookkeeping is read '
                  'through a cfg(verif) probe at the top of the loop (thread-local copy of the private maps); no copy of the loop is involved any '
                  'more',
                  'environment of the model = the scripted harness: transport events arrive only through the real TransportService, which is '
                  'attached to the handle of a real TransportManager that is never run - the harness overwrites its peer table and fills/closes its '
                  'command channel, so dial() is the real TransportManagerHandle::dial on a scripted state (its result is logged by a cfg(verif) '
                  'probe in TransportService::dial and compared with the model; ImmediateDialError::PeerIdMissing cannot come out of dial(peer) and '
                  'is covered by the theorems only); the remote side answers a request only after the whole request frame arrived; scripted '
                  'connections read their command channel after the loop has come to rest; connection handles stay Active (the keep-alive downgrade '
                  "path of open_substream is C08's subject)",
                  'tokio paused clock drives request timeouts; clock advances are chosen so that no deadline is hit exactly; when a response and a '
                  "timeout are ready at once tokio's unbiased select! decides - the harness observes the outcome and reruns the twin object until it "
                  'made the same choice',
                  "in-memory carrier under the crate's Substream type (Substream::verif_new); framing itself is C04's subject"],
 'level_text': 'Proof: for every sequence of stimuli (user commands, transport-service events in any order, every result of dial(), carrier events '
               'of the remote side, clock advances) the model of the event loop emits at most one terminal event per request id (C13_at_most_one). '
               'Exactly one, without a premise on the final state: after ANY history, once the environment has discharged what it owes by its own '
               'books (DialFailure for every dial it accepted and did not answer, ConnectionClosed for every connection, more than the timeout '
               'passes) every accepted send_request has exactly one terminal event unless the user asked to cancel it (C13_exactly_one_flushed; '
               'C13_flush_discharges, C13_opens_on_connections). The same with the premise as a transport contract - a ghost ledger computed from '
               'the stimuli and the calls the protocol makes (dial accepted, open_substream accepted, carrier handed to a request future) records '
               'what the environment still owes (C13_exactly_one_contract), or with premises on the final state (C13_exactly_one, '
               'C13_exactly_one_settled). The result of dial() is a choice of the environment: whatever it is, a Dial request to a peer the protocol '
               'does not know is EITHER parked behind an accepted dial OR failed at once with RequestFailed(DialFailed(Some(that error))) and parked '
               'nowhere (C13_send_dial_step, C13_dial_refused_one_failure for every code that is not Ok; C13_dial_res_cases: the order of the checks '
               'of TransportManagerHandle::dial). Matching payload: a ResponseReceived(rid, bytes) is caused only by the remote side answering '
               "exactly those bytes on a carrier that on_outbound_substream had handed to rid's future, carriers and request ids are paired "
               'one-to-one (C13_payload), and the request frame that reached the remote end of that carrier is the request given to send_request for '
               'rid or its fallback variant (C13_request_wire). A RequestReceived is caused only by a request frame on an inbound carrier, carries '
               'its bytes, and no carrier yields two (C13_responder_once); the inbound bound is an invariant for every interleaving of peers '
               '(C13_inbound_bound); send_response_with_feedback reports () only in a step in which a response frame went out (C13_feedback); a '
               'bounded event channel with a parking producer loses, duplicates and reorders nothing (C13_channel_nothing_lost). The model is tied '
               'to mod.rs/handle.rs by a per-stimulus differential run of the real run() future with full bookkeeping dumps; the oracle prop_ok '
               "re-judges the clauses of the property text on the implementation's traces: at most one, exactly one once the protocol's books are "
               "empty AND once the environment's ledger (recomputed from the observed dial results, OpenSubstream commands and carrier hand-overs - "
               'the executable face of C13_exactly_one_contract) is discharged, a refused dial fails its request in the same step with that very '
               'error, every frame on the wire is the right request variant / the response the user supplied, responses byte-identical, one '
               'RequestReceived per inbound substream, the inbound bound, nothing after the loop has ended.',
 'level_note': 'The unrepaired code violated the property (F-C13a: a second request to a peer that is still being dialed overwrote '
               'pending_dials[peer]; the first request never got an outcome; C13_unrepaired_refuted) - repaired by a fix: commit, witness kept in '
               'corpus/C13. Modelled since round 4: every result of dial() as an environment choice (the manager lagging behind ConnectionClosed, a '
               'peer that on_connection_established did not register because no substream could be opened, a dial already in progress, clogged / '
               'closed command channel), failure codes naming the ImmediateDialError variant, three kinds of SubstreamOpenFailure errors, async '
               'send_request (waiting, dropped while waiting), responses for arbitrary request ids, the loop ending (handle dropped, service channel '
               'closed), payloads up to 1 MiB. Not modelled: partial frames (C04), what the remote side sees when the loop ends (carriers are '
               'dropped), a DialPeer command silently refused by the manager later on (F-C05c: then a dial stays owed forever and the contract '
               'premise never holds), the keep-alive downgrade of connection handles (C08). Neither the user stalling on a RequestReceived nor a '
               'remote that opens a substream and never sends its request has a timeout in the code: the slot stays occupied (the bound is '
               'respected; the model does the same). Timeouts are events that fire when the clock passes their deadline; the request timeout must be '
               'positive for the exactly-one theorems (it is 5 s in the source).',
 'assumptions': ['request ids come from the shared allocator (send_request/try_send_request), never chosen by the user',
                 'C13_exactly_one_flushed / C13_exactly_one_contract: the environment discharges what it owes - every accepted dial is answered by '
                 "ConnectionEstablished or DialFailure, every accepted open_substream by SubstreamOpened, SubstreamOpenFailure or the peer's "
                 'ConnectionClosed, and every carrier handed to a request future sees a terminal event of its request or the request timeout (> 0) '
                 'passes',
                 "HashMap/FuturesUnordered iteration order is not observable (events of one step and dumps are sorted); the order in which tokio's "
                 'select! looks at two simultaneously ready branches is an input of the model']}
