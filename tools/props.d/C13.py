"""C13 entry for tools/props.py (PROPS["C13"] = ENTRY)."""

ENTRY = {'coq_dir': 'C13',
 'harness': 'c13',
 'cases': {'quick': 20000, 'thorough': 120000},
 'consts': ['REQUEST_TIMEOUT_SECS', 'DEFAULT_CHANNEL_SIZE', 'C13_SELECT_ARMS', 'C13_ERROR_VARIANTS'],
 'nontrivial_min_trace': 40,
 'rule': 'seeded random cases of four kinds. (1) 80%: single-node histories (3-50 stimuli quick, 5-120 thorough) over <=4 peers; 38% dialogue-shaped '
         '(the generator tracks a rough estimate of connections, open commands, carriers and waiting inbound requests so that most stimuli hit), the '
         'rest in five random styles (one with a transport manager whose belief about the peers changes all the time). Stimuli: try_send_request / '
         'try_send_request_with_fallback and the async send_request / send_request_with_fallback with Dial/Reject (also to the local peer id), '
         'bursts of try_send_request against a command channel of capacity 1-3 optionally followed by an async send_request that has to wait (and '
         'either gets through or is dropped while waiting), cancel_request, send_response / send_response_with_feedback / reject_request (for a '
         'pending request or for an arbitrary request id), the environment of dial(): the manager is made to believe the peer unknown / disconnected '
         'with an address / connected / dialing / disconnected with an empty address store / disconnected with a dial record / opening (usually the '
         'truth after ConnectionEstablished and ConnectionClosed, often lagging behind or running ahead), its command channel is filled up or closed '
         '- so that dial() returns Ok (with and without a DialPeer command), TriedToDialSelf, AlreadyConnected, NoAddressAvailable, TaskClosed and '
         'ChannelClogged; ConnectionEstablished (also with a dead command channel, or one with room for only k substream-open commands), '
         'ConnectionClosed, DialFailure, SubstreamOpened (main or fallback name) / SubstreamOpenFailure (15 error kinds: every SubstreamError '
         'variant, the four i/o-NotConnected shapes that RejectReason::from singles out, the multistream-select failure, near misses with another '
         'i/o kind) in any order, carriers that block, accept or fail writes, remote responses / EOF / reset / oversize frames, clock advances '
         'across the request timeout, a response (or a cancel) and the timeout made ready at the same instant, inbound substreams with and without a '
         'bound, payload lengths {0,1,2,7,200,max-1,max,max+1} with max in {16,300,1024,70000,2^20}, the user dropping the handle / the service '
         'channel closing (the loop ends). 80% of the histories end with the environment discharging what it owes (DialFailure for every accepted '
         'unanswered dial, then either ConnectionClosed for every connection or SubstreamOpenFailure for every unanswered open with the connections '
         'staying, then 2*timeout+1 ms pass), which makes the exactly-one clause decidable for every request of the history. Every case is run on '
         'two fresh protocol objects, both as the REAL RequestResponseProtocol::run future polled by hand on a paused clock: (A) default channel '
         'sizes - its events and the bookkeeping the loop itself publishes each time it comes back to its select! (peers/active/active_inbound, '
         'pending_dials, pending_outbound, cancel handles, the three future counts) are printed; (C) event channel of capacity 1, the loop parking '
         'inside handlers until the user drains - any difference to A is marked in the trace. User-visible events, dial() calls with their results, '
         'OpenSubstream commands, frames that reached the remote end and the bookkeeping are compared with the extracted Coq model after every '
         "stimulus; non-trivial = trace of >= 40 numbers; distinct = distinct (case, trace) pairs; the header's flags field also chooses the "
         'configured timeout (ConfigBuilder default / with_timeout(5 s) / 1001 ms / 7777 ms), the start value of the shared id allocator (0, '
         'usize::MAX-2, usize::MAX-17, usize::MAX: ids wrap, the trace prints them relative to the start value) and the keep-alive timeout of the '
         'TransportService (10^9 s / 1 ns: connection handles are downgraded whenever time passes and open_substream upgrades them). (2) 6%: inbound '
         'floods against the bound (silent inbound substreams, requests the user never answers, up to 10^7 ms passing, connections closing under '
         'them, further substreams from other peers, the occasional request / answer / end of stream that frees a slot). (3) 14%: TWO real protocol '
         'objects (format coq/C13/Glue2.v): each with its own scripted environment and user; conversations move through their stages in both '
         'directions and interleaved - request sent, substream opened at the requester and handed to the other node as an inbound substream (the two '
         'carriers are linked), request bytes carried over (all of them or cut at a random offset, under a read script of up to 7 events: at most k '
         "bytes / stall / end of stream / read error, k in {1,2,3,5,64,100000}), answered or rejected by the other node's user, response bytes "
         'carried back the same way - with cancels, clock advances (the two nodes share the clock), closed connections, blocked and failing writes, '
         'requests to third peers, local read-side stimuli aimed at linked carriers (ignored), raw responses, an event loop that ends; payload '
         'lengths {0,1,2,7,max-1,max,max+1} with max in {16,300,1024,70000} in both directions; two records (node A, node B) per move with full '
         'bookkeeping dumps; 80% end with both nodes flushed. (4) the corpus: 89 two-node dialogues with request and response payloads of 0, 1, '
         'max-1, max, max+1 bytes in both directions (max 16 and 300) plus a wrapped-allocator dialogue, besides the single-node witnesses',
 'trusted_base': ['the real event loop run() is driven directly (hand-polled future, noop waker, paused tokio clock); the bookkeeping is read '
                  'through a cfg(verif) probe at the top of the loop (thread-local copy of the private maps, taken per protocol object right after '
                  'its poll); the hand-stepped copy of the loop that the hook file still carried was removed in this round',
                  'environment of the model = the scripted harness: transport events arrive only through the real TransportService, which is '
                  'attached to the handle of a real TransportManager that is never run - the harness overwrites its peer table and fills/closes its '
                  'command channel, so dial() is the real TransportManagerHandle::dial on a scripted state (its result is logged by a cfg(verif) '
                  'probe in TransportService::dial and compared with the model; ImmediateDialError::PeerIdMissing cannot come out of dial(peer) and '
                  'is covered by the theorems only); the remote side answers a request only after the whole request frame arrived; scripted '
                  'connections read their command channel after the loop has come to rest; with the ka flag connection handles are downgraded by the '
                  'real KeepAliveTracker and upgraded again by open_substream (the harness keeps a sender of the command channel, so an upgrade '
                  "never fails: a failed upgrade differs from a dead command channel only in whether a substream id is drawn - C08's subject)",
                  'tokio paused clock drives request timeouts; clock advances are chosen so that no deadline is hit exactly; when a response and a '
                  "timeout are ready at once tokio's unbiased select! decides - the harness observes the outcome and reruns the twin object until it "
                  'made the same choice',
                  "in-memory carriers under the crate's Substream type (Substream::verif_new); in two-node cases the harness is the courier between "
                  'two such carriers: it hands a prefix of the bytes one real node wrote to the real Substream reader of the other node under the '
                  "read script; the model computes what that reader returns with C04's reader model (V.C04.Model.poll_next), which C04's own check "
                  'ties to src/substream/mod.rs; only the completion of a read is a model event (the reader state is private to the future that owns '
                  'the substream), so a delivery is one move; a frame is delivered at most once per link and direction',
                  'payloads are the byte patterns tag, tag+1, ... (mod 256) of a given length: the harness reports a received payload as (length, '
                  'first byte) only if every byte fits the pattern (else tag 1000, which no model trace contains), so byte-identity is checked on '
                  'every byte',
                  'tools/gen_c13_tables.py (regex-level reading of handle.rs, mod.rs, config.rs, error.rs): what it extracts is compared with the '
                  "model's tables by C13_tables_in_sync; what it does not look at (bodies of handlers beyond the listed token sequences) is tied by "
                  'the differential runs only'],
 'level_text': 'Proof: for every sequence of stimuli (user commands, transport-service events in any order, every result of dial(), carrier events '
               'of the remote side, clock advances) the model of the event loop emits at most one terminal event per request id (C13_at_most_one). '
               'Exactly one, without a premise on the final state: after ANY history, once the environment has discharged what it owes by its own '
               'books (DialFailure for every dial it accepted and did not answer, ConnectionClosed for every connection, more than the timeout '
               'passes) every accepted send_request has exactly one terminal event unless the user asked to cancel it (C13_exactly_one_flushed; '
               'C13_flush_discharges, C13_opens_on_connections). The same with the premise as a transport contract - a ghost ledger computed from '
               'the stimuli and the calls the protocol makes (dial accepted, open_substream accepted, carrier handed to a request future) records '
               'what the environment still owes (C13_exactly_one_contract), or with premises on the final state (C13_exactly_one, '
               'C13_exactly_one_settled). The result of dial() is a choice of the environment: whatever it is, a Dial request to a peer the protocol '
               'does not know is EITHER parked behind an accepted dial OR failed at once with RequestFailed(DialFailed(Some(that error))) and parked '
               'nowhere (C13_send_dial_step, C13_dial_refused_one_failure for every code that is not Ok; C13_dial_res_cases: the order of the checks '
               'of TransportManagerHandle::dial). Matching payload: a ResponseReceived(rid, bytes) is caused only by the remote side answering '
               "exactly those bytes on a carrier that on_outbound_substream had handed to rid's future, carriers and request ids are paired "
               'one-to-one (C13_payload), and the request frame that reached the remote end of that carrier is the request given to send_request for '
               'rid or its fallback variant (C13_request_wire). A RequestReceived is caused only by a request frame on an inbound carrier, carries '
               'its bytes, and no carrier yields two (C13_responder_once); the inbound bound is an invariant for every interleaving of peers '
               '(C13_inbound_bound); send_response_with_feedback reports () only in a step in which a response frame went out (C13_feedback); a '
               'bounded event channel with a parking producer loses, duplicates and reorders nothing (C13_channel_nothing_lost). The model is tied '
               'to mod.rs/handle.rs by a per-stimulus differential run of the real run() future with full bookkeeping dumps; the oracle prop_ok '
               "re-judges the clauses of the property text on the implementation's traces: at most one, exactly one once the protocol's books are "
               "empty AND once the environment's ledger (recomputed from the observed dial results, OpenSubstream commands and carrier hand-overs - "
               'the executable face of C13_exactly_one_contract) is discharged, a refused dial fails its request in the same step with that very '
               'error, every frame on the wire is the right request variant / the response the user supplied, responses byte-identical, one '
               'RequestReceived per inbound substream, the inbound bound, nothing after the loop has ended. EXTENSION ROUND (33 theorems). Two '
               'nodes: TwoNode.v composes two copies of the event-loop model, each with its own environment, over the C04 substream contract - what '
               "one node writes on a linked carrier is C04's frame of the payload, what the other node reads is C04's incremental reader run over "
               'any prefix of those bytes under any fragmentation / stall / end-of-stream / error script (C13_carrier_contract, an instance of '
               'C04_reader_roundtrip). Every node of the composed system is a run of the single-node model (C13_two_node_projection), so at most one '
               '/ exactly one hold at either node (C13_two_node_at_most_one, C13_two_node_exactly_one, C13_two_node_responder_once). THE COMPOSITION '
               'THEOREM C13_two_node_response_identical: for every history of the two-node system a response delivered at the requester for rid on a '
               "linked substream is byte-identical to what the OTHER node's user supplied with send_response for inbound request id irid, irid is "
               'the request read from the other end of that very substream, and what that user was handed as the request is byte-identical to the '
               'request frame written for rid (C13_two_node_request_identical), which is the payload given to send_request or its fallback variant '
               '(C13_two_node_request_wire). Responder side of one node: a response frame on an inbound carrier is the payload the user gave for the '
               'request id read from that carrier (C13_response_wire); of all send_response / reject_request calls for an id at most one finds the '
               'oneshot sender (C13_respond_once). Inbound bound without timeouts, as theorems of what the code does: only a stimulus on its own '
               'carrier removes a reader (C13_reader_leaves_only_on_carrier_event); with all slots taken by silent remotes no request is ever handed '
               'to the user again, whatever time passes (C13_silent_remotes_pin_slots, C13_full_refuses). The id allocator wraps at 2^64: the '
               'renaming model id -> implementation id is injective below 2^64 allocations (C13_alloc_wrap). Enums, match arms, select! order, '
               'future outcome sequences and configuration extracted from the source equal the tables the model was written for; every error has one '
               'code, codes are distinct (C13_tables_in_sync). Tie: the two-node stream runs two REAL protocol objects whose substreams are real '
               "Substream objects over byte pipes couriered by the harness; per move both nodes' events and bookkeeping are compared with the "
               "extracted composed model, and the oracle prop_ok2 re-judges the byte-identical clause end to end on the implementation's traces "
               "(request at the responder = request variant the requester's user sent for the id bound to that substream; response at the requester "
               "= what the responder's user supplied for the inbound id that this link delivered; rid matches; one request per link), every frame "
               'either node puts on any wire (Glue1.frames_ok with per-node carrier books), at most one / exactly one after the flush and the '
               'inbound bound at both nodes.',
 'level_note': 'The unrepaired code violated the property (F-C13a, repaired by a fix: commit in round 1, witness kept in corpus/C13; '
               'C13_unrepaired_refuted). No new defect of the property text was found in this round. OBSERVATION (what the code does, stated as '
               'theorems, not a defect of the text): neither a remote that opens a substream and never sends its request nor a user who never '
               'answers a RequestReceived has a timeout - the slot stays occupied until the carrier yields something / the user answers; with '
               'max_concurrent_inbound_requests = m, m silent substreams of ONE peer make the node refuse every inbound request of EVERY peer for as '
               'long as those substreams stay open (C13_silent_remotes_pin_slots); the bound itself is respected and the ConfigBuilder documentation '
               'says requests above the maximum are dropped. Modelled since this round: two nodes end to end, partial frames / faults at any byte '
               "offset / fragmented and stalling reads (through C04's reader model), what the other node sees when an event loop ends (what had been "
               "written, else the end of the stream), the handle's pending_responses (answer at most once), the allocator's wrap-around (renaming), "
               'with_timeout, 15 SubstreamOpenFailure shapes, the keep-alive downgrade/upgrade path of open_substream (exercised; its result is an '
               'environment choice of the model). Not modelled: a DialPeer command silently refused by the manager later on (F-C05c: then a dial '
               'stays owed forever and the contract premise never holds); a failed upgrade of a downgraded connection handle (differs from a dead '
               "command channel only in whether a substream id is drawn; C08); a node whose max message size differs from its peer's (two-node cases "
               'share max_size; an oversize frame arriving is covered by the single-node stream); a response frame that arrives before the requester '
               'has finished writing its request (the courier delivers responses only to a requester whose request is out); equivariance of the '
               'event loop under the id renaming is tested (allocator started at usize::MAX-k), not proved - the theorem is about the renaming only. '
               'Timeouts are events that fire when the clock passes their deadline; the request timeout must be positive for the exactly-one '
               'theorems (with_timeout(0) is accepted by the API and not exercised). LINK ROUND (coq/Link/Ts_C13.v, 9 theorems): the composition '
               'with the TransportService model is at the level of inputs and outputs (possible because the contract ledger gstep reads only '
               'stimuli, resolved targets and calls): Model.step is unchanged and keeps its scripted environment, a joint history is one in which '
               'that script and the service agree on what open_substream returns (`jok`: accepted calls = OOpen outputs, same ids). The scripted '
               'environment draws a substream id for every attempted open on a known connection (as the service does for ChannelClogged, EOpenFull) '
               'while the service draws none when try_get_permit fails (ORet 2): histories with such a failing open are not joint histories (the id '
               'counters diverge). OBSERVATION of the link, to be checked against the code: with two connections per peer an open in flight on the '
               'primary is forgotten by the service when the primary closes while the secondary lives - no SubstreamOpenFailure, no ConnectionClosed '
               "- so the pending_outbound entry of the request stays until the peer's last connection closes (C13_service_silent_close_loses_open; "
               "inside C08's contract `feasible 2`, and consistent with C08_open_answered whose alternative is the close of the CONNECTION).",
 'assumptions': ['request ids come from the shared allocator (send_request/try_send_request), never chosen by the user',
                 'C13_exactly_one_flushed / C13_exactly_one_contract: the environment discharges what it owes - every accepted dial is answered by '
                 "ConnectionEstablished or DialFailure, every accepted open_substream by SubstreamOpened, SubstreamOpenFailure or the peer's "
                 'ConnectionClosed, and every carrier handed to a request future sees a terminal event of its request or the request timeout (> 0) '
                 'passes. LINKED (coq/Link/Ts_C13.v): the part "every accepted open_substream is answered" is no longer an assumption about an '
                 'abstract environment when the protocol runs on the TransportService model coq/Ts of C08/C09 - C13_ledger_is_service_ledger / '
                 'C13_opens_discharged_on_service / C13_exactly_one_on_service_model: for every joint history (service events handed to the protocol '
                 "as its stimuli, the protocol's open_substream calls executed on the service with the same ids) every open the protocol-side ledger "
                 'holds is in flight at the service or was lost by a silent close; left as assumptions there: nothing in flight at the service at '
                 'the end (the hypothesis of C08_open_answered; itself a THEOREM from the connection-task contract stated on the trace - every '
                 'OpenSubstream command a task received is later answered or its connection is reported closed: C13_task_contract_empties_service, '
                 'C13_exactly_one_on_service_model_contract), nothing lost (`lost_run = []`; a THEOREM under one connection per peer at a time, '
                 'C13_exactly_one_on_service_model_single; FALSE in general with two connections per peer: C13_service_silent_close_loses_open), '
                 'every accepted dial answered (the manager, C05_sys2_no_silence with its two finding classes; the service only forwards '
                 'DialFailure; not linked), the request timeout passes',
                 "HashMap/FuturesUnordered iteration order is not observable (events of one step and dumps are sorted); the order in which tokio's "
                 'select! looks at two simultaneously ready branches is an input of the model',
                 "two-node theorems: the read side of a linked carrier is fed by the other node's bytes only (local read-side stimuli that resolve "
                 'to a linked carrier are ignored by model and harness alike); each direction of a link is delivered at most once',
                 "C13_carrier_contract rests on C04's model of the Substream reader (V.C04.Properties.C04_reader_roundtrip), tied to "
                 'src/substream/mod.rs by ./check C04'],
 'clause_map': [['each request results in at most one terminal event carrying its request id',
                 ['C13_at_most_one', 'C13_two_node_at_most_one'],
                 'main stream, all case kinds: per-stimulus diff of events + oracle nodup(term ids) (single node: Glue1.prop_ok; both nodes: '
                 'Glue2.node_final_ok)'],
                ['and in exactly one (the response or a failure) unless the user cancelled it',
                 ['C13_exactly_one_flushed',
                  'C13_flush_discharges',
                  'C13_opens_on_connections',
                  'C13_exactly_one_contract',
                  'C13_exactly_one',
                  'C13_exactly_one_settled',
                  'C13_two_node_exactly_one'],
                 "80% of the histories end with the environment's flush (ops 30/31; both nodes in two-node cases): oracle `answered` on the "
                 "implementation's trace, with the protocol's books quiescent and with the recomputed ledger discharged"],
                ['when the peer must first be dialed',
                 ['C13_send_dial_step', 'C13_dial_refused_one_failure', 'C13_dial_res_cases', 'C13_unrepaired_refuted'],
                 'every dial() result as environment choice (op 28/29/22 + real TransportManagerHandle::dial, result logged by probe, event 11), '
                 'corpus two_requests_while_dialing'],
                ['when several requests target the same peer concurrently',
                 ['C13_payload', 'C13_at_most_one'],
                 'bursts (ops 18/24), dialogue generator, answers in the opposite order; two-node: interleaved conversations over several links'],
                ['when connections drop, substreams fail or peers stay silent',
                 ['C13_exactly_one_flushed', 'C13_tables_in_sync'],
                 'ops 3/4/6 (15 failure kinds)/8/10/11/17, timeouts (op 12, four configured timeouts), soft flush (op 31: connections stay, silent '
                 'peers must time out); two-node: bytes cut at any offset, end of stream / read error in the script, event loop of the other node '
                 'ending'],
                ['a delivered response is byte-identical to what the responder supplied for that very request',
                 ['C13_two_node_response_identical',
                  'C13_carrier_contract',
                  'C13_two_node_request_identical',
                  'C13_two_node_request_wire',
                  'C13_payload',
                  'C13_request_wire',
                  'C13_response_wire',
                  'C13_respond_once',
                  'C13_feedback'],
                 'two-node cases (two real nodes, real Substreams over couriered byte pipes, payloads 0/1/max-1/max/max+1 both directions, '
                 'fragmented): oracle prop_ok2 (response = supplied for the inbound id of that link, rid matches) + per-move diff; single node: '
                 'frames_ok on every frame on the wire, byte pattern checked on every byte'],
                ['the responder sees each request once',
                 ['C13_responder_once', 'C13_two_node_responder_once', 'C13_two_node_request_identical', 'C13_response_wire'],
                 'one RequestReceived per inbound substream (oracle `used`; two-node: l_reqd per link), a second frame on the same carrier is not '
                 'shown (corpus inbound_feedback)'],
                ['the configured bound on concurrent inbound requests is respected',
                 ['C13_inbound_bound', 'C13_full_refuses', 'C13_silent_remotes_pin_slots', 'C13_reader_leaves_only_on_carrier_event'],
                 'bookkeeping dump after every stimulus (readers + responders <= bound, oracle), flood generator (silent remotes, stalling user, '
                 '10^7 ms), both nodes of two-node cases'],
                ['(tie of enums / mappings / configuration)',
                 ['C13_tables_in_sync', 'C13_alloc_wrap', 'C13_channel_nothing_lost', 'C13_steps_flatten', 'C13_two_node_projection'],
                 'tools/gen_c13_tables.py on every check -> coq/gen/C13Tables.v + harness/src/gen_c13_tables.rs (harness refuses to run on unknown '
                 'variants); twin run with an event channel of capacity 1; allocator started at usize::MAX-k']],
 'coq_deps': ['C04', 'Ts', 'Link']}
