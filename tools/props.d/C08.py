"""Configuration of ./check C08 (shared model coq/Ts)."""

ENTRY = {'coq_dir': 'C08',
 'coq_deps': ['Ts', 'Mgr', 'C06', 'C07', 'Link'],
 'model_files': ['Glue'],
 'harness': 'c08',
 'cases': {'quick': 1500, 'thorough': 10000},
 'consts': ['DEFAULT_CHANNEL_SIZE'],
 'nontrivial_min_trace': 40,
 'rule': 'online-generated histories against a real TransportService (cfg(verif) wrapper) with real ConnectionHandles whose command receivers the '
         'harness owns: 1-3 peers, <= 2 overlapping connections per peer (10 % of the cases allow a third, 8 % inject answers for unknown ids / '
         'closes of unknown connections: outside the environment assumption, diffed but not judged), open_substream calls, opened/failure answers on '
         "either connection, inbound substreams, other protocols' senders, substream drops, draws from the shared id counter, force_close "
         '(optionally with a full primary / secondary command channel), dial / dial_address / add_known_address (must leave the service untouched); '
         '8-60 ops (10-120 thorough); plus cases/25 real-time cases (T = 100/300/500 ms on a 200 ms grid) with keep-alive downgrades. After every '
         "op: emitted TransportEvents, open_substream result, commands seen on each connection's channel, Active->Inactive flips, and a dump (per "
         'peer primary/secondary id and active flag, next substream id, tracked keys, number of armed sleeps, per channel whether a strong sender '
         'exists) are compared with the extracted model; plus cases/3 report-level cases: the REAL ProtocolSet (one per connection) reporting '
         'substream outcomes / established / closed into SMALL protocol channels (capacity 1-4) that the harness drains only when the case says so, '
         "the report futures running as runtime tasks (polled when woken, as the connection loop's await is); the result of every report (completed "
         '/ waiting / error), the exact events each protocol receives, which waiting reports complete, and the queue lengths are compared with the '
         'model; plus cases/5 composed cases: real ProtocolSets (one per connection) feed ONE real TransportService through its real event channel '
         'built with capacity 1 (reports wait for room as runtime tasks, the service consumes at most one event per poll, open_substream commands '
         'are read off the real ProtocolSet); the trace is a report-level case+trace and a service-level case+trace whose inputs are the delivered '
         "events, and must satisfy both oracles; report-level cases may kill a protocol's receiver (established/closed must still reach every live "
         'protocol: pins fix 2c7c81a), open_substream may meet a full command channel (ChannelClogged), the id counter may start a few below 2^64 '
         'and wrap; plus cases/4 multi-service cases (kind 5): 2-3 real TransportServices with their own keep-alive flags and timeouts and ONE '
         'shared substream-id counter over real ProtocolSets (one per connection, command channel of capacity 1/2/4/256): '
         'report_connection_established hands every service its clone of the real ConnectionHandle, the harness is the connection task '
         '(ProtocolSet::next() takes the commands, it holds their permits, answers through report_substream_open(_failure) under the main or the '
         'fallback name, decides the lifetime permit of an inbound substream from the REAL protocols_with_keep_alives() table and of an outbound one '
         "from the command's keep_alive), bursts of opens fill the command channel (ChannelClogged); compared per op: every service's events, the "
         "result of next() (command of which service / ForceClose / None / Pending), every service's view, tracked keys and armed sleeps, the "
         'counter, per connection whether a strong sender exists; judged by an oracle on the trace alone (per-service stream grammar, ids increasing '
         'across services, the command taken is the oldest queued open of that connection, accepted only while the channel has room); plus max(10, '
         'cases/4) name-table cases (kind 6): a real ProtocolSet::new over 1-5 protocols with 0-3 fallback names and mixed keep-alive flags, read '
         'back: protocols_with_keep_alives() and, per name, where report_substream_open delivers and under which names; non-trivial = trace of >= 40 '
         'numbers; distinct = distinct (case, trace) pairs',
 'trusted_base': ["environment assumption of the theorems: connection ids are fresh and at most two connections per peer are open at a time (C06's "
                  'guarantee), closed/substream notifications refer to an open connection (per-connection FIFO of the connection task), answers '
                  'refer to an open request',
                  'atomic-handler abstraction: one input per poll_next; several queued events drained in one poll before the timers are looked at '
                  'are modelled as consecutive polls at the same instant',
                  'the harness plays the connection task and the protocol (holds permits of opens in flight, answers them, keeps/drops substreams); '
                  'SubstreamOpened carries a real tcp::Substream over a stream of a parked yamux connection',
                  'multi-service stream: report_connection_established / _closed are consumed by all services within the same step (per-protocol '
                  'delivery at different times is the subject of the report-level streams); after every op all services are polled to quiescence in '
                  'index order'],
 'level_text': 'Proof: for every feasible history (any peers, any interleaving of <= 2 overlapping connections per peer, opens, answers, polls) the '
               'per-peer event stream of the model is (Established (SubstreamOpened|OpenFailure)* Closed)* — alternation and substream scope —, the '
               '(primary, secondary) view equals the open connections in establishment order at every step, returned substream ids are strictly '
               'increasing for every history, an OpenSubstream command is produced only by an accepted open, carries its id and targets the oldest '
               'open connection; an accepted open is in flight until a step hands the protocol an answer with its id or reports its connection '
               'closed, no id is answered twice, and under the stated environment hypothesis (the open is no longer in flight at the end, i.e. the '
               'connection task answered its command) it is answered exactly once or its connection was closed; the reporting side of ProtocolSet '
               '(bounded FIFO channel per protocol, all four report functions wait for room) neither drops, duplicates nor reorders an event for '
               'every history and capacity and delivers every started report after finitely many drains for every capacity >= 1 (incl. '
               'DEFAULT_CHANNEL_SIZE); once the answer event reaches the service after the open, the open is resolved: answered exactly once or its '
               'connection closed; the substream-id counter is modelled modulo 2^64 (usize): ids are unique in every history that draws at most 2^64 '
               'of them, and strictly increasing while the counter does not wrap (the at-most-once theorems carry that no-wrap hypothesis); '
               'ChannelClogged (full command channel) draws an id, puts nothing in flight and issues no command; with dead protocols in the table '
               '(fix 2c7c81a) report_connection_established tells every live protocol exactly once and never fails, a later closed reaches exactly '
               'the live protocols, and every protocol alive at the end has been handed exactly the accepted established/closed reports of the '
               'history, in order (paired); the pre-fix behaviour is kept as a refuted variant with its witness; a counterexample shows the '
               'two-per-peer assumption is needed. Outside the contract: ConnectionEstablished/ConnectionClosed alternate per peer for EVERY history '
               'from every state (no feasibility assumption); the only panic site (debug_assert in on_connection_closed) is reached exactly by a '
               'closed notification for a peer without a context, never inside the contract; a third connection is ignored without touching contexts '
               'or tracker; a closed notification with an unknown id empties the secondary slot. force_close is invisible to the service state, its '
               'ForceClose commands go only to open connections of the peer, PeerDoesntExist exactly for an unconnected peer, Ok only with the '
               'command to the primary. COMPOSITION (coq/Ts/Multi.v: N services with own flags/timeouts, shared bounded FIFO command channel per '
               'connection = ProtocolSet::rx behind the ConnectionHandles/Permits, shared id counter, ChannelClogged derived from the queue, next() '
               "= None iff queue empty and no strong sender): every component keeps every single-service invariant, so each service's stream is "
               "well-formed for every feasible history of the composition; each service's view of a channel equals the shared channel exactly (the "
               "single-service model's environment variable is discharged); ids returned to all services are strictly increasing in call order (no "
               'reuse across protocols); the command channel loses, duplicates and reorders nothing (taken ++ queued = issued). The model is tied to '
               'transport_service.rs / connection.rs / protocol_set.rs by per-operation differential runs with state dumps.',
 'level_note': 'Trusted: Coq kernel, extraction, harness and hooks, the environment assumption (discharged by C06 for the connection count: formally '
               'linked, the C08_*_under_manager corollaries restate the main theorems without `feasible 2` for the composed system manager + '
               'protocol reports, coq/Link/C06_C08.v), the atomic-handler abstraction. That the connection task answers every OpenSubstream command '
               "(tcp/connection.rs) is an explicit hypothesis of C08_open_answered, not proved here (C07's side). The poll order of "
               'report_connection_established (a HashMap iteration order) no longer matters since fix 2c7c81a; the harness still writes it into the '
               'case for the pre-fix variant of the model. The composed stream uses capacity 1 so that every consumed event is observable on its '
               'own; larger capacities are covered by the report-level stream only. In the composition the connection-level events reach all '
               'services in the same step. dial / dial_address / add_known_address are only checked to leave the service untouched (their effect '
               'belongs to C05 / C10). ConnectionHandle::downgrade panicking on a second report_connection_established of the same ProtocolSet is '
               'not modelled (every transport calls it once).',
 'assumptions': ['at most two open connections per peer, fresh connection ids (C06): an assumption of the base theorems (`feasible 2`); DISCHARGED '
                 'for a service under the manager model by the link coq/Link/C06_C08.v (C08_stream_wellformed_under_manager, '
                 'C08_alternation_under_manager, C08_no_panic_under_manager, C08_multi_stream_wellformed_under_manager; via '
                 "C06_provides_C08_feasible) - left there: the manager's own environment and the order constraints `xtrace` (a THEOREM for protocol "
                 'i of a node of connection tasks: C06_C08_xtrace_on_node, coq/Link/C07_C06.v, whence C08_stream_wellformed_on_node / '
                 'C08_alternation_on_node with env_ok for transport-delivered events, globally fresh connection ids and a live protocol i left) and '
                 'the cap-independent rest `feasible_rest` (next item)',
                 'per-connection FIFO: no substream/closed notification for a connection before its established or after its closed notification',
                 'HashMap / FuturesUnordered iteration order is not observable (dumps and downgrade lists are sorted)']}
