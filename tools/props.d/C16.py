"""Configuration of ./check for C16 (see tools/props.py)."""
ENTRY = {'coq_dir': 'C16',
 'coq_deps': ['C15'],
 'harness': 'c16',
 'cases': {'quick': 6000, 'thorough': 200000},
 'consts': ['PARALLELISM_FACTOR', 'REPLICATION_FACTOR', 'KAD_READ_TIMEOUT_SECS', 'KAD_WRITE_TIMEOUT_SECS'],
 'nontrivial_min_trace': 60,
 'rule': 'the REAL `Kademlia::run` loop (polled by hand, tokio time paused) on a real TransportService fed through its event channel, a '
         'real TransportManager handle whose peer table decides the results of dial(), in-memory substream carriers, the real '
         'KademliaHandle as the user. Stream 1: the 7 corpus witnesses (the four repaired defects in six shapes, plus a silent peer ended '
         'by the 15 s executor timeout). Stream 2: N seeded adaptive histories on 2-7 peers, replication factor in {1,2,3,20}: 1-3 (quick) '
         '/ 1-5 (thorough) user operations of every kind (find_node, put_record, put_record_to_peers incl. unknown / local / duplicate '
         'peers, get_record with and without a local record, start_providing, get_providers) with quorums One / N(1-4) / All, running '
         'concurrently; per peer the manager believes no-address / dialable / connected / dialing; the environment answers every dial '
         '(established with a live or an already dead connection task, or dial failure), every substream (opened or open failure) and '
         'every executor future (fitting reply with random closer peers / records / providers, wrong message type, undecodable bytes, '
         'ADD_PROVIDER as a reply, send failure, read failure, PUT_VALUE ack or none, via the carrier or via the 15 s timeout) in random '
         'order, interleaved with unsolicited connections, closures, dying connection tasks, changes of the manager\'s belief, inbound '
         'requests of every type and stale / unknown substream, dial and future events; 88% of the histories end with the environment '
         'discharging everything it still owes. One harness event = one `select!` event = one poll of the loop; after each, the emitted '
         'KademliaEvents (in order), the send-phase target lists and a dump of pending_dials, peers[..].pending_actions, '
         'pending_substreams, executor length and every live query (lookup sets / tracking context) are compared with the extracted Coq '
         'model, which replays the same events with the served-query order, seed candidates and XOR-distance ranks observed on the '
         'implementation. prop_ok re-judges the property text on the implementation\'s trace alone: at most one terminal event per '
         'operation and none for unknown ids; when the environment owes nothing any more (every queued dial answered by a connection or a '
         'dial failure, every pending substream answered, no future in flight) every started operation has exactly one terminal event; a '
         'PutRecordSuccess / AddProviderSuccess needs send completions to at least clamp(quorum, |targets|) distinct target peers. '
         'Non-trivial: trace >= 60 numbers; distinct (case, trace) pairs are counted.',
 'level_text': 'Proof: for every configuration with parallelism factor >= 1, every initial manager belief and EVERY event history '
               '(commands, any order in which the drain loop serves the queries, connection / substream / dial events, executor '
               'completions with arbitrary messages, environment changes) the model of the repaired code keeps the invariant "nobody '
               'waits for nothing": each peer a live query waits for (lookup `pending`, send-phase `pending_peers`) has an outstanding '
               'obligation of that query and of the matching kind in pending_dials, pending_actions or the executor; every pending '
               'action is reachable through pending_substreams (histories in which the service reports opened substreams for the right '
               'peer); hence when nothing is owed and the engine is drained no query is left, and with query ids drawn from a counter '
               'every started operation has produced exactly one terminal event with its id, never two (terminal events + liveness = '
               'starts, for every id, after every history); every iteration of the drain loop strictly decreases the weight of the '
               'served query and touches no other query (the drained state is always reached); a PutRecordSuccess / '
               'AddProviderSuccess is emitted only when executor futures of that operation reported completed sends to at least '
               'clamp(requested quorum, number of targets) distinct target peers. The lookups inside the engine are the C15 model (each engine call is one C15 '
               'step; C15\'s progress theorem gives the no-deadlock step).',
 'level_note': 'Liveness is relative to the environment discharging its obligations (dial -> Established | DialFailure, open -> Opened | '
               'OpenFailure, executor futures complete within the 15 s read/write timeouts) - these are C05 / C08 / tokio guarantees '
               'taken as given; "bounded time" is a bound in those timeouts, not measured. Not proved in Coq: a global step bound over a '
               'peer universe (C15\'s measure lifted through the glue) and the "at most one obligation per (query, peer)" direction; the '
               'quorum theorem counts completed sends of any future of the operation (a stale FIND_NODE reply of the lookup phase would '
               'count too; that it cannot hit a target needs C15\'s never-twice argument and is not lifted). Not modelled: routing table and store (seed candidates, filtered peer '
               'lists and the local-record flag are inputs), peer timeout staleness (C15), provider refresh, await points inside a '
               'handler (full event channel).',
 'trusted_base': ['the cfg(verif) probe inside `Kademlia::run` (two add-only statements: one log entry per engine action, one snapshot when '
                  'the loop is about to wait) and the public wrapper around the crate-private Kademlia object',
                  'HashMap iteration order of the engine, routing-table answers and SHA-256 distance ranks enter the model as inputs '
                  'recorded from the implementation (served-query events, seeds, dists); the model validates every served query (it must '
                  'have an action) and that the engine is drained before each select! event',
                  'dial() results are forced through the real TransportManagerHandle peer table (verif_force_peer), open_substream results '
                  'through the real connection handle (dropped receiver); carriers are in-memory AsyncRead/AsyncWrite objects',
                  'tokio paused clock for the executor timeouts (advance 16 s with exactly one future in flight)'],
 'assumptions': ['parallelism factor >= 1 (shipped: 3)',
                 'query ids are fresh per command (KademliaHandle draws them from an atomic counter)',
                 'the service reports SubstreamOpened for the peer the substream was requested from (C08)',
                 'every obligation is eventually discharged by the environment: a queued dial by ConnectionEstablished or DialFailure (C05; '
                 'see F-C05c for a manager path that stays silent), an open by Opened/OpenFailure, executor futures by their 15 s timeouts',
                 'inbound substream ids are distinct from the service\'s substream counter (harness numbering)']}
