"""Configuration of ./check for C16 (see tools/props.py)."""
ENTRY = {'coq_dir': 'C16',
 'coq_deps': ['C15', 'C14', 'C17', 'Ts', 'Link'],
 'harness': 'c16',
 'cases': {'quick': 6000, 'thorough': 160000},
 'consts': ['PARALLELISM_FACTOR', 'REPLICATION_FACTOR', 'KAD_READ_TIMEOUT_SECS', 'KAD_WRITE_TIMEOUT_SECS'],
 'nontrivial_min_trace': 60,
 'rule': 'the REAL `Kademlia::run` loop (polled by hand, tokio time paused) on a real TransportService fed through its event channel, a real '
         'TransportManager handle whose peer table decides the results of dial(), in-memory substream carriers, the real KademliaHandle as the user. '
         'Stream 1: the 24 corpus witnesses (the five repaired defects F-C16a..e in seven shapes; executor read / write timeouts; a connection '
         'closed while a request is outstanding; provider refresh; two refresh futures for one key, stop_providing, futures completing without '
         'effect; requests of a remote peer served while user operations are in flight; Manual validation + store_record; Manual routing-table '
         'updates + add_known_peer; the loop parked on a one-slot event channel; stale pending peers; NEW: record expiry seen by a local get_record '
         "and a remote GET_VALUE; an inbound ADD_PROVIDER stored, served to GET_PROVIDERS, handed to the node's own get_providers and gone after the "
         'provider ttl; put_record_to_peers with and without update_local_store and with a record the store refuses; a try_ method on a full command '
         'channel; an async method waiting for its slot; the id of a refresh drawn from the counter the handle uses; calls after the loop has '
         'ended). Stream 2: N seeded adaptive histories on 2-7 peers, replication factor in {1,2,3,20}: 1-3 (quick) / 1-5 (thorough) user operations '
         'of every kind with quorums One / N(1-4) / All (N larger than the number of targets included), running concurrently; per peer the manager '
         'believes no-address / dialable / connected / dialing; the environment answers every dial, every substream and plays the SUBSTREAM of every '
         'executor future (write side accepts / fails / blocks, read side delivers a fitting reply / a wrong message / undecodable bytes / ends / '
         'stays silent; a blocking or silent substream is resolved by letting 20 s pass) - in random order, interleaved with unsolicited '
         "connections, closures, dying connection tasks, changes of the manager's belief, inbound substreams with requests of every type, and stale "
         '/ unknown substream, dial and future events; 88% of the histories end with the environment discharging everything it still owes. Of every '
         'ten histories four run against the COMPOSED model: commands are user-level (put_record with value length 1-4 where 4 is refused by the '
         'store, expiry none / at once / 2 / 39 / 399 ticks; put_record_to_peers with publisher, expiry and update_local_store either way; '
         'store_record; start_providing / stop_providing / get_providers on few provider keys); seeds, distance ranks, known providers and the '
         'local-record flag are computed by the model from its routing table (C14 model, real SHA-256 keys) and its store - the C17 model with clock '
         'readings, stored quorums and refresh futures with deadlines; requests read from inbound substreams are about record keys: PUT_VALUE with '
         'length / publisher (also bytes that are no peer id) / wire ttl, GET_VALUE, GET_PROVIDERS, ADD_PROVIDER with a provider list (the sender '
         'with 0-3 addresses, a third party, two entries, none, an undecodable peer id, an unknown connection type); the reply the node writes - '
         'record attached or not, closer peers in order, providers with their number of addresses - is captured from the carrier and compared; time '
         "passes explicitly (1-310 ticks of 10 s: the store is aged through the cfg(verif) hook, tokio's clock advanced) and inside refresh firings "
         '(to the deadline of the earliest future) and executor timeouts; compared after every event: the dumps of all non-empty k-buckets, every '
         'record of the store (key, value, publisher, length, expiry relative to the clock), every provider record per key in stored order (peer, '
         'addresses, expiry), local_providers with the stored quorum, the number of refresh futures; one composed history in four with '
         'RoutingTableUpdateMode::Manual, one in four with IncomingRecordValidationMode::Manual; two of ten run on an event channel of 1-3 slots, '
         'two with a zero peer timeout. One harness event = one `select!` event = one poll of the loop; after each, the emitted KademliaEvents (in '
         'order), the send-phase target lists and a dump of pending_dials, peers[..].pending_actions, pending_substreams, executor length and every '
         'live query are compared with the extracted Coq model. Stream 3: three put_record_to_peers operations between real nodes over loopback TCP. '
         'Stream 4 (NEW, N/8 cases, harness/src/c16_handle.rs): the KademliaHandle in front of the real loop on a COMMAND channel of 1-3 slots (hook '
         'verif_build_channels): the fifteen methods are called by name - the names come from the table tools/gen_c16_tables.py extracts from '
         'handle.rs, a name without a call invalidates the stream - try_ variants meet a full channel (Err, the id is burnt), async variants stay '
         'suspended in send().await (their future is kept and polled again), the loop takes every queued command per poll, refreshes draw ids from '
         'the shared counter, the loop may end (closed channel); compared: the result of every call, the number of commands every poll takes, the '
         "store after it, every event the user receives. prop_ok re-judges the property text on the implementation's trace alone: at most one "
         'terminal event per operation and none for unknown ids (in stream 4: none for an id nobody was given - in particular the id of a failed '
         'try_); when the environment owes nothing any more every started operation has exactly one terminal event; a PutRecordSuccess / '
         'AddProviderSuccess needs PUT_VALUE / ADD_PROVIDER futures whose WRITE side accepted the frame, to at least clamp(quorum, |targets|) '
         'distinct target peers (for a refresh: the quorum of the start_providing call); bounded time: after the environment has let 20 s pass with '
         'a future in flight, fewer futures are in flight; in composed mode the targets of put_record_to_peers are peers the caller named; on a '
         'bounded channel the same is judged on what the user received. Non-trivial: trace >= 60 numbers; distinct (case, trace) pairs are counted.',
 'level_text': 'Proof: for every configuration with parallelism factor >= 1, every initial manager belief and EVERY event history the model of the '
               "repaired code keeps the invariant 'nobody waits for nothing': each peer a live query waits for has EXACTLY ONE outstanding "
               'obligation of that query and of the matching kind in pending_dials, pending_actions or the executor (C16_no_wait_for_nothing / '
               '_at_most_one / _exactly_one); every pending action is reachable through pending_substreams (C16_dischargeable); when nothing is owed '
               'and the engine is drained no query is left, and with ids from a counter every started operation has produced exactly one terminal '
               'event with its id, never two (C16_one_terminal / _terminates). Termination with an explicit bound (C16_step_measure, C16_stuck_idle, '
               "C16_fair_terminates) and BOUNDED TIME (C16_bounded_time / _budget; the executor's futures with their timers: C16_executor_sound / "
               '_complete / _bounded / _silent_peer / _sent). Quorum honesty at full strength (C16_quorum_honest) and NEW, variant by variant: the '
               'command the loop performs for put_record, put_record_to_peers (either value of update_local_store), start_providing and the refresh '
               're-announcement carries the quorum the user asked for / stored with the key (C16_quorum_variants); what clamp is for the three '
               'variants of enum Quorum - extracted from the source, N carries a NonZeroUsize - incl. N larger than the number of targets and the '
               'impossibility of N(0) (C16_quorum_clamp); a success needs at least one target that was sent the data (C16_success_needs_a_send); all '
               'of it for histories through the handle without assumptions on ids or quorums (C16_handle_quorum_honest). Await points on a full '
               'event channel (C16_bounded_channel / _channel_drains). Requests of remote peers (C16_inbound_isolated). NEW - ONE engine model: the '
               "multi-query engine layer of the glue model refines C15's QueryEngine model call by call (starts of all kinds with the known "
               'providers, register_response / _failure / send_success / send_failure / peer_failure, next_peer_action, next_action of the query the '
               "HashMap order picked, on_query_action on the action C15's engine returns), and every reachable engine is a reachable C15 engine "
               '(C16_engine_is_C15, _calls_refine, _starts_refine, _serve_refines). The COMPOSITION with the routing table (C14 model) and the store '
               "- NEW: the C17 model with clock readings, stored quorums and refresh futures with deadlines, driven by C17's model of the loop "
               "(kstep) for every event that has a counterpart: refinement (C16_compose_refines), C14's table invariant and C17's store invariant in "
               'every reachable world (C16_table_invariant, C16_store_invariant), seeds = RoutingTable::closest (C16_seeds_from_table), '
               'put_record_to_peers targets named peers only whatever the update_local_store flag (C16_put_to_peers_named), GetRecord answers '
               'locally exactly when the store holds an UNEXPIRED record (C16_get_record_local, C16_store_records_live), a stored record is found / '
               'served until it expires or is written again, time passing included (C16_put_then_get, C16_serve_after_put), the reply to an inbound '
               'FIND_NODE / GET_VALUE / GET_PROVIDERS: closest() of the current table, the record flag, and the unexpired provider records of the '
               'store in stored order (C16_inbound_reply), Manual / Automatic validation (C16_manual_validation, C16_auto_validation: expiry from '
               'the wire ttl), Manual routing table (C16_manual_routing_table), the refresh futures: a completed future starts a refresh exactly '
               'when the key is still in local_providers, with the stored quorum, never before its deadline, and re-arms; a provided key always has '
               'a pending future (C16_refresh_due, _refresh_not_before_deadline, _refresh_rearms, _provided_has_timer); the glue theorems restated '
               "for composed histories incl. fair termination and NEW bounded time (C16_compose_*). NEW - the user's side: KademliaHandle with its "
               'bounded command channel: ids are drawn before the send from the counter the refresh branch shares, so the ids of the operations the '
               'loop starts are fresh whatever the interleaving (C16_handle_ids_fresh: the assumption `ufresh` is discharged; '
               'C16_handle_one_terminal); a try_ method on a full or closed channel returns Err, queues nothing, and its id is never started nor '
               'reported (C16_handle_try_full); the channel is a queue (C16_handle_fifo); every command is the user event of the composed model '
               'whose engine start is the one the source arm calls (C16_command_starts_in_sync); terminal events carry a query id, '
               'RoutingTableUpdate / IncomingRecord / IncomingProvider carry none and are never terminal, GetRecordPartialResult is not terminal '
               "(C16_events_classified); the tables extracted from handle.rs / mod.rs / executor.rs / target_peers.rs are the model's "
               '(C16_tables_in_sync). NEW - the layers below: the assumption `feasible` of C16_dischargeable is a theorem of the TransportService '
               'model of C08 / C09 (C16_link_service_feasible); both answers of the manager to a queued dial are productive (C16_link_dial_answers).',
 'level_note': 'Liveness is relative to the environment discharging its obligations within a bound D: for executor futures D is proved '
               '(WRITE_TIMEOUT + READ_TIMEOUT, Exec.v) and exercised with the paused clock; for substream opens the ANSWER is linked formally to '
               'coq/Ts (C16_link_service_feasible; C08_open_answered: exactly one answer unless the connection is reported closed), the deadline '
               "behind it can NOT be derived from C08 + C09 (link attempted, coq/Link/C16_Time.v: the service's logical clock times only the "
               'keep-alive downgrade, C09_closes / C09_never_overdue, and an open in flight holds the connection, C09_busy_keeps_alive; '
               "C16_service_open_wait_unbounded: for every D a history inside C08's contract keeps an accepted open in flight and unanswered at time "
               "D) - it is the connection task's substream open timeout, an untimed event of the C07 model; D for opens therefore stays an "
               "assumption; for dials the answers are C05's (C05_sys_progress, C05_sysT_progress, C05_tr_progress_dial, deadline: "
               'C05_tr_progress_open_expire), cited by name (the manager / transport models have no clock: their deadlines are untimed events and '
               "the progress theorems are existential over the environment's schedule, so no time bound can be derived; see coq/Link/C16_Time.v for "
               "what a formal link would need), with the shape lemma C16_link_dial_answers. 'The requested quorum' is read with the clamp of "
               'PutToTargetPeersContext::new (a deliberate, commented choice of the source: N(n) with fewer than n targets means every target): '
               'stated explicitly in C16_quorum_clamp, not a finding. There is no query cancellation API. After the loop has ended the async methods '
               'of the handle still return an id (the error of the closed channel is dropped; stale doc comments): modelled (h_closed), diffed, the '
               'oracle owes nothing then - an observation, the node is shutting down. Not modelled: an ADD_PROVIDER message the store would accept '
               'arriving as a REPLY on a request substream in composed mode (stored under a key the case does not describe; exercised in base mode '
               'where the store is not modelled); ChannelClogged of open_substream / dial (same arms as the dead-task / dial-error results the '
               'harness produces). C16_provided_has_timer needs `valid_run`: the store accepted the provider record of every refresh (it refuses '
               'only at its provider capacity, C17). The harness exercises staleness at the two extremes (timeout unreachable / zero), the theorems '
               'cover every timeout. Full buckets are reached by the F-C16e witness only. Store time is counted in ticks of 10 s: real time that '
               'elapses during a case (milliseconds) cannot flip a comparison between whole ticks.',
 'trusted_base': ['the cfg(verif) probe inside `Kademlia::run` (two add-only statements: one log entry per engine action, one snapshot when the loop '
                  'is about to wait; the snapshot reads the glue maps, the engine, the k-buckets and the whole store; the store-ageing request is '
                  'applied there) and the public wrapper around the crate-private Kademlia object',
                  'HashMap iteration order of the engine enters the model as an input recorded from the implementation (served-query events); '
                  "outside the composed mode so do routing-table answers and SHA-256 distance ranks. In composed mode the peers' and record keys' "
                  "SHA-256 hashes are data of the case (computed by the crate's Key::from / Key::new)",
                  'dial() results are forced through the real TransportManagerHandle peer table (verif_force_peer), open_substream results through '
                  'the real connection handle (dropped receiver); carriers are in-memory AsyncRead/AsyncWrite objects',
                  "time: tokio's paused clock for executor timeouts and refresh futures; the store reads the real clock and is aged through "
                  'MemoryStore::verif_age (requested on the probe, applied by the loop when it next waits; a command the store refuses makes the '
                  'loop go round); ConfigBuilder::verif_build_bounded / verif_build_channels for event / command channels of 1-3 slots; '
                  'QueryEngine::verif_force_peer_timeout(0) for the staleness stream',
                  'tools/gen_c16_tables.py (regex-level reading of handle.rs, mod.rs, executor.rs, target_peers.rs; anything it cannot read is '
                  'reported as missing) and the constants of the harness configuration that coq/C16/Glue.v repeats (tick, ttls, refresh interval, '
                  'store limits)'],
 'assumptions': ['parallelism factor >= 1 (shipped: 3; C16_default_config)',
                 'query ids are fresh per command: a THEOREM for every history through the KademliaHandle incl. the ids of refreshes '
                 '(C16_handle_ids_fresh); still a hypothesis of the base theorems about arbitrary event lists',
                 'the routing table never returns the local peer and put_record_to_peers is not given one peer twice (`cmd_ok`; a THEOREM for '
                 'composed histories: C16_compose_cmds_ok needs only that the caller names no peer twice)',
                 'the service reports SubstreamOpened for the peer the substream was requested from: a THEOREM of the TransportService model '
                 '(C16_link_service_feasible)',
                 'every obligation is eventually discharged by the environment: a queued dial by ConnectionEstablished or DialFailure (C05), an open '
                 'by Opened / OpenFailure / ConnectionClosed (C08_open_answered, C09); executor futures by their own timers (proved: '
                 'C16_executor_bounded)',
                 'composed model: every peer label has one 256-bit key and distinct peers have distinct keys (`keys_ok`; SHA-256 collisions aside)',
                 'C16_provided_has_timer: the schedule is consistent and the store accepted the provider record of every refresh (`valid_run`)',
                 "inbound substream ids are distinct from the service's substream counter (harness numbering)"],
 'clause_map': [['each node lookup, record put (to the closest peers or to given peers), record get, provider announcement and provider lookup',
                 'Model.v cmd / EPutToPeers; Compose.v ucmd / UPutToPeers / UFire; HandleModel.v hcmd, h2u (all nine KademliaCommand variants, '
                 'fifteen handle methods); C16_command_starts_in_sync, C16_tables_in_sync (which engine start each command arm calls)',
                 'streams 2 and 4; tables regenerated from handle.rs / mod.rs on every check'],
                ['produces exactly one terminal event',
                 'C16_one_terminal, C16_terminates, C16_fair_terminates, C16_compose_one_terminal / _terminates / _fair_terminates, '
                 "C16_handle_one_terminal; engine level: C16_engine_serve_refines (the terminal events are C15's terminal actions)",
                 'oracle prop_ok_u / prop_ok_b / prop_ok_h (count_terms <= 1; = 1 when nothing is owed); seeds seeded/C16, /b, /c'],
                ['carrying its query id',
                 'C16_handle_ids_fresh (ids fresh incl. refresh ids), C16_handle_fifo (the returned id is the id of the queued command), '
                 'C16_events_classified (terminal events carry a query id; RoutingTableUpdate / IncomingRecord / IncomingProvider do not and are not '
                 'terminal), C16_handle_try_full (a burnt id is never reported)',
                 'stream 4 with raw query ids; oracle: no terminal event for an id nobody was given; mutations mC, mD, mG'],
                ['success or failure',
                 'term_of / out_event (Handle.v); tbl_action_events = on_query_action arms (C16_tables_in_sync)',
                 'event encoding enc_out compared per event'],
                ['within bounded time',
                 'C16_bounded_time, C16_bounded_time_budget, C16_compose_bounded_time, C16_compose_bounded_time_budget, C16_executor_bounded, '
                 'C16_executor_silent_peer; D for opens / dials: C09_closes, C09_never_overdue, C05_tr_progress_open_expire (cited)',
                 'oracle `timely` (a future does not survive 20 s); witnesses silent_peer_times_out, write_timeout_put_value'],
                ['including when some target peers cannot be dialed, have no usable address, disconnect midway or never answer',
                 'C16_no_wait_for_nothing, C16_exactly_one, C16_dischargeable (+ C16_link_service_feasible), C16_closed_while_outstanding, '
                 'C16_link_dial_answers, C16_executor_silent_peer',
                 'stream 2 fault placement per peer; witnesses f_c16a..e, closed_while_request_outstanding'],
                ['a put or announcement reports success only if the requested quorum of peers was actually sent the data',
                 'C16_quorum_honest, C16_compose_quorum_honest, C16_handle_quorum_honest, C16_quorum_variants (PutRecord, PutRecordToPeers with '
                 'either update_local_store, AddProvider, refresh), C16_quorum_clamp (One / N / All, N > targets, N(0) impossible), '
                 'C16_success_needs_a_send, C16_executor_sent (sent = the write side accepted the frame), C16_engine_starts_refine (peers_to_succeed '
                 "= C15's need_track)",
                 "oracle `honest` (write-side acceptance read from the case, not from the implementation's result); table `need` / `quorum` "
                 'extracted; mutations mA, mB']]}
