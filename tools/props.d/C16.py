"""Configuration of ./check for C16 (see tools/props.py)."""
ENTRY = {'coq_dir': 'C16',
 'coq_deps': ['C15', 'C14', 'C17'],
 'harness': 'c16',
 'cases': {'quick': 6000, 'thorough': 200000},
 'consts': ['PARALLELISM_FACTOR', 'REPLICATION_FACTOR', 'KAD_READ_TIMEOUT_SECS', 'KAD_WRITE_TIMEOUT_SECS'],
 'nontrivial_min_trace': 60,
 'rule': 'the REAL `Kademlia::run` loop (polled by hand, tokio time paused) on a real TransportService fed through its event channel, a '
         'real TransportManager handle whose peer table decides the results of dial(), in-memory substream carriers, the real '
         'KademliaHandle as the user. Stream 1: the 12 corpus witnesses (the five repaired defects F-C16a..e in seven shapes, a silent '
         'peer ended by the 15 s executor timeout, a connection closed while a request is outstanding, a provider refresh fired by the '
         "store's timer, the loop parked on a one-slot event channel, five pending peers at once under a zero peer timeout). Stream 2: N "
         'seeded adaptive histories on 2-7 peers, replication factor in {1,2,3,20}: 1-3 (quick) / 1-5 (thorough) user operations of every '
         'kind (find_node, put_record, put_record_to_peers incl. unknown / local / duplicate peers, get_record with and without a local '
         'record, start_providing, get_providers, provider refresh) with quorums One / N(1-4) / All, running concurrently; per peer the '
         'manager believes no-address / dialable / connected / dialing; the environment answers every dial (established with a live or an '
         'already dead connection task, or dial failure), every substream (opened or open failure) and every executor future (fitting '
         'reply with random closer peers / records / providers, wrong message type, undecodable bytes, ADD_PROVIDER as a reply, send '
         'failure, read failure, PUT_VALUE ack or none, via the carrier or via the 15 s timeout) in random order, interleaved with '
         "unsolicited connections, closures, dying connection tasks, changes of the manager's belief, inbound requests of every type and "
         'stale / unknown substream, dial and future events; 88% of the histories end with the environment discharging everything it still '
         'owes. Of every ten histories: four run against the COMPOSED model (commands are user-level: the seeds, distance ranks, known '
         'peers of put_record_to_peers and the local-record flag are computed by the model from its own routing table (C14 model, real '
         'SHA-256 keys of the peers in the case) and store (C17 model); add_known_peer / store_record commands; the dumps of all non-empty '
         'k-buckets (peer, has-address, connection state, in bucket order) and of the stored record keys are compared after every event), '
         'two run on an event channel of 1-3 slots (the user receives at random moments; the model is the bounded-channel layer; compared: '
         'what the user received, whether the loop is parked, the dump when it is not), two run with a zero peer timeout (every pending '
         "peer of a FIND_NODE-type lookup is stale at the next next_action call; the model's clock ticks before every call). One harness "
         'event = one `select!` event = one poll of the loop; after each, the emitted KademliaEvents (in order), the send-phase target '
         'lists and a dump of pending_dials, peers[..].pending_actions, pending_substreams, executor length and every live query (lookup '
         'sets / tracking context) are compared with the extracted Coq model, which replays the same events with the served-query order '
         '(and, outside the composed mode, the seed candidates and XOR-distance ranks) observed on the implementation. Stream 3: three '
         'put_record_to_peers operations between real nodes over loopback TCP (F-C16a end to end, deadline-bounded). prop_ok re-judges the '
         "property text on the implementation's trace alone: at most one terminal event per operation and none for unknown ids; when the "
         'environment owes nothing any more (every queued dial answered by a connection or a dial failure, every pending substream '
         'answered, no future in flight) every started operation has exactly one terminal event; a PutRecordSuccess / AddProviderSuccess '
         'needs completions of PUT_VALUE / ADD_PROVIDER futures (not FIND_NODE replies) to at least clamp(quorum, |targets|) distinct '
         'target peers; in composed mode the targets of put_record_to_peers are peers the caller named; on a bounded channel the same is '
         'judged on what the user received. Non-trivial: trace >= 60 numbers; distinct (case, trace) pairs are counted.',
 'level_text': 'Proof: for every configuration with parallelism factor >= 1 (any replication factor, any peer timeout), every initial '
               'manager belief and EVERY event history (commands, any order in which the drain loop serves the queries, connection / '
               'substream / dial events, executor completions with arbitrary messages, environment changes, time passing) the model of the '
               'repaired code keeps the invariant "nobody waits for nothing": each peer a live query waits for (lookup `pending`, '
               'send-phase `pending_peers`) has an outstanding obligation of that query and of the matching kind in pending_dials, '
               'pending_actions or the executor - EXACTLY ONE (C16_at_most_one / C16_exactly_one: never two obligations for one (kind, '
               'query, peer), over the three maps together); every pending action is reachable through pending_substreams; hence when '
               'nothing is owed and the engine is drained no query is left, and with query ids drawn from a counter every started '
               'operation has produced exactly one terminal event with its id, never two. Termination no longer assumes the idle / drained '
               "state: C15's lookup measure is lifted through the glue into a global measure M (C16_step_measure: no event but new work "
               'raises it, every productive event - a served query with an action, the answer to a queued dial, pending substream or '
               'future - lowers it), a state in which nothing productive is enabled is idle and drained (C16_stuck_idle), so under a fair '
               'environment every schedule without new work has at most B = sum over the history of (10 n + 5 k + 2) per command, (5 '
               '|peers| + 2) per put_record_to_peers, 2 per inbound substream productive events (n peers in the universe, k the '
               'replication factor; time may pass freely in between) and ends with one terminal event per operation (C16_fair_terminates). '
               'Quorum honesty at full strength: PutRecordSuccess / AddProviderSuccess only after completed sends of SEND-PHASE futures '
               '(PUT_VALUE / ADD_PROVIDER) to at least clamp(quorum, |targets|) distinct TARGET peers; a late FIND_NODE reply cannot count '
               '(the statement does not hold for the model of seeded regression b). Await points on a full event channel '
               '(C16_bounded_channel / C16_channel_drains): with a channel of any capacity nothing is lost, duplicated or reordered, the '
               'loop is parked only while the channel is full, and the user can always drain it. Connection closure during a request '
               '(C16_closed_while_outstanding), provider refresh (a command of the model like start_providing) and peer-timeout staleness '
               '(clock and tick event in the model; all theorems hold for every timeout and every passage of time) are inside the model. '
               'The COMPOSITION with the routing table (C14 model) and the store (C17 model) is a theorem layer: the composed run is a run '
               "of the glue model on computed commands (C16_compose_refines); everything the event loop does to the table preserves C14's "
               'invariant (C16_table_invariant); every lookup is seeded with RoutingTable::closest of the current table, never with the '
               "local peer, and outside finding F-C14a's class the seeds are the k closest addressed entries, sorted, without duplicates "
               '(C16_seeds_from_table); put_record_to_peers targets named peers only (C16_put_to_peers_named, after the repair of F-C16e); '
               'GetRecord with a live local record and Quorum::One answers FoundRecord + GetRecordSuccess at once without a query, '
               'otherwise the lookup counts the local record as found (C16_get_record_local), and a record this node stored is found by '
               'every later GetRecord (C16_put_then_get); the side conditions of the glue theorems (fresh ids, well-formed commands) hold '
               'by construction for composed histories (C16_compose_cmds_ok) and the theorems are restated for them (C16_compose_no_wait / '
               '_terminates / _at_most_one / _quorum_honest). The lookups inside the engine are the C15 model (each engine call is one C15 '
               'step).',
 'level_note': 'Liveness is relative to the environment discharging its obligations (dial -> Established | DialFailure, open -> Opened | '
               'OpenFailure, executor futures complete within the 15 s read/write timeouts) - these are C05 / C08 / tokio guarantees taken '
               'as given; the bound B counts events, "bounded time" is B times those timeouts and is not measured. The fair-termination '
               'theorem is stated for the glue model (peer universe U given); it is not restated for composed histories (the universe '
               'would be the key table plus the peers named in replies). In the composed model records carry one logical ttl and the store '
               "clock stands still (record expiry is C17's subject); provider records of the store (get_providers' known providers, "
               'add_provider side) stay inputs; the routing table is updated in the automatic mode only. The harness exercises staleness '
               'at the two extremes (timeout unreachable / zero), the theorems cover every timeout. Full buckets are reached by the F-C16e '
               'witness only (the generator uses 10 peers).',
 'trusted_base': ['the cfg(verif) probe inside `Kademlia::run` (two add-only statements: one log entry per engine action, one snapshot '
                  'when the loop is about to wait; the snapshot reads the glue maps, the engine, the k-buckets and the store keys) and the '
                  'public wrapper around the crate-private Kademlia object',
                  'HashMap iteration order of the engine enters the model as an input recorded from the implementation (served-query '
                  'events); outside the composed mode so do routing-table answers and SHA-256 distance ranks (seeds, dists). The model '
                  'validates every served query (it must have an action) and that the engine is drained before each select! event. In '
                  "composed mode the peers' SHA-256 keys are data of the case (computed by the crate's Key::from)",
                  'dial() results are forced through the real TransportManagerHandle peer table (verif_force_peer), open_substream results '
                  'through the real connection handle (dropped receiver); carriers are in-memory AsyncRead/AsyncWrite objects',
                  'tokio paused clock for the executor timeouts (advance 16 s with exactly one future in flight) and the refresh timer; '
                  'ConfigBuilder::verif_build_bounded for an event channel of 1-3 slots; QueryEngine::verif_force_peer_timeout(0) for the '
                  'staleness stream (std::time::Instant cannot be paused: zero timeout = stale at the next call)'],
 'assumptions': ['parallelism factor >= 1 (shipped: 3)',
                 'query ids are fresh per command (KademliaHandle draws them from an atomic counter)',
                 'the routing table never returns the local peer and put_record_to_peers is not given one peer twice (`cmd_ok`; a THEOREM '
                 'for composed histories: C16_compose_cmds_ok needs only that the caller names no peer twice)',
                 'the service reports SubstreamOpened for the peer the substream was requested from (C08)',
                 'every obligation is eventually discharged by the environment: a queued dial by ConnectionEstablished or DialFailure '
                 '(C05; see F-C05c for a manager path that stays silent), an open by Opened/OpenFailure, executor futures by their 15 s '
                 'timeouts',
                 'composed model: every peer label has one 256-bit key and distinct peers have distinct keys (`keys_ok`; SHA-256 '
                 'collisions aside)',
                 "inbound substream ids are distinct from the service's substream counter (harness numbering)"]}
